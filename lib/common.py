"""Shared plumbing for the /verif checks: TLC invocation, Go harness builds, evidence, verdicts.

Verdict policy (DESIGN.md section 4):
  exit 0  property held on everything explored (KNOWN-FINDING lines allowed)
  exit 1  + "VIOLATION property=<id> replay=<path>"   real code broke a Layer-P invariant
  exit 2  inconclusive (tool failure, timeout, harness died) -- never a VIOLATION line
"""
import json, os, re, shutil, subprocess, sys, tempfile, time, hashlib

VERIF = os.path.dirname(os.path.dirname(os.path.abspath(__file__)))
REPO = os.environ.get("VERIF_REPO", "/repo")
SPEC = os.path.join(VERIF, "spec")
GO_DIR = os.path.join(VERIF, "go")
EVID = os.path.join(VERIF, "evidence")
TLA_CP = "/opt/veriftools/tla/tla2tools.jar:/opt/veriftools/tla/CommunityModules-deps.jar"
NCPU = os.cpu_count() or 4

GOENV = dict(os.environ)
GOENV.update({
    "GOFLAGS": "-mod=mod", "GOPROXY": "off", "GOSUMDB": "off", "GOTOOLCHAIN": "local",
    "CGO_ENABLED": os.environ.get("CGO_ENABLED", "1"),
})
GO = shutil.which("go1.26") or "go"


class Inconclusive(Exception):
    pass


def log(*a):
    print(*a, flush=True)


def seed():
    try:
        return int(os.environ.get("VERIF_SEED", "1"))
    except ValueError:
        return 1


def scratch(prefix="verif-"):
    return tempfile.mkdtemp(prefix=prefix, dir=os.environ.get("VERIF_TMP", tempfile.gettempdir()))


def run(cmd, cwd=None, env=None, timeout=600, input=None, check=False):
    t0 = time.time()
    try:
        p = subprocess.run(cmd, cwd=cwd, env=env, timeout=timeout, input=input,
                           stdout=subprocess.PIPE, stderr=subprocess.STDOUT, text=True)
    except subprocess.TimeoutExpired as e:
        out = e.stdout if isinstance(e.stdout, str) else (e.stdout or b"").decode("utf8", "replace")
        raise Inconclusive("timeout after %ss: %s\n%s" % (timeout, " ".join(cmd)[:200], out[-2000:]))
    if check and p.returncode != 0:
        raise Inconclusive("command failed (%d): %s\n%s" % (p.returncode, " ".join(cmd)[:300], p.stdout[-4000:]))
    return p.returncode, p.stdout, time.time() - t0


# --------------------------------------------------------------------------------------------
# TLC
# --------------------------------------------------------------------------------------------

def _tlc_cmd(heap=None, deque=False, stack=None):
    cmd = ["java", "-XX:+UseParallelGC"]
    if heap:
        cmd.append("-Xmx" + heap)
    if stack:
        cmd.append("-Xss" + stack)
    if deque:
        cmd.append("-Dtlc2.tool.queue.IStateQueue=StateDeque")
    cmd += ["-cp", TLA_CP, "tlc2.TLC"]
    return cmd


def stage_spec(workdir, extra_files=()):
    """Copy every spec file into a scratch directory (TLC litters its cwd)."""
    d = os.path.join(workdir, "spec")
    if not os.path.isdir(d):
        shutil.copytree(SPEC, d)
    for f in extra_files:
        shutil.copy(f, d)
    return d


class TLCResult:
    def __init__(self, rc, out, wall):
        self.rc, self.out, self.wall = rc, out, wall
        self.generated = self.distinct = self.depth = 0
        m = re.search(r"(\d+) states generated, (\d+) distinct states found, (\d+) states left", out)
        if m:
            ms = re.findall(r"(\d+) states generated, (\d+) distinct states found, (\d+) states left", out)
            self.generated, self.distinct = int(ms[-1][0]), int(ms[-1][1])
            self.left = int(ms[-1][2])
        m = re.search(r"The depth of the complete state graph search is (\d+)", out)
        if m:
            self.depth = int(m.group(1))
        m = re.search(r"The number of states generated: (\d+)", out)
        if m and not self.generated:
            self.generated = int(m.group(1))
        self.violated = None
        m = re.search(r"Invariant (\S+) is violated", out)
        if m:
            self.violated = m.group(1)
        m = re.search(r"Action property (\S+) is violated", out)
        if m:
            self.violated = m.group(1)
        if "Temporal properties were violated" in out:
            self.violated = self.violated or "temporal"
        self.deadlock = "Deadlock reached" in out
        self.completed = "Model checking completed. No error has been found." in out
        self.error = None
        if rc != 0 and not self.violated and not self.deadlock:
            m = re.search(r"(Error: .*|.*Exception.*|.*StackOverflowError.*)", out)
            self.error = m.group(1) if m else "tlc exit %d" % rc

    def prints(self, tag):
        """Values printed by the spec as <<"TAG", ...>> tuples; returns the text after the tag, with the
        line breaks that TLC's pretty-printer inserts into long tuples removed."""
        res = []
        out = self.out
        for m in re.finditer(r'<<\s*"%s",' % re.escape(tag), out):
            i = m.end()
            depth, j, instr = 1, i, False
            while j < len(out) and depth > 0:
                ch = out[j]
                if instr:
                    if ch == "\\":
                        j += 1
                    elif ch == '"':
                        instr = False
                elif ch == '"':
                    instr = True
                elif out.startswith("<<", j):
                    depth += 1
                    j += 1
                elif out.startswith(">>", j):
                    depth -= 1
                    j += 1
                j += 1
            body = out[i:j - 2]
            if "\n" in body:
                # re-join wrapped output: newlines only occur between elements, never inside strings
                body = " ".join(x.strip() for x in body.split("\n"))
            res.append(body.strip())
        return res

    def json_prints(self, tag):
        """For PrintT(<<"TAG", ToJson(v)>>): decode the JSON payloads."""
        res = []
        for body in self.prints(tag):
            body = body.strip()
            if body.startswith('"'):
                # a TLA+ string literal holding JSON: unescape \" and \\
                s = body[1:-1].replace('\\"', '"').replace("\\\\", "\\")
                try:
                    res.append(json.loads(s))
                except Exception:
                    pass
        return res

    def trace_states(self):
        """Parse a printed counterexample: list of dicts var -> raw TLA+ text."""
        states = []
        cur = None
        for line in self.out.splitlines():
            if re.match(r"^State \d+:", line):
                cur = {}
                states.append(cur)
                continue
            if cur is not None:
                m = re.match(r"^(/\\ )?(\w+) = (.*)$", line)
                if m:
                    cur[m.group(2)] = m.group(3)
                    cur["__last"] = m.group(2)
                elif line.strip() == "":
                    cur = None if line == "" and cur else cur
                elif "__last" in cur:
                    cur[cur["__last"]] += " " + line.strip()
        for s in states:
            s.pop("__last", None)
        return states


def tlc(workdir, module, cfg, workers=None, timeout=900, extra=(), heap=None, deque=False,
        stack=None, deadlock=True):
    d = stage_spec(workdir)
    md = tempfile.mkdtemp(prefix="md-", dir=workdir)
    cmd = _tlc_cmd(heap=heap, deque=deque, stack=stack)
    cmd += ["-metadir", md, "-workers", str(workers or "auto"), "-config", cfg]
    if not deadlock:
        cmd += ["-deadlock"]
    cmd += list(extra) + [module]
    env = dict(os.environ)
    env.pop("JAVA_TOOL_OPTIONS", None)
    try:
        rc, out, wall = run(cmd, cwd=d, env=env, timeout=timeout)
    finally:
        shutil.rmtree(md, ignore_errors=True)
    return TLCResult(rc, out, wall)


def tlc_simulate(workdir, module, cfg, num, depth, sd, tag="BEH", timeout=600, extra=()):
    """Run `tlc -simulate` and collect the behaviours the spec prints as JSON under `tag`."""
    r = tlc(workdir, module, cfg, workers=1, timeout=timeout,
            extra=["-simulate", "num=%d" % num, "-depth", str(depth), "-seed", str(sd)] + list(extra))
    if r.error and not r.violated:
        raise Inconclusive("TLC simulate failed for %s/%s: %s\n%s" % (module, cfg, r.error, r.out[-3000:]))
    return r, r.json_prints(tag)


def must_complete(r, what):
    if not r.completed:
        if r.violated or r.deadlock:
            return
        raise Inconclusive("TLC did not complete %s: %s\n%s" % (what, r.error, r.out[-3000:]))


# --------------------------------------------------------------------------------------------
# Go harness
# --------------------------------------------------------------------------------------------

def sync_gosum():
    """The harness module uses `replace github.com/jech/galene => /repo`; it needs the repo's go.sum."""
    src = os.path.join(REPO, "go.sum")
    dst = os.path.join(GO_DIR, "go.sum")
    try:
        with open(src) as f:
            want = f.read()
        extra = ""
        ex = os.path.join(GO_DIR, "go.sum.extra")
        if os.path.exists(ex):
            extra = open(ex).read()
        have = open(dst).read() if os.path.exists(dst) else ""
        if have != want + extra:
            with open(dst, "w") as f:
                f.write(want + extra)
    except OSError as e:
        raise Inconclusive("cannot sync go.sum: %s" % e)
    # go.mod points at REPO
    gm = os.path.join(GO_DIR, "go.mod")
    txt = open(gm).read()
    new = re.sub(r"replace github.com/jech/galene => \S+", "replace github.com/jech/galene => " + REPO, txt)
    if new != txt:
        open(gm, "w").write(new)


def go_build(workdir, pkg, name, tags="verif", race=False, timeout=900):
    """Build ./cmd/<pkg> of the harness module against the current /repo tree."""
    sync_gosum()
    out = os.path.join(workdir, name)
    cmd = [GO, "build", "-tags", tags, "-o", out]
    if race:
        cmd.append("-race")
    cmd.append(pkg)
    rc, o, _ = run(cmd, cwd=GO_DIR, env=GOENV, timeout=timeout)
    if rc != 0:
        raise Inconclusive("go build %s failed (the tree under test does not compile with the harness):\n%s" % (pkg, o[-4000:]))
    return out


def overlay_json(workdir, pkgdir, files):
    """files: list of paths under /verif/go/overlay/<pkg>/; they are compiled into REPO/<pkgdir>."""
    repl = {}
    for f in files:
        base = os.path.basename(f)
        repl[os.path.join(REPO, pkgdir, "zz_verif_" + base)] = f
    p = os.path.join(workdir, "overlay_%s.json" % pkgdir.replace("/", "_"))
    with open(p, "w") as fh:
        json.dump({"Replace": repl}, fh)
    return p


def go_test_binary(workdir, pkgdir, name, tags="verif", race=False, timeout=900, pkgname=None):
    """Compile REPO/<pkgdir>'s test binary with the overlay files of /verif/go/overlay/<pkgdir>."""
    odir = os.path.join(GO_DIR, "overlay", pkgdir)
    files = sorted(os.path.join(odir, f) for f in os.listdir(odir) if f.endswith(".go"))
    # shared helper, instantiated for this package
    tmpl = open(os.path.join(GO_DIR, "overlay", "_common", "vtrace_test.go.tmpl")).read()
    gen = os.path.join(workdir, "gen_" + pkgdir.replace("/", "_"))
    os.makedirs(gen, exist_ok=True)
    hp = os.path.join(gen, "vtrace_test.go")
    with open(hp, "w") as fh:
        fh.write(tmpl.replace("package PKG", "package " + (pkgname or os.path.basename(pkgdir))))
    files.append(hp)
    ov = overlay_json(workdir, pkgdir, files)
    out = os.path.join(workdir, name)
    cmd = [GO, "test", "-c", "-tags", tags, "-vet=off", "-overlay", ov, "-o", out]
    if race:
        cmd.append("-race")
    cmd.append("./" + pkgdir)
    rc, o, _ = run(cmd, cwd=REPO, env=GOENV, timeout=timeout)
    if rc != 0:
        raise Inconclusive("go test -c ./%s failed (tree under test does not compile with the harness):\n%s" % (pkgdir, o[-4000:]))
    return out


# --------------------------------------------------------------------------------------------
# Known findings, evidence, verdict
# --------------------------------------------------------------------------------------------

def known_findings(pid):
    p = os.path.join(VERIF, "known_findings.json")
    if not os.path.exists(p):
        return []
    with open(p) as f:
        data = json.load(f)
    return [e for e in data.get("findings", []) if e.get("property") == pid and e.get("status") == "known"]


def save_replay(pid, name, obj):
    d = os.path.join(VERIF, "replays", pid)
    os.makedirs(d, exist_ok=True)
    p = os.path.join(d, name)
    with open(p, "w") as f:
        if isinstance(obj, str):
            f.write(obj)
        else:
            json.dump(obj, f, indent=1)
    return p


class Report:
    """Collects what a run covered and turns it into evidence + exit status."""

    def __init__(self, pid, level="model_checking"):
        self.pid = pid
        self.level = level
        self.tier = os.environ.get("VERIF_TIER", "quick")
        self.t0 = time.time()
        self.cov = {"states": 0, "transitions": 0, "traces_validated_against_impl": 0, "samples": [],
                    "evaluations": 0, "distinct_nontrivial": 0, "rule": "", "model_runs": [],
                    "drift": [], "known_findings_hit": []}
        self.assumptions = []
        self.violations = []   # (what, replay path)
        self.known_hits = {}   # id -> text
        self.notes = []
        self._distinct = set()

    def model(self, name, r, exhaustive=None):
        self.cov["states"] += r.distinct
        self.cov["transitions"] += r.generated
        self.cov["model_runs"].append({"cfg": name, "distinct_states": r.distinct, "states_generated": r.generated,
                                       "depth": r.depth, "wall_s": round(r.wall, 1),
                                       "completed": bool(r.completed),
                                       "result": ("violated:" + r.violated) if r.violated else ("deadlock" if r.deadlock else "ok")})
        if exhaustive is not None:
            self.cov["exhaustive_model"] = bool(exhaustive and r.completed)

    def sample(self, s):
        if len(self.cov["samples"]) < 6:
            self.cov["samples"].append(s)

    def case(self, key, nontrivial=True):
        self.cov["evaluations"] += 1
        if nontrivial:
            h = hashlib.sha1(json.dumps(key, sort_keys=True, default=str).encode()).hexdigest()
            self._distinct.add(h)

    def cases(self, n, distinct):
        self.cov["evaluations"] += n
        self.cov["distinct_nontrivial"] += distinct

    def traces(self, n):
        self.cov["traces_validated_against_impl"] += n

    def drift(self, what):
        if len(self.cov["drift"]) < 20:
            self.cov["drift"].append(what)
        log("MODEL-DRIFT: property=%s %s" % (self.pid, what))

    def violation(self, what, replay_obj, name=None):
        name = name or ("violation_%d_%d.json" % (seed(), len(self.violations)))
        path = save_replay(self.pid, name, {"property": self.pid, "what": what, "replay": replay_obj})
        self.violations.append((what, path))
        log("VIOLATION property=%s replay=%s" % (self.pid, path))
        log("  what: %s" % what)

    def known(self, fid, text):
        if fid not in self.known_hits:
            self.known_hits[fid] = text
            log("KNOWN-FINDING: property=%s %s" % (self.pid, text))

    def finish(self):
        self.cov["distinct_nontrivial"] += len(self._distinct)
        self.cov["known_findings_hit"] = sorted(self.known_hits)
        ev = {
            "property_id": self.pid, "tier": self.tier if self.tier in ("quick", "thorough") else "quick",
            "seed": seed(), "level": self.level, "coverage": self.cov,
            "assumptions": self.assumptions, "wall_s": round(time.time() - self.t0, 2),
            "violations": len(self.violations), "notes": self.notes,
        }
        if ev["coverage"]["states"] == 0:
            ev["coverage"]["states"] = 0
        os.makedirs(EVID, exist_ok=True)
        with open(os.path.join(EVID, self.pid + ".json"), "w") as f:
            json.dump(ev, f, indent=1, default=str)
        if self.violations:
            return 1
        return 0


def main_wrapper(pid, fn):
    """Run a check; map exceptions to the inconclusive exit status."""
    try:
        rc = fn()
    except Inconclusive as e:
        log("INCONCLUSIVE property=%s: %s" % (pid, e))
        return 2
    return rc


# --------------------------------------------------------------------------------------------
# Trace validation (code -> spec)
# --------------------------------------------------------------------------------------------

class TraceVerdict:
    def __init__(self):
        self.done = False
        self.lines = 0
        self.nbeh = 0
        self.drift = 0
        self.bads = []      # (line, behaviour number, clause)
        self.raw = None


def tlc_trace(workdir, module, cfg, trace_path, trace_name, timeout=1800, heap="8g", stack="256m", deque=False):
    """Validate one NDJSON trace file with a Trace_* spec.  The spec prints
    <<"TRACE-BAD", line, behaviour, clause>> for every Layer-P failure and
    <<"TRACE-DONE", lines, behaviours, first drift line, nbad>> when it consumed the whole file."""
    d = stage_spec(workdir)
    shutil.copy(trace_path, os.path.join(d, trace_name))
    r = tlc(workdir, module, cfg, workers=1, timeout=timeout, heap=heap, stack=stack, deque=deque)
    v = TraceVerdict()
    v.raw = r
    for body in r.prints("TRACE-BAD"):
        parts = [x.strip().strip('"') for x in body.split(",")]
        try:
            v.bads.append((int(parts[0]), int(parts[1]), parts[2]))
        except Exception:
            v.bads.append((0, 0, body))
    for body in r.prints("TRACE-DONE"):
        parts = [x.strip() for x in body.split(",")]
        v.done = True
        v.lines, v.nbeh, v.drift = int(parts[0]), int(parts[1]), int(parts[2])
        if len(parts) > 3 and int(parts[3]) != len(v.bads):
            raise Inconclusive("the trace spec counted %s Layer-P failures but %d were parsed from its output" % (parts[3], len(v.bads)))
    if not v.done:
        raise Inconclusive("trace validation did not reach the end of %s (%s/%s): %s\n%s"
                           % (trace_path, module, cfg, r.error, r.out[-3000:]))
    return v


def read_ndjson(path):
    out = []
    with open(path) as f:
        for line in f:
            line = line.strip()
            if line:
                out.append(json.loads(line))
    return out


def split_behaviours(events, marker="New"):
    behs, cur = [], None
    for i, e in enumerate(events):
        if e.get("ev") == marker:
            cur = {"first_line": i + 1, "events": [e]}
            behs.append(cur)
        elif cur is not None:
            cur["events"].append(e)
    return behs
