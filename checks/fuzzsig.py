"""Ill-typed / out-of-order signalling messages for C12: every message type and kind in every membership state, with each field
independently well-typed, missing, of the wrong JSON type, or naming an unknown / somebody else's id."""
import json, random
import sig

TYPES = [("join", ["join", "leave", "bogus"]), ("request", [""]), ("requestStream", [""]), ("offer", [""]), ("answer", [""]),
         ("renegotiate", [""]), ("close", [""]), ("abort", [""]), ("ice", [""]), ("chat", ["", "me", "caption"]),
         ("usermessage", ["", "kicked", "mute"]), ("useraction", ["op", "unop", "present", "unpresent", "shutup", "unshutup", "kick", "identify", "setdata", "bogus"]),
         ("groupaction", ["clearchat", "lock", "unlock", "record", "unrecord", "subgroups", "setdata", "maketoken", "edittoken", "listtokens", "bogus"]),
         ("ping", [""]), ("pong", [""]), ("handshake", [""]), ("bogus", [""])]
VALUES = [None, "", "x", 0, 1.5, True, [], ["a"], {}, {"id": 7}, {"userId": "A", "id": "m1"}, {"token": "nope"}, {"group": "g", "permissions": "present"},
          {"expires": "garbage"}, {"a": None}]
IDS = ["", "s1", "nope", "A", "../x"]


def message(r, t, k, me):
    m = {"type": t}
    if k:
        m["kind"] = k
    for field, choices in (("id", IDS), ("dest", ["", "A", "B", "nope", 7]), ("value", VALUES), ("request", VALUES),
                           ("sdp", ["", "v=0", 5, "garbage\r\n"]), ("candidate", [None, {}, {"candidate": "x"}, "str"]),
                           ("replace", ["", "s1", 3]), ("label", ["", "camera", 9]), ("group", ["g", "", "nope", "../g", 4]),
                           ("username", [None, "pr", "", 5]), ("password", ["pw-pr", "", 6, None]), ("token", ["", "tok", 8]),
                           ("source", ["", me]), ("data", [None, {}, "x", 3]), ("noecho", [True, "x"]), ("version", [["2"], "2", 2])):
        if r.random() < 0.45:
            m[field] = r.choice(choices)
    return m


def behaviours(tier, seed):
    r = random.Random(seed)
    out = []
    J = lambda c, u, g="g": ["send", c, {"type": "join", "kind": "join", "group": g, "username": u, "password": sig.PW.get(u, "wp")}]
    S = ["settle"]
    n = 6 if tier == "thorough" else 2
    for rep in range(n):
        for state in ("never-joined", "member-op", "member-ob", "refused", "left"):
            steps = [["ws", "W"], J("W", "op"), S]          # W: a bystander that must survive
            steps += [["ws", "P"], J("P", "pr"), ["publish", "P", "s1", "camera", 1, 1], ["sleep", 250], S]
            steps += [["ws", "A"]]
            if state == "member-op":
                steps += [J("A", "op"), S]
            elif state == "member-ob":
                steps += [J("A", "ob"), S]
            elif state == "refused":
                steps += [["send", "W", {"type": "groupaction", "kind": "lock"}], S, J("A", "pr"), S]
            elif state == "left":
                steps += [J("A", "pr"), S, ["send", "A", {"type": "join", "kind": "leave", "group": "g"}], S]
            for (t, kinds) in TYPES:
                for k in kinds:
                    steps.append(["send", "A", message(r, t, k, "A")])
                    steps.append(["ws", "A"] if r.random() < 0.15 else ["sleep", 1])
            steps += [S, ["raw", "A", "{not json"], ["raw", "A", "[]"], ["raw", "A", "\"str\""], ["raw", "A", "{\"type\":5}"], S,
                      ["send", "W", {"type": "chat", "source": "W", "value": "still here", "id": "alive"}], S]
            out.append({"name": "fuzz-%s-%d" % (state, rep), "fixture": sig.fixture(1, 1), "expect": {}, "steps": steps, "pipelined": True})
    return out
