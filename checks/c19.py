"""C19 -- names from clients never reach files outside their configured directories.

Model: Paths.tla -- path.Clean, validGroupName, validUsername, parseGroupName, getDescriptionFile's file name and the recordings delete
action as operators over component sequences (Layer I), against the property's closed form (non-empty, relative, no backslash, no
empty / '.' / '..' component) and 'resolution never climbs above the root' (Layer P); TLC checks their agreement on every name of up to
3 components over {a, b, ., .., empty, x\\y, .h} and prints the table.  MC_Paths_F22.cfg (parseGroupName before the repair) must violate.
Conformance, library level: the real validators, parser, description functions (Get / Update / Delete / SetUserPassword / SetKeys / Add,
the conditional delete armed with the tag of every sentinel) and openDiskFile are called on every table row, on hand-written escapes
(absolute paths to the sentinels, climbs of every depth, backslashes, NUL, percent-encodings) and on seeded hostile strings, inside a
scratch tree with sentinel files next to the configured directories, compared before / after every call.
Conformance, server level: raw HTTP requests (no client-side cleaning) with traversal attempts against the static, group, API,
recordings and delete-form routes of the real server, and websocket joins with bad group names and usernames; every directory of the
scratch tree is digested after every request.  Trace_Paths judges everything from the logged observations."""
import json, os, shutil, urllib.parse
import common as C

PID = "C19"
PW = "recpw"
SENT = ["SENT-OUT-DESC", "SENT-OUT-TXT", "SENT-ROOT-PW", "SENT-REC-H", "SENT-REC-TOP", "SENT-H-SECRET", "SENT-DATA-TOK"]
ESC = ["..", "../..", "%2e%2e", "%2e%2e/%2e%2e", "..%2f..", "%2e%2e%2f%2e%2e", "..\\..", "..%5c..", "....//....", ".%2e/.%2e", "%252e%252e", "..;/..", "%00/..", "./../.", "//..//..", "..%00"]


def fixture():
    def grp(extra=None, secret=""):
        g = {"allow-recording": True, "users": {"rec": {"password": PW, "permissions": "op"}, "alice": {"password": "apw", "permissions": "present"}},
             "wildcard-user": {"password": "wild", "permissions": "present"}}
        if secret:
            g["users"]["s"] = {"password": secret, "permissions": "observe"}
        g.update(extra or {})
        return json.dumps(g)
    return {"files": {"groups/g.json": grp(), "groups/h.json": grp(secret="SENT-H-SECRET"), "groups/sub/x.json": grp(),
                      "outside/secret.json": grp({"displayName": "SENT-OUT-DESC"}), "outside/secret.txt": "SENT-OUT-TXT", "outside/g.json": grp({"displayName": "SENT-OUT-DESC"}),
                      "secret.json": grp({"displayName": "SENT-OUT-DESC"}), "groups.json": grp({"displayName": "SENT-OUT-DESC"}), "g.json": grp({"displayName": "SENT-OUT-DESC"}),
                      "data/config.json": json.dumps({"writableGroups": True, "users": {"root": {"password": "SENT-ROOT-PW", "permissions": "admin"}}}),
                      "data/var/tokens.jsonl": json.dumps({"token": "SENT-DATA-TOK", "group": "h", "permissions": ["present"], "expires": "2099-01-01T00:00:00Z"}) + "\n",
                      "static/index.html": "static index", "static/galene.html": "static galene", "static/third-party/x.js": "js",
                      "recordings/g/r1.webm": "REC-G-1", "recordings/g/r2.webm": "REC-G-2", "recordings/h/r1.webm": "SENT-REC-H", "recordings/secret.txt": "SENT-REC-TOP",
                      "recordings/sub/x/r1.webm": "REC-SUBX", "recordings/g/inner/r1.webm": "REC-G-INNER", "recordings/g/inner/deep/r2.webm": "REC-G-INNER-DEEP",
                      "groups/g/inner.json": grp(), "groups/g/inner/deep.json": grp()},
            "sentinels": SENT}


def server_behaviours():
    meta, behs = {}, []
    k = [0]

    def req(st, method, target, user="", pw="", may="", headers=None, body=""):
        k[0] += 1
        n = "p%d" % k[0]
        st.append(["rawhttp", n, method, target, headers or {}, body, user, pw])
        meta[n] = {"may": may}
    # 1. reads through every route family ("@" = the escape under test)
    st = [["files"]]
    for e in ESC:
        for t in ("/@/outside/secret.txt", "/@/data/config.json", "/@/groups/h.json", "/third-party/@/@/outside/secret.txt",
                  "/group/@/outside/secret/", "/group/g/@/outside/secret/", "/group/@/secret/", "/group/@/outside/secret/.status.json", "/group/@/outside/secret/.status",
                  "/group/@/g/.status.json", "/public-groups.json/@/outside/secret.txt"):
            req(st, "GET", t.replace("@", e))
        for t in ("/recordings/@/outside/secret.txt", "/recordings/g/@/h/r1.webm", "/recordings/g/@/secret.txt", "/recordings/@/groups/h.json", "/recordings/g/@/@/outside/secret.txt",
                  "/recordings/@/outside/", "/recordings/g/@/h/"):
            req(st, "GET", t.replace("@", e), "rec", PW)
        for t in ("/galene-api/v0/.groups/@/outside/secret", "/galene-api/v0/.groups/g/@/outside/secret", "/galene-api/v0/.groups/@/secret", "/galene-api/v0/.groups/@/outside/secret/.users/rec",
                  "/galene-api/v0/.groups/@/outside/secret/.users/", "/galene-api/v0/.groups/g/.users/@/outside/secret"):
            req(st, "GET", t.replace("@", e), "root", "SENT-ROOT-PW")
    st.append(["files"])
    behs.append({"name": "traversal-reads", "fixture": fixture(), "steps": st, "roots": True})
    # 2. writes / deletes through the API and the delete form
    st = [["files"]]
    for e in ESC:
        for t in ("/galene-api/v0/.groups/@/outside/new", "/galene-api/v0/.groups/@/outside/secret", "/galene-api/v0/.groups/g/@/@/outside/new", "/galene-api/v0/.groups/@/data/config"):
            req(st, "PUT", t.replace("@", e), "root", "SENT-ROOT-PW", "groups", {"Content-Type": "application/json"}, '{"displayName":"written"}')
            req(st, "DELETE", t.replace("@", e), "root", "SENT-ROOT-PW", "groups", {"If-Match": "*"})
        for t in ("/galene-api/v0/.groups/@/outside/secret/.users/rec/.password", "/galene-api/v0/.groups/@/outside/secret/.keys", "/galene-api/v0/.groups/g/.users/@/x"):
            req(st, "PUT", t.replace("@", e), "root", "SENT-ROOT-PW", "groups", {"Content-Type": "application/json"}, '"pw"')
        for fn in (e + "/h/r1.webm", e + "/secret.txt", e, e + "/" + e + "/outside/secret.txt", "../h/r1.webm", "..%2fh%2fr1.webm", "..\\h\\r1.webm", "/h/r1.webm",
                   "inner/r1.webm", "./inner/r1.webm", "x/../inner/r1.webm", "inner/deep/r2.webm", "inner//r1.webm", "inner\\r1.webm", "inner", "inner/"):
            req(st, "POST", "/recordings/g/", "rec", PW, "recordings", {"Content-Type": "application/x-www-form-urlencoded"},
                "q=delete&filename=" + urllib.parse.quote(fn, safe=""))
        req(st, "POST", "/recordings/g/" + e + "/h/", "rec", PW, "recordings", {"Content-Type": "application/x-www-form-urlencoded"}, "q=delete&filename=r1.webm")
    # a legitimate delete and a legitimate API write, so that the permitted effects are exercised too
    req(st, "POST", "/recordings/g/", "rec", PW, "recordings", {"Content-Type": "application/x-www-form-urlencoded"}, "q=delete&filename=r2.webm")
    req(st, "PUT", "/galene-api/v0/.groups/newgroup", "root", "SENT-ROOT-PW", "groups", {"Content-Type": "application/json"}, '{"displayName":"fine"}')
    st.append(["files"])
    behs.append({"name": "traversal-writes", "fixture": fixture(), "steps": st, "roots": True})
    # 3. websocket joins under bad group names and usernames
    st = [["files"]]
    i = 0
    for gname in ("../outside/secret", "g/../../outside/secret", "../secret", "../g", "..\\outside\\secret", "./g", "g/", "g//", "g/.", "sub/../g", "/g", "", ".", "..", "g\\..\\h", "sub//x", "sub/./x", "%2e%2e/secret",
                  "sub/x", "g"):
        i += 1
        c = "w%d" % i
        st += [["ws", c], ["send", c, {"type": "join", "kind": "join", "group": gname, "username": "rec", "password": PW}], ["settle"], ["closews", c]]
    for uname in ("../../x", "a/../b", "a\\b", "/abs", ".", "..", "a/", "a//b", "./a", "a/./b", "..\\x", "fine", "a/b", ""):
        i += 1
        c = "w%d" % i
        st += [["ws", c], ["send", c, {"type": "join", "kind": "join", "group": "g", "username": uname, "password": "wild"}], ["settle"], ["closews", c]]
    st.append(["files"])
    behs.append({"name": "bad-names-over-websocket", "fixture": fixture(), "steps": st, "roots": True})
    return behs, meta


def run(tier, replay=None):
    rep = C.Report(PID)
    w = C.scratch("c19-")
    try:
        thorough = tier == "thorough"
        r = C.tlc(w, "Paths.tla", "MC_Paths.cfg", workers=1, timeout=600, deadlock=False)
        rep.model("MC_Paths.cfg (every name of <=3 components over 7 component kinds: validators, parser, file name, delete target vs the closed form)", r, exhaustive=True)
        if r.violated:
            raise C.Inconclusive("Paths model violates %s\n%s" % (r.violated, r.out[-1500:]))
        C.must_complete(r, "MC_Paths")
        r2 = C.tlc(w, "Paths.tla", "MC_Paths_F22.cfg", workers=1, timeout=600, deadlock=False)
        if not r2.violated:
            raise C.Inconclusive("the faithful pre-fix configuration MC_Paths_F22 no longer violates P2")
        rows = r.json_prints("CASE")
        if len(rows) < 300:
            raise C.Inconclusive("only %d rows enumerated" % len(rows))
        script = os.path.join(w, "paths.json")
        json.dump({"cases": rows}, open(script, "w"))
        sd = C.seed()
        traces = []
        n = "4000" if thorough else "400"
        for pkg in ("group", "webserver", "diskwriter"):
            tb = C.go_test_binary(w, pkg, pkg + ".paths.test")
            out = os.path.join(w, "trace_paths_%s.ndjson" % pkg)
            env = dict(C.GOENV)
            env.update({"VERIF_IN": script, "VERIF_OUT": out, "VERIF_SEED": str(sd), "VERIF_N": n})
            rc, o, _ = C.run([tb, "-test.run", "^TestVerifPaths$", "-test.count=1"], cwd=w, env=env, timeout=1800)
            if rc != 0:
                raise C.Inconclusive("%s paths harness failed (exit %d): %s" % (pkg, rc, o[-1500:]))
            traces.append(out)
        # the real server
        if replay and "http_behaviours" in json.load(open(replay))["replay"]:
            rp = json.load(open(replay))["replay"]
            behs, meta = rp["http_behaviours"], rp["meta"]
        else:
            behs, meta = server_behaviours()
        sc2 = os.path.join(w, "paths_script.json")
        json.dump(behs, open(sc2, "w"))
        binp = C.go_build(w, "./cmd/srvdrive", "srvdrive")
        t3 = os.path.join(w, "trace_paths_srv.ndjson")
        env = dict(C.GOENV)
        env.update({"VERIF_IN": sc2, "VERIF_OUT": t3})
        rc, o, _ = C.run([binp], cwd=w, env=env, timeout=3000)
        if rc != 0:
            raise C.Inconclusive("srvdrive (paths) failed (exit %d): %s" % (rc, o[-1500:]))
        traces.append(t3)
        events = []
        for t in traces:
            events += C.read_ndjson(t)
        prevrec = None
        for e in events:
            if e["ev"] == "New":
                prevrec = None
            if e["ev"] in ("http", "files") and "roots" in e:
                cur = set(e["roots"].pop("reclist", None) or [])
                lost = (prevrec - cur) if prevrec is not None else set()
                # the delete form of group g may remove files that lie directly in recordings/g/ and nothing else
                e["lost_elsewhere"] = int(any(os.path.dirname(p) != "g" for p in lost))
                prevrec = cur
            if e["ev"] == "http":
                e["x"] = meta.get(e.get("name"), {"may": ""})
                e.setdefault("lost_elsewhere", 0)
                e.setdefault("leaks", [])
            if e["ev"] == "recv":
                m = e.get("m") or {}
                e["type"], e["kind"], e["group"], e["username"] = m.get("type", ""), m.get("kind", ""), m.get("group") or "", m.get("username") or ""
                g, u = e["group"], e["username"]
                e["gcomps"], e["gbs"], e["ucomps"], e["ubs"] = g.split("/"), int("\\" in g), u.split("/"), int("\\" in u)
        t4 = os.path.join(w, "trace_paths.ndjson")
        with open(t4, "w") as f:
            for e in events:
                f.write(json.dumps(e) + "\n")
        v = C.tlc_trace(w, "Trace_Paths.tla", "Trace_Paths.cfg", t4, "trace_paths.ndjson", timeout=3000)
        rep.traces(v.nbeh + 3)
        kinds = {}
        for e in events:
            kinds[e["ev"]] = kinds.get(e["ev"], 0) + 1
        rep.cov["event_kinds"] = kinds
        names = [e for e in events if e["ev"] == "name"]
        rep.cov["names_judged"] = {"total": len(names), "accepted_by_validator": sum(e.get("valid", 0) for e in names), "instantiated": sum(e.get("add", 0) for e in names),
                                   "description_written": sum(e.get("update_ok", 0) for e in names)}
        https = [e for e in events if e["ev"] == "http"]
        rep.cov["raw_http_requests"] = len(https)
        rep.cov["raw_http_status_histogram"] = {str(s): sum(1 for e in https if e["status"] == s) for s in sorted({e["status"] for e in https})}
        joins = [e for e in events if e["ev"] == "recv" and e.get("type") == "joined"]
        rep.cov["websocket_join_outcomes"] = ["%s as %s -> %s" % (json.dumps(e["group"]), json.dumps(e["username"]), e["kind"]) for e in joins]
        disk = [e for e in events if e["ev"] == "diskfile"]
        rep.cov["recording_files_created"] = sum(len(e["created"]) for e in disk)
        rep.cases(len(events), len({json.dumps([e["ev"], e.get("valid"), e.get("add"), e.get("status"), e.get("out") == "", e.get("ok"), e.get("update_ok")]) for e in events}) + len(rows))
        rep.cov["rule"] = ("one evaluation = one name pushed through the real validators + description functions, one parser call, one openDiskFile call, or one raw HTTP request / websocket join on the real server; "
                           "distinct = table rows + distinct outcome classes")
        if names:
            rep.sample({k: names[len(names) // 2].get(k) for k in ("name", "valid", "user", "add", "update_ok", "changed")})
        if https:
            rep.sample({k: https[len(https) // 2].get(k) for k in ("method", "path", "status")})
        if v.drift:
            rep.drift("%d validator / parser results differ from Layer I (Paths.tla) although they satisfy the property" % v.drift)
        for (line, nb, clause) in v.bads:
            e = events[line - 1]
            if clause.startswith("C19_"):
                rep.violation("%s: %s" % (clause, json.dumps({k: e.get(k) for k in ("ev", "name", "prefix", "out", "username", "method", "path", "status", "leaks", "valid", "user", "add", "outside_changed", "created", "group", "x") if e.get(k) not in (None, [], "")})[:500]),
                              {"event": e, "http_behaviours": [b for b in behs if any(len(s) > 1 and s[1] == e.get("name") for s in b["steps"])] if e["ev"] == "http" else [], "meta": meta if e["ev"] == "http" else {}})
            else:
                rep.notes.append("clause %s of another property failed at line %d: %s" % (clause, line, json.dumps(e)[:200]))
        rep.assumptions += ["Linux semantics (separator '/'): the backslash rules are judged as the property states them, the Windows-only separator branches are not executed",
                            "symbolic links inside the configured directories are not planted (os.Root's own guarantee)",
                            "recording file names are judged at openDiskFile (the only place a file is created by the recorder), not through a full recording session"]
        return rep.finish()
    finally:
        shutil.rmtree(w, ignore_errors=True)
