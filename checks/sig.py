"""Signalling conformance shared by C08, C11, C12, C14, C15: TLC-simulated abstract stimuli (Sim_Signalling) are turned into
concrete websocket messages, executed against the REAL server (child process, srvdrive) and judged by Trace_Signalling."""
import json, os
import common as C

PW = {"op": "pw-op", "pr": "pw-pr", "ms": "pw-ms", "ob": "pw-ob"}
ROLE = {"op": "op", "pr": "present", "ms": "message", "ob": "observe"}
PREFIX = {"C08": ("C08_",), "C10": ("C10_",), "C11": ("C11_",), "C12": ("C12_",), "C14": ("C14_",), "C15": ("C15_",)}


def group_json(allowrec, unrestricted, extra=None):
    d = {"users": {u: {"password": PW[u], "permissions": ROLE[u]} for u in PW},
         "wildcard-user": {"password": "wp", "permissions": "present"}}
    if allowrec:
        d["allow-recording"] = True
    if unrestricted:
        d["unrestricted-tokens"] = True
    if extra:
        d.update(extra)
    return json.dumps(d)


def perms_of(u, allowrec, unrestricted):
    """C08's oracle, the same table as Signalling.tla's RolePerms (and Auth.tla)."""
    if u == "op":
        return ["op", "present", "message", "caption", "token"] + (["record"] if allowrec else [])
    if u == "ms":
        return ["message"]
    if u == "ob":
        return []
    return ["present", "message"] + (["token"] if unrestricted else [])


def expect_table(allowrec, unrestricted, groups=("g", "h")):
    t = {u: perms_of(u, allowrec, unrestricted) for u in PW}
    t["*"] = perms_of("guest", allowrec, unrestricted)
    return {g: dict(t) for g in groups}


def fixture(allowrec, unrestricted, extra_files=None, extra_g=None):
    files = {"groups/g.json": group_json(allowrec, unrestricted, extra_g), "groups/h.json": group_json(allowrec, unrestricted),
             "groups/k.json": group_json(allowrec, unrestricted, {"autolock": True}),
             "data/config.json": json.dumps({"writableGroups": True, "users": {"root": {"password": "rootpw", "permissions": "admin"}}})}
    if extra_files:
        files.update(extra_files)
    return {"files": files, "sentinels": ["rootpw"]}


def translate(beh, name):
    """abstract ops of Sim_Signalling -> concrete steps"""
    steps, conn, uname, grp = [], set(), {}, {}
    n = [0]

    def ensure(c):
        if c not in conn:
            steps.append(["ws", c])
            conn.add(c)

    def others(c):
        return [x for x in "ABCD" if x != c][0]

    for op in beh["ops"]:
        k = op[0]
        if k == "join":
            _, c, g, u, good = op
            ensure(c)
            user = u if u != "guest" else "guest-" + c
            pw = (PW.get(u, "wp") if good else "wrong")
            steps.append(["send", c, {"type": "join", "kind": "join", "group": g, "username": user, "password": pw}])
            # bookkeeping only to fill in "own" claims; the monitor takes names from the server's messages
            if good and c not in grp:
                uname[c], grp[c] = user, g
            elif c in grp:
                conn.discard(c); grp.pop(c, None); uname.pop(c, None)   # protocol error closes the connection
        elif k == "leave":
            c = op[1]
            ensure(c)
            steps.append(["send", c, {"type": "join", "kind": "leave", "group": grp.get(c, "g")}])
            grp.pop(c, None)
        elif k == "disc":
            c = op[1]
            if c in conn:
                steps.append(["closews", c])
                conn.discard(c); grp.pop(c, None); uname.pop(c, None)
        elif k == "reconnect":
            c = op[1]
            conn.discard(c); grp.pop(c, None); uname.pop(c, None)
            ensure(c)
        elif k == "chat":
            _, c, t, kind, d, cs, cu, ne = op
            ensure(c)
            n[0] += 1
            m = {"type": t, "kind": kind, "dest": d, "value": "v%d" % n[0], "id": "m%d" % n[0]}
            if ne:
                m["noecho"] = True
            if cs == "own":
                m["source"] = c
            elif cs == "other":
                m["source"] = others(c)
            if cu == "own":
                m["username"] = uname.get(c, "")
            elif cu == "other":
                m["username"] = "mallory"
            steps.append(["send", c, m])
            if cs == "other" or cu == "other":
                conn.discard(c); grp.pop(c, None); uname.pop(c, None)
        elif k == "ua":
            _, c, kind, d = op
            ensure(c)
            steps.append(["send", c, {"type": "useraction", "kind": kind, "dest": d}])
        elif k == "ga":
            _, c, kind = op
            ensure(c)
            steps.append(["send", c, {"type": "groupaction", "kind": kind}])
        elif k == "mt":
            _, c, tg, ps, ex, sub, tu = op
            ensure(c)
            v = {"group": tg, "permissions": ps}
            if ex:
                v["expires"] = "2099-01-01T00:00:00Z"
            if sub:
                v["includeSubgroups"] = True
            if tu:
                v["username"] = tu
            steps.append(["send", c, {"type": "groupaction", "kind": "maketoken", "value": v}])
        steps.append(["settle"])
    steps.append(["http", "stats", "GET", "/galene-api/v0/.stats", {}, "", "root", "rootpw"])
    steps.append(["settle"])
    return {"name": name, "fixture": fixture(beh.get("allowrec", 0), beh.get("unrestricted", 0)), "steps": steps,
            "expect": beh.get("expect") or expect_table(beh.get("allowrec", 0), beh.get("unrestricted", 0))}


def corpus():
    """hand-written regression behaviours: the repaired findings and the history bound"""
    out = []
    J = lambda c, u, g="g": ["send", c, {"type": "join", "kind": "join", "group": g, "username": u, "password": PW.get(u, "wp")}]
    S = ["settle"]
    # F2: refused join (locked group), then a publish attempt
    out.append({"name": "F2-refused-join-then-offer", "fixture": fixture(0, 0), "expect": expect_table(0, 0), "steps": [
        ["ws", "A"], J("A", "op"), S, ["send", "A", {"type": "groupaction", "kind": "lock"}], S,
        ["ws", "B"], J("B", "pr"), S, ["publish", "B", "s1", "camera", 1, 1], ["sleep", 300], S,
        ["send", "B", {"type": "chat", "source": "B", "value": "x", "id": "q1"}], S, S]})
    # F13: join immediately followed by leave, pipelined
    st = [["ws", "A"], J("A", "op"), S]
    for i in range(6):
        c = "BCD"[i % 3]
        st += [["ws", c], J(c, "pr"), ["send", c, {"type": "join", "kind": "leave", "group": "g"}], J(c, "pr"), ["send", c, {"type": "join", "kind": "leave", "group": "g"}]]
    st += [S, S]
    # (pipelined: the rights in a joined message are read when it is sent, possibly after the leave; no C08 oracle)
    out.append({"name": "F13-join-leave-pipelined", "fixture": fixture(0, 0), "expect": {}, "steps": st, "pipelined": True})
    # F14: redirect + matching user
    out.append({"name": "F14-redirect-with-user", "fixture": fixture(0, 0, extra_g={"redirect": "https://example.org/"}), "expect": {}, "steps": [
        ["ws", "A"], J("A", "op"), S, ["ws", "B"], J("B", "pr"), S, ["closews", "A"], S, ["ws", "C"], J("C", "pr"), S,
        ["http", "stats", "GET", "/galene-api/v0/.stats", {}, "", "root", "rootpw"], S]})
    # F10: unop one operator, then a fresh operator logs in
    # (without allow-recording: with it every login gets a fresh copy of the role's list)
    out.append({"name": "F10-unop-then-fresh-login", "fixture": fixture(0, 0), "expect": expect_table(0, 0), "steps": [
        ["ws", "A"], J("A", "op"), S, ["ws", "B"], J("B", "op"), S, ["send", "A", {"type": "useraction", "kind": "unop", "dest": "B"}], S,
        ["send", "A", {"type": "useraction", "kind": "shutup", "dest": "B"}], S,
        ["ws", "C"], J("C", "op", "h"), S, ["ws", "D"], J("D", "op"), S, S]})
    # every claim about source / username by a member that may chat (spoofs close the offender only)
    st3 = [["ws", "A"], J("A", "op"), S, ["ws", "B"], J("B", "pr"), S]
    k = 0
    for cs in ("own", "other", "none"):
        for cu in ("own", "other", "none", "member"):
            for t in ("chat", "usermessage"):
                k += 1
                m = {"type": t, "value": "c%d" % k, "id": "c%d" % k}
                if cs == "own":
                    m["source"] = "B"
                elif cs == "other":
                    m["source"] = "A"
                if cu == "own":
                    m["username"] = "pr"
                elif cu == "other":
                    m["username"] = "mallory"
                elif cu == "member":
                    m["username"] = "op"
                st3 += [["send", "B", m], S]
                if cs == "other" or cu in ("other", "member"):
                    st3 += [["ws", "B"], J("B", "pr"), S]
    out.append({"name": "spoof-matrix", "fixture": fixture(0, 0), "expect": expect_table(0, 0), "steps": st3 + [S]})
    # permission edits on users that share a role: every ordered pair of edits on two different users, then both try to chat and a
    # fresh user of the same role logs in
    for (a1, a2) in (("shutup", "unpresent"), ("unpresent", "shutup"), ("unop", "shutup"), ("shutup", "unop")):
        role = "op" if "unop" in (a1, a2) else "pr"
        st4 = [["ws", "A"], J("A", "op"), S, ["ws", "B"], J("B", role), S, ["ws", "C"], J("C", role), S,
               ["send", "A", {"type": "useraction", "kind": a1, "dest": "B"}], S,
               ["send", "A", {"type": "useraction", "kind": a2, "dest": "C"}], S,
               ["send", "B", {"type": "chat", "source": "B", "value": "from B", "id": "b1"}], S,
               ["send", "C", {"type": "chat", "source": "C", "value": "from C", "id": "c1"}], S,
               ["publish", "B", "sB", "camera", 1, 0], ["sleep", 200], S, ["publish", "C", "sC", "camera", 1, 0], ["sleep", 200], S,
               ["ws", "D"], J("D", role), S, ["send", "D", {"type": "chat", "source": "D", "value": "from D", "id": "d1"}], S, S]
        out.append({"name": "shared-role-%s-then-%s" % (a1, a2), "fixture": fixture(0, 0), "expect": expect_table(0, 0), "steps": st4})
    # setdata: later updates, deletions, and late joiners must agree
    SD = lambda c, v: ["send", c, {"type": "useraction", "kind": "setdata", "dest": c, "value": v}]
    out.append({"name": "setdata-merge", "fixture": fixture(0, 0), "expect": expect_table(0, 0), "steps": [
        ["ws", "A"], J("A", "pr"), S, ["ws", "B"], J("B", "ms"), S, SD("A", {"raisehand": True}), S, SD("A", {"mood": "happy"}), S,
        ["ws", "C"], J("C", "ob"), S, SD("A", {"raisehand": None}), S, ["ws", "D"], J("D", "op"), S, SD("B", {"x": 1}), S, SD("B", {"y": [1, 2]}), S, S]})
    # two changes of one member in quick succession: each is broadcast by its own detached goroutine; the first one is held back
    # (hook rtpconn.changeBroadcast, delayed in the server child) so that the second overtakes it -- every view must still end up
    # with the LAST state
    UA = lambda c, k, d: ["send", c, {"type": "useraction", "kind": k, "dest": d}]
    out.append({"name": "racing-change-broadcasts-permissions", "fixture": fixture(0, 0), "expect": expect_table(0, 0), "delay": "rtpconn.changeBroadcast:1:400", "pipelined": True, "steps": [
        ["ws", "A"], J("A", "op"), S, ["ws", "B"], J("B", "pr"), S, ["ws", "C"], J("C", "pr"), S, ["ws", "D"], J("D", "ms"), S,
        UA("A", "op", "B"), ["sleep", 60], UA("A", "unop", "B"), ["sleep", 900], S, S]})
    out.append({"name": "racing-change-broadcasts-setdata", "fixture": fixture(0, 0), "expect": expect_table(0, 0), "delay": "rtpconn.changeBroadcast:1:400", "pipelined": True, "steps": [
        ["ws", "A"], J("A", "op"), S, ["ws", "B"], J("B", "pr"), S, ["ws", "C"], J("C", "pr"), S,
        SD("B", {"hand": "up"}), ["sleep", 60], SD("B", {"hand": "down"}), ["sleep", 900], S, ["ws", "E"], J("E", "ob"), S, S]})
    # delegation: every permission a token asks for must be held by its creator -- also when the list mixes held and foreign ones
    MT = lambda c, ps, **kw: ["send", c, {"type": "groupaction", "kind": "maketoken", "value": dict({"group": "g", "permissions": ps, "expires": "2099-01-01T00:00:00Z"}, **kw)}]
    out.append({"name": "token-delegation-mixed-permission-lists", "fixture": fixture(0, 1), "expect": expect_table(0, 1), "steps": [
        ["ws", "A"], J("A", "op"), S, ["ws", "B"], J("B", "pr"), S,
        MT("B", ["op"]), S, MT("B", ["message", "op"]), S, MT("B", ["op", "present"]), S, MT("B", ["present", "message", "record"]), S,
        MT("B", ["present", "message"]), S, MT("B", []), S, MT("A", ["op", "present"]), S, MT("A", ["op", "admin"]), S,
        ["send", "A", {"type": "useraction", "kind": "unop", "dest": "A"}], S, MT("A", ["message", "op"]), S, S]})
    # C10 seen through the real server: an autolock group, operators that are demoted at run time, the last one leaving
    ek = expect_table(0, 0, groups=("g", "h", "k"))
    ek["k"]["!autolock"] = []
    for variant in ("demoted-leaves-first", "demoted-stays"):
        stk = [["ws", "A"], J("A", "op", "k"), S, ["send", "A", {"type": "groupaction", "kind": "unlock"}], S,
               ["ws", "B"], J("B", "op", "k"), S, ["ws", "C"], J("C", "pr", "k"), S,
               UA("A", "unop", "B"), S, ["send", "C", {"type": "join", "kind": "leave", "group": "k"}], S]
        if variant == "demoted-leaves-first":
            stk += [["send", "B", {"type": "join", "kind": "leave", "group": "k"}], S]
        # the last operator leaves: the group locks itself again; newcomers without 'op' stay out until an operator is back and unlocks
        stk += [["send", "A", {"type": "join", "kind": "leave", "group": "k"}], S, ["ws", "E"], J("E", "pr", "k"), S,
                ["ws", "D"], J("D", "ms", "k"), S, J("A", "op", "k"), S, ["ws", "F"], J("F", "pr", "k"), S,
                ["send", "A", {"type": "groupaction", "kind": "unlock"}], S, ["ws", "G"], J("G", "pr", "k"), S, S]
        out.append({"name": "autolock-with-runtime-demotion-" + variant, "fixture": fixture(0, 0), "expect": ek, "steps": stk})
    # a token whose username is present but empty, presented without a username; a token without username
    tk = lambda i, extra: json.dumps(dict({"token": i, "group": "g", "permissions": ["present"], "expires": "2099-01-01T00:00:00Z"}, **extra)) + "\n"
    out.append({"name": "token-empty-username", "fixture": fixture(0, 0, extra_files={"data/var/tokens.jsonl": tk("tokE", {"username": ""}) + tk("tokN", {}) + tk("tokU", {"username": "tu"})}),
                "expect": {}, "steps": [
        ["ws", "A"], ["send", "A", {"type": "join", "kind": "join", "group": "g", "token": "tokE"}], S,
        ["ws", "B"], ["send", "B", {"type": "join", "kind": "join", "group": "g", "token": "tokN"}], S,
        ["ws", "C"], ["send", "C", {"type": "join", "kind": "join", "group": "g", "token": "tokU"}], S,
        ["ws", "D"], ["send", "D", {"type": "join", "kind": "join", "group": "g", "token": "tokE", "username": "dd"}], S,
        ["http", "bearerE", "GET", "/galene-api/v0/.groups/g", {"Authorization": "Bearer tokE"}, "", "", ""],
        ["http", "bearerN", "GET", "/galene-api/v0/.stats", {"Authorization": "Bearer tokN"}, "", "", ""],
        ["http", "bearerU", "GET", "/galene-api/v0/.groups/", {"Authorization": "Bearer tokU"}, "", "", ""], S, S]})
    # F11: an operator of h edits / lists a token of g
    tokfile = json.dumps({"token": "tokg1", "group": "g", "permissions": ["present"], "expires": "2099-01-01T00:00:00Z", "username": "tu"}) + "\n"
    out.append({"name": "F11-edittoken-cross-group", "fixture": fixture(0, 0, extra_files={"data/var/tokens.jsonl": tokfile}), "expect": expect_table(0, 0), "steps": [
        ["ws", "A"], J("A", "op", "h"), S,
        ["send", "A", {"type": "groupaction", "kind": "listtokens"}], S,
        ["send", "A", {"type": "groupaction", "kind": "edittoken", "value": {"token": "tokg1", "expires": "2020-01-01T00:00:00Z"}}], S,
        ["ws", "B"], J("B", "op", "g"), S, ["send", "B", {"type": "groupaction", "kind": "listtokens"}], S,
        ["send", "B", {"type": "groupaction", "kind": "edittoken", "value": {"token": "tokg1", "expires": "2098-01-01T00:00:00Z"}}], S, S]})
    # history bound: 60 broadcast chats, a directed one and a usermessage; then a joiner
    st = [["ws", "A"], J("A", "op"), S, ["ws", "B"], J("B", "pr"), S]
    for i in range(60):
        st.append(["send", "AB"[i % 2], {"type": "chat", "source": "AB"[i % 2], "value": "h%d" % i, "id": "h%d" % i}])
        st.append(S)   # one chat at a time: the order of the history is then the order of sending
    st += [S, ["send", "A", {"type": "chat", "source": "A", "dest": "B", "value": "direct", "id": "d1"}], S,
           ["send", "A", {"type": "usermessage", "source": "A", "value": "um", "id": "u1"}], S,
           ["ws", "C"], J("C", "ms"), S,
           ["send", "A", {"type": "groupaction", "kind": "clearchat", "value": {"userId": "B", "id": "h59"}}], S,
           ["ws", "D"], J("D", "ob"), S,
           ["send", "A", {"type": "groupaction", "kind": "clearchat", "value": {"userId": "A"}}], S,
           ["send", "D", {"type": "join", "kind": "leave", "group": "g"}], S, J("D", "ob"), S,
           ["send", "A", {"type": "groupaction", "kind": "clearchat"}], S,
           ["send", "C", {"type": "join", "kind": "leave", "group": "g"}], S, J("C", "ms"), S, S]
    # joins racing with broadcast chats on a full history, and with clearchat: the replay must be a gap-free in-order run
    st2 = [["ws", "A"], J("A", "op"), S]
    for i in range(50):
        st2.append(["send", "A", {"type": "chat", "source": "A", "value": "h%d" % i, "id": "h%d" % i}])
    st2.append(S)
    nxt = 50
    for c in "BCD":
        st2.append(["ws", c])
    for rnd in range(4):
        for k in range(120):
            st2.append(["send", "A", {"type": "chat", "source": "A", "value": "h%d" % nxt, "id": "h%d" % nxt}])
            nxt += 1
            c = "BCD"[k % 3]
            if k % 6 < 3:
                st2.append(["send", c, {"type": "join", "kind": "join", "group": "g", "username": "guest-" + c, "password": "wp", "data": {"racing": True}}])
            else:
                st2.append(["send", c, {"type": "join", "kind": "leave", "group": "g"}])
        st2.append(S)
    out.append({"name": "history-replay-racing-with-chats", "fixture": fixture(0, 0), "expect": {}, "steps": st2, "pipelined": True})
    out.append({"name": "history-bound-and-clearchat", "fixture": fixture(0, 0), "expect": expect_table(0, 0), "steps": st})
    # every message stands for itself: a field that is absent is empty, whatever the previous message on that socket said
    CH = lambda c, **kw: ["send", c, dict({"type": "chat", "source": c}, **kw)]
    st5 = [["ws", "A"], J("A", "op"), S, ["ws", "B"], J("B", "pr"), S, ["ws", "C"], J("C", "ms"), S,
           CH("A", dest="B", value="private-1", id="p1", noecho=True), S, CH("A", value="broadcast-after-private", id="b1"), S,
           CH("A", kind="me", value="waves", id="b2"), S, CH("A", value="plain-after-me", id="b3"), S,
           CH("B", dest="C", value="private-2", id="p2"), S, CH("B", value="broadcast-2", id="b4"), S,
           ["send", "A", {"type": "usermessage", "source": "A", "dest": "C", "kind": "info", "value": "um-direct", "id": "u1"}], S,
           ["send", "A", {"type": "usermessage", "source": "A", "value": "um-broadcast", "id": "u2"}], S,
           ["ws", "D"], J("D", "ob"), S, S]
    out.append({"name": "absent-fields-do-not-carry-over", "fixture": fixture(0, 0), "expect": expect_table(0, 0), "steps": st5})
    # ids are chosen by the senders: removing one user's message must not touch another user's message with the same id
    st6 = [["ws", "A"], J("A", "op"), S, ["ws", "B"], J("B", "pr"), S, ["ws", "C"], J("C", "pr"), S,
           CH("B", value="bob-m1", id="m1"), S, CH("C", value="carol-m1", id="m1"), S, CH("A", value="op-m1", id="m1"), S, CH("B", value="bob-m2", id="m2"), S,
           ["send", "A", {"type": "groupaction", "kind": "clearchat", "value": {"userId": "B", "id": "m1"}}], S,
           ["ws", "D"], J("D", "ob"), S,
           ["send", "A", {"type": "groupaction", "kind": "clearchat", "value": {"userId": "C"}}], S,
           ["ws", "E"], J("E", "ob"), S, S]
    # the history never exceeds the configured age: group g keeps 4 s here; the monitor bounds every chat's age from the
    # driver's clock (certainly expired / certainly alive / unknown) and demands the replay accordingly
    st7 = [["ws", "A"], J("A", "op"), S, ["ws", "B"], J("B", "pr"), S,
           CH("A", value="old-1", id="o1"), S, CH("B", value="old-2", id="o2"), S, ["sleep", 5200],
           CH("A", value="young-1", id="y1"), S, ["ws", "D"], J("D", "ob"), S,
           ["sleep", 5200], ["ws", "E"], J("E", "ob"), S,
           CH("B", value="young-2", id="y2"), S, ["ws", "F"], J("F", "ob"), S, S]
    out.append({"name": "history-age-limit", "fixture": fixture(0, 0, extra_g={"max-history-age": 4}), "expect": expect_table(0, 0),
                "maxage": {"g": 4000}, "steps": st7})
    out.append({"name": "clearchat-with-colliding-ids", "fixture": fixture(0, 0), "expect": expect_table(0, 0), "steps": st6})
    return out


def annotate(events, behs):
    # the oracle table of each behaviour goes into its New event
    bi = -1
    for e in events:
        if e["ev"] == "New":
            bi += 1
            e["expect"] = behs[bi].get("expect", {}) if bi < len(behs) else {}
            e["pipelined"] = 1 if (bi < len(behs) and behs[bi].get("pipelined")) else 0
            e["maxage"] = behs[bi].get("maxage", {}) if bi < len(behs) else {}
    # C15 (history age): the server stamps a chat between the instant the driver sent it (tlo) and the next barrier
    # (thi); a joiner's replay is computed between the instant its join was sent and the barrier that follows
    nxt = 2000000000
    for e in reversed(events):
        if e["ev"] in ("New", "End"):
            nxt = 2000000000
        elif e["ev"] == "settled":
            if not e.get("late"):      # a barrier with an unanswered ping bounds nothing
                nxt = e.get("wt", 0)
        elif e["ev"] == "sent" and isinstance(e.get("m"), dict):
            e["m"]["tlo"] = e.get("wt", 0)
            e["m"]["thi"] = nxt


def run(rep, w, tier, pid, replay=None, extra_behs=None, corpus_only=None):
    thorough = tier == "thorough"
    sd = C.seed()
    behs = []
    if replay:
        rp = json.load(open(replay))["replay"]
        if corpus_only and "behaviours" not in rp:
            return
        behs = rp.get("behaviours", [])
    elif corpus_only:
        behs = [b for b in corpus() if b["name"].startswith(corpus_only)]
    else:
        i = 0
        for (a, u) in ((("TRUE", "FALSE"), ("FALSE", "TRUE"), ("TRUE", "TRUE"), ("FALSE", "FALSE")) if thorough else (("TRUE", "FALSE"), ("FALSE", "TRUE"))):
            if True:
                _, raw = C.tlc_simulate(w, "Sim_Signalling.tla", "Sim_Signalling_%s_%s.cfg" % (a, u), num=(40 if thorough else 12),
                                        depth=31, sd=sd + i, tag="BEH", timeout=900)
                seen = set()
                for b in raw:
                    k = json.dumps(b["ops"][:-1])
                    if k not in seen:
                        seen.add(k)
                        i += 1
                        behs.append(translate(b, "tlc-%s-%s-%d" % (a, u, i)))
        rep.cov["behaviours_from_tlc"] = len(behs)
        behs += corpus()
        behs += (extra_behs or [])
    script = os.path.join(w, "sig_script.json")
    json.dump(behs, open(script, "w"))
    binp = C.go_build(w, "./cmd/srvdrive", "srvdrive")
    trace = os.path.join(w, "trace_sig_raw.ndjson")
    env = dict(C.GOENV)
    env.update({"VERIF_IN": script, "VERIF_OUT": trace})
    rc, out, _ = C.run([binp], cwd=w, env=env, timeout=3000)
    if rc != 0:
        raise C.Inconclusive("srvdrive failed (exit %d): %s" % (rc, out[-2000:]))
    events = C.read_ndjson(trace)
    annotate(events, behs)
    t2 = os.path.join(w, "trace_signalling.ndjson")
    with open(t2, "w") as f:
        for e in events:
            f.write(json.dumps(e) + "\n")
    v = C.tlc_trace(w, "Trace_Signalling.tla", "Trace_Signalling.cfg", t2, "trace_signalling.ndjson", timeout=3000)
    rep.traces(v.nbeh)
    rep.cov["trace_events"] = v.lines
    kinds = {}
    for e in events:
        k = e["ev"] + (":" + e["m"]["type"] if "m" in e else "")
        kinds[k] = kinds.get(k, 0) + 1
    rep.cov["event_kinds"] = kinds
    distinct = {json.dumps([e["ev"], e.get("m", {}).get("type"), e.get("m", {}).get("kind"), e.get("m", {}).get("error"), e.get("m", {}).get("privileged")]) for e in events}
    rep.cases(len(events), len(distinct))
    rep.cov["rule"] = ("one evaluation = one observed event at the real server's websockets/HTTP (stimulus sent, message received, connection closed, liveness); "
                       "distinct = distinct (event, message type, kind, error, privileged) tuples")
    behs_ev = C.split_behaviours(events)
    if behs_ev:
        rep.sample({"behaviour": behs_ev[0]["events"][0].get("name"), "events": [x for x in behs_ev[0]["events"][1:7]]})
    for (line, nb, clause) in v.bads:
        ev = events[line - 1] if 0 < line <= len(events) else {}
        b = behs[nb - 1] if 0 < nb <= len(behs) else None
        if clause.startswith(PREFIX[pid]):
            rep.violation("%s at trace line %d (behaviour %d '%s'): %s" % (clause, line, nb, b["name"] if b else "", json.dumps(ev)[:500]),
                          {"behaviours": [b] if b else [], "line": line, "clause": clause})
        else:
            rep.notes.append("clause %s of another property failed at line %d (behaviour '%s')" % (clause, line, b["name"] if b else ""))
    return events, behs
