"""Shared machinery of C05 and C06: Cache.tla model runs, TLC-simulated behaviours at the real constants,
the public-API driver on the real packetcache.Cache and trace validation with Trace_Cache."""
import json, os
import common as C

PREFIX = {"C05": ("C05_",), "C06": ("C06_",)}


def model(rep, w, cfg, desc, timeout, must_complete=True, workers=None):
    r = C.tlc(w, "MC_Cache.tla", cfg, workers=workers or C.NCPU, timeout=timeout + 60, heap="16g",
              extra=[])
    rep.model("%s (%s)" % (cfg, desc), r, exhaustive=must_complete)
    if r.violated or r.deadlock:
        raise C.Inconclusive("Cache model %s violates %s\n%s" % (cfg, r.violated, r.out[-3000:]))
    if must_complete:
        C.must_complete(r, cfg)
    return r


def model_bounded_time(rep, w, cfg, desc, seconds, module="MC_Cache.tla", heap="16g"):
    """Breadth-first exploration under a wall-clock budget; reports how far it got."""
    d = C.stage_spec(w)
    import subprocess, tempfile, time, shutil
    md = tempfile.mkdtemp(prefix="md-", dir=w)
    cmd = ["timeout", str(seconds)] + C._tlc_cmd(heap=heap) + ["-metadir", md, "-workers", str(C.NCPU), "-config", cfg, module]
    t0 = time.time()
    p = subprocess.run(cmd, cwd=d, stdout=subprocess.PIPE, stderr=subprocess.STDOUT, text=True)
    shutil.rmtree(md, ignore_errors=True)
    r = C.TLCResult(0 if p.returncode in (0, 124) else p.returncode, p.stdout, time.time() - t0)
    import re
    ms = re.findall(r"([\d,]+) states generated.*?([\d,]+) distinct states found", p.stdout)
    if ms and not r.distinct:
        r.generated, r.distinct = int(ms[-1][0].replace(",", "")), int(ms[-1][1].replace(",", ""))
    rep.model("%s (%s; breadth-first under a %ds budget)" % (cfg, desc, seconds), r, exhaustive=None)
    if r.violated:
        raise C.Inconclusive("model %s violates %s\n%s" % (cfg, r.violated, p.stdout[-3000:]))
    return r


def drive_and_validate(rep, w, tier, pid, replay=None):
    thorough = tier == "thorough"
    sd = C.seed()
    behs = []
    if not replay:
        _, raw = C.tlc_simulate(w, "Sim_Cache_MC.tla", "Sim_Cache.cfg", num=(60 if thorough else 12), depth=41, sd=sd, timeout=900)
        _, raw2 = C.tlc_simulate(w, "Sim_Cache_MC.tla", "Sim_Cache_ring.cfg", num=(1500 if thorough else 300), depth=15, sd=sd, timeout=900)
        raw = raw + raw2
        seen = set()
        for b in raw:
            k = json.dumps(b["ops"][:-1])
            if k not in seen:
                seen.add(k)
                behs.append(b)
        for prop in ("C05", "C06"):
            cdir = os.path.join(C.VERIF, "corpus", prop)
            if os.path.isdir(cdir):
                for f in sorted(os.listdir(cdir)):
                    if f.endswith(".json"):
                        behs += json.load(open(os.path.join(cdir, f)))
        n, ln = (300 if thorough else 40), (500 if thorough else 250)
    else:
        rp = json.load(open(replay))["replay"]
        behs, sd, n, ln = rp.get("behaviours", []), rp.get("seed", sd), rp.get("n", 0), rp.get("len", 0)
    rep.cov["behaviours_from_tlc"] = len(behs)
    script = os.path.join(w, "cache_script.json")
    json.dump(behs, open(script, "w"))
    binp = C.go_build(w, "./cmd/cachedrive", "cachedrive")
    trace = os.path.join(w, "trace_cache.ndjson")
    env = dict(C.GOENV)
    env.update({"VERIF_IN": script, "VERIF_OUT": trace, "VERIF_SEED": str(sd), "VERIF_N": str(n), "VERIF_LEN": str(ln),
                "VERIF_TB": "0" if replay else ("2000" if thorough else "300")})
    rc, out, _ = C.run([binp], cwd=w, env=env, timeout=1200)
    if rc != 0:
        raise C.Inconclusive("cache driver died (exit %d): %s" % (rc, out[-2000:]))
    events = C.read_ndjson(trace)
    v = C.tlc_trace(w, "Trace_Cache.tla", "Trace_Cache.cfg", trace, "trace_cache.ndjson", timeout=3000)
    rep.traces(v.nbeh)
    kinds = {}
    for e in events:
        kinds[e["ev"]] = kinds.get(e["ev"], 0) + 1
    rep.cov["trace_events"] = v.lines
    rep.cov["event_kinds"] = kinds
    distinct = {json.dumps([e.get("ev"), e.get("off"), e.get("asked"), len(e.get("nk", [])), e.get("rid", 0) != 0, e.get("ok"), e.get("cap")])
                for e in events}
    rep.cases(len(events), len(distinct))
    rep.cov["rule"] = ("one evaluation = one public-API call on the real packetcache.Cache (Store+receive-loop NACK decision, Get, GetAt, Resize, ResizeCond, "
                       "GetStats, ToBitmap); distinct = distinct (call kind, arrival offset, NACK asked/size, hit/miss, resize outcome/capacity) tuples")
    behs_ev = C.split_behaviours(events)
    if behs_ev:
        rep.sample({"behaviour": behs_ev[0]["events"][0], "events": behs_ev[0]["events"][1:6]})
        nk = [e for e in events if e.get("ev") == "S" and e.get("nk")]
        if nk:
            rep.sample({"nack_decision": nk[0]})
    if v.drift:
        rep.drift("cache step differs from Layer I at trace line %d: %s" % (v.drift, json.dumps(events[v.drift - 1])[:300]))
    for (line, nb, clause) in v.bads:
        ev = events[line - 1] if 0 < line <= len(events) else {}
        if clause.startswith(PREFIX[pid]):
            b = behs_ev[nb - 1] if 0 < nb <= len(behs_ev) else None
            rep.violation("%s at trace line %d (behaviour %d, %s): %s" % (clause, line, nb, b["events"][0] if b else "", json.dumps(ev)[:300]),
                          {"behaviours": behs, "seed": sd, "n": n, "len": ln, "line": line})
        else:
            rep.notes.append("clause %s of another property failed at line %d" % (clause, line))
