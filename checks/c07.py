"""C07 -- subscribers are offered exactly what they requested; teardown reaches everyone.

Model: Streams.tla -- one action per client stimulus (join, leave, request, requestStream, publish with 1-3 tracks and optional replace,
unpublish, abort) with the messages the server sends in reaction (pushConnNow / pushDownConn / requestedTracks / closeDownConn as Layer I);
every reaction is folded through StrMonitor (Layer P: offers only to joined members of the publisher's group, labelled with the
publisher's id and username, carrying exactly what the subscriber's request selects -- first audio, first video for 'video', last for
'video-low'; closes only for streams that ended / are not requested / were aborted or not negotiated; another client's abort or request
touches nobody else; at quiescence offered <=> requested and nothing is held of an ended stream).  TLC checks exhaustively (3 clients,
2 groups, 2 stream ids, 5 request maps, 4 track shapes, 5 stimuli) that the monitor never objects to the design and that the design
satisfies the quiescent equalities.
Conformance: TLC-simulated stimulus sequences and hand-written behaviours (every way a stream can end: unpublish, leave, disconnect,
kick, loss of 'present', replace; late joiners, per-stream requests, abort, a subscriber that never answers, another group) are executed
against the REAL server with real pion publishers sending RTP and real subscribers answering offers; the same monitor judges the observed
offer / close messages (Trace_Streams)."""
import shutil
import common as C
import streams

PID = "C07"


def run(tier, replay=None):
    rep = C.Report(PID)
    w = C.scratch("c07-")
    try:
        r = C.tlc(w, "Streams.tla", "MC_Streams.cfg", workers=C.NCPU, timeout=2400, deadlock=False, stack="256m")
        rep.model("MC_Streams.cfg (3 clients x 2 groups x 2 stream ids, 5 request maps, 4 track shapes, <=5 stimuli; exhaustive)", r, exhaustive=True)
        if r.violated:
            raise C.Inconclusive("Streams model violates %s\n%s" % (r.violated, r.out[-2000:]))
        C.must_complete(r, "MC_Streams")
        streams.run(rep, w, tier, PID, replay)
        rep.assumptions += ["sequential driver: one stimulus at a time, quiescence (statistics stable, every socket pinged) before the next; concurrent stimuli are covered by the model only",
                            "before a publication is complete (all tracks arrived and fanned out, as seen in the server's statistics) offers may carry what the request selects from the tracks arrived so far",
                            "media flow itself (RTP reaching subscribers) is C01-C04's business; here the signalling of streams is judged"]
        return rep.finish()
    finally:
        shutil.rmtree(w, ignore_errors=True)
