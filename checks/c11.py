"""C11 -- every privileged action requires its permission; non-members hold none.

Model: Signalling.tla (one action per handled client message, all membership states incl. 'join refused', every stimulus kind,
token creation) folded through SigMonitor: an unauthorised or spoofed stimulus has no effect beyond a refusal reply to its sender
(C11), tokens are created only within the creator's rights (A3); exhaustive for 3 clients x 2 groups up to 3 stimuli.
Conformance: TLC-simulated stimuli sequences + regression behaviours against the real server (child process, real websockets),
judged by the same monitor (Trace_Signalling)."""
import shutil
import common as C
import sig, httpapi

PID = "C11"


def model(rep, w, tier):
    r = C.tlc(w, "Signalling.tla", "MC_Signalling.cfg", workers=C.NCPU, timeout=1500, heap="20g", deadlock=False)
    rep.model("MC_Signalling.cfg (3 clients, 2 groups, every stimulus in every membership state, <=3 stimuli; exhaustive)", r, exhaustive=True)
    if r.violated:
        raise C.Inconclusive("Signalling model violates %s\n%s" % (r.violated, r.out[-2000:]))
    C.must_complete(r, "MC_Signalling")


def run(tier, replay=None):
    rep = C.Report(PID)
    w = C.scratch("c11-")
    try:
        model(rep, w, tier)
        sig.run(rep, w, tier, PID, replay)
        httpapi.run_table(rep, w, tier, PID, replay)     # A5: WHIP ingest and its session resource
        rep.assumptions += ["sequential driver with a quiescence barrier after every stimulus: effects are attributed to the stimulus that precedes them",
                            "rights are what the server itself told each client in joined messages (their correctness is C08's business)",
                            "WHIP ingest (A5): real SDP offers POSTed to the real server with every credential kind, then PATCH/DELETE on the session with the same, a wrong and no bearer (Trace_Http)"]
        return rep.finish()
    finally:
        shutil.rmtree(w, ignore_errors=True)
