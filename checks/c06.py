"""C06 -- loss accounting and NACK generation never blame a packet that arrived.

Model: Cache.tla accounting part (RFC 3550 counters, loss bitmap, the receive loop's NACK decision transcribed
from rtpreader.go) against N1-N4, S1-S3; steady streams exhaustively (N4), lossy/late/restart histories
breadth-first under a time budget; the faithful switch re-finds the repaired finding F20.
Conformance: real Store/BitmapGet/Expect/GetStats/ToBitmap on TLC-simulated and seeded histories at the real
constants, validated by Trace_Cache.  End to end: a scripted pion publisher (never-sent gaps, held-and-late packets, duplicates, wrap) feeds
the REAL server; hooks at sendNACK (readLoop) and sendNACKs (nackWriter) log, at the instant a NACK goes upstream,
whether the cache holds the packet and whether it is at or beyond the newest; a subscriber injects NACKs for held
packets that then arrive before nackWriter wakes; Trace_Nack judges N1-N4 on the real loops."""
import shutil
import common as C
import cache, nacke2e

PID = "C06"


def run(tier, replay=None):
    rep = C.Report(PID)
    w = C.scratch("c06-")
    try:
        cache.model(rep, w, "MC_Cache_steady.cfg", "steady streams (<=1 missing at a time), bounded response N4; exhaustive to 17 positions", 900)
        cache.model_bounded_time(rep, w, "MC_Cache_loss.cfg", "loss/late/duplicate/restart histories, M=32, bitmap 8, late threshold 4",
                                 600 if tier == "thorough" else 60)
        r = C.tlc(w, "MC_Cache.tla", "MC_Cache_F20.cfg", workers=4, timeout=600)
        rep.model("MC_Cache_F20.cfg (faithful pre-fix switch; must violate)", r)
        if not r.violated:
            raise C.Inconclusive("model no longer reproduces F20 with the fix switched off")
        r = C.tlc(w, "MC_Cache.tla", "MC_Cache_F26.cfg", workers=4, timeout=600)
        rep.model("MC_Cache_F26.cfg (faithful pre-fix switch; must violate)", r)
        if not r.violated:
            raise C.Inconclusive("model no longer reproduces F26 with the fix switched off")
        cache.drive_and_validate(rep, w, tier, PID, replay)
        nacke2e.run(rep, w, tier, PID, replay)
        rep.assumptions += ["API tier: the receive loop's NACK arithmetic is executed by the driver as transcribed in the spec (ReadLoopStep); end-to-end tier: the real readLoop / nackWriter, observed at their two sending points",
                            "N4 is judged only on steady streams (arrival offsets 1 or 2) with the loop run after every packet"]
        return rep.finish()
    finally:
        shutil.rmtree(w, ignore_errors=True)
