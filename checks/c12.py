"""C12 -- no client input can crash the server or a request handler.

The technique's contribution is systematic enumeration with a predicted outcome class: Signalling.tla is total over the stimulus alphabet
in every membership state (TLC evaluating it on the full alphabet is the design-level totality check); the same stimuli, ill-typed variants
of every message field, the HTTP method x path x credential table (AdminAPI.tla) and the packet-shape table (Rewrite.tla) are executed
against the REAL server in a child process / the real parsers under recover(); a dead process (R1), a request without response (R2), a
closed bystander connection (R3) or a parser panic / length change (R4) is a violation."""
import shutil
import common as C
import sig, c11, fuzzsig, httpapi, rewrite

PID = "C12"


def run(tier, replay=None):
    rep = C.Report(PID, level="exploration")
    w = C.scratch("c12-")
    try:
        c11.model(rep, w, tier)
        sig.run(rep, w, tier, PID, replay, extra_behs=fuzzsig.behaviours(tier, C.seed()))
        httpapi.run_table(rep, w, tier, PID, replay)
        rewrite.run_shapes(rep, w, tier, PID, replay)
        rep.assumptions += ["crash-freedom is shown for the enumerated stimuli / requests / packet shapes and the sampled random ones, not for every byte string",
                            "pion's own code is trusted"]
        return rep.finish()
    finally:
        shutil.rmtree(w, ignore_errors=True)
