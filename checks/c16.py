"""C16 -- stateful tokens: durable, conditionally updated, and revocation is final.

Model: Stores.tla (token/stateful.go over an explicit file-system model: load/Update/Delete/add/rewrite/Expire, editors with
tags, an external editor, a crash between any two file-system steps) with E1-E4 as invariants, exhaustive for 2 tokens x 2
values x 2 editors up to 4 file versions.
Conformance: TLC-simulated behaviours (library calls, external edits, restarts, crashes at named points) and seeded ones are
executed on the real token package -- crashing operations in a child process that exits at the hook point -- the file is read
back by an independent JSONL reader and every id looked up through the library after each step; parallel editors increment a
counter through read-tag/conditional-write; Trace_Stores judges E1-E4."""
import json, os, shutil
import common as C

PID = "C16"


def run(tier, replay=None):
    rep = C.Report(PID)
    w = C.scratch("c16-")
    try:
        thorough = tier == "thorough"
        r = C.tlc(w, "Stores.tla", "MC_Stores.cfg", workers=C.NCPU, timeout=900)
        rep.model("MC_Stores.cfg (2 tokens x 2 values, 2 editors, sweeper, external editor, crash anywhere, <=4 file versions; exhaustive)", r, exhaustive=True)
        if r.violated:
            raise C.Inconclusive("Stores model violates %s\n%s" % (r.violated, r.out[-2000:]))
        C.must_complete(r, "MC_Stores")
        sd = C.seed()
        behs = []
        if replay:
            behs = json.load(open(replay))["replay"].get("behaviours", [])
        else:
            _, raw = C.tlc_simulate(w, "Sim_Stores.tla", "Sim_Stores.cfg", num=(400 if thorough else 80), depth=80, sd=sd, timeout=600)
            seen = set()
            for b in raw:
                k = json.dumps(b["ops"])
                if k not in seen:
                    seen.add(k)
                    behs.append(b)
            cdir = os.path.join(C.VERIF, "corpus", PID)
            if os.path.isdir(cdir):
                for f in sorted(os.listdir(cdir)):
                    if f.endswith(".json"):
                        behs += json.load(open(os.path.join(cdir, f)))
        rep.cov["behaviours_from_tlc"] = len(behs)
        script = os.path.join(w, "store_script.json")
        json.dump(behs, open(script, "w"))
        binp = C.go_build(w, "./cmd/storedrive", "storedrive")
        trace = os.path.join(w, "trace_stores.ndjson")
        env = dict(C.GOENV)
        env.update({"VERIF_IN": script, "VERIF_OUT": trace, "VERIF_SEED": str(sd),
                    "VERIF_N": "0" if replay else ("150" if thorough else "25"),
                    "VERIF_PAR": "0" if replay else "1", "VERIF_PAR_ROUNDS": "150" if thorough else "30"})
        rc, out, _ = C.run([binp], cwd=w, env=env, timeout=1800)
        if rc != 0:
            raise C.Inconclusive("storedrive failed (exit %d): %s" % (rc, out[-2000:]))
        events = C.read_ndjson(trace)
        v = C.tlc_trace(w, "Trace_Stores.tla", "Trace_Stores.cfg", trace, "trace_stores.ndjson", timeout=1800)
        rep.traces(v.nbeh)
        rep.cov["trace_events"] = v.lines
        kinds = {}
        for e in events:
            k = e.get("op", e["ev"])
            kinds[k] = kinds.get(k, 0) + 1
        rep.cov["event_kinds"] = kinds
        rep.cov["crash_points_exercised"] = sorted({e.get("point") for e in events if e.get("op") == "crash"})
        distinct = {json.dumps([e.get("op"), e.get("err"), e.get("point"), e.get("exit"), len(e.get("before", {}).get("disk", [])),
                                e.get("used", "") == e.get("before", {}).get("tag")]) for e in events}
        rep.cases(len(events), len(distinct))
        rep.cov["rule"] = ("one evaluation = one library call / external edit / restart / crashed operation on the real token store, observed by an independent reader; "
                           "distinct = distinct (operation, outcome class, crash point, child exit status, #tokens before, tag current?) tuples")
        behs_ev = C.split_behaviours(events)
        if behs_ev:
            rep.sample({"events": behs_ev[0]["events"][1:4]})
            cr = [e for e in events if e.get("op") == "crash" and e.get("exit") == 3]
            if cr:
                rep.sample({"crashed_operation": cr[0]})
        if v.drift:
            rep.drift("outcome differs from Layer I at line %d: %s" % (v.drift, json.dumps(events[v.drift - 1])[:400]))
        for (line, nb, clause) in v.bads:
            rep.violation("%s at trace line %d (behaviour %d): %s" % (clause, line, nb, json.dumps(events[line - 1])[:500]),
                          {"behaviours": behs, "seed": sd, "line": line})
        rep.assumptions += ["successive file versions differ in size or modification time (the property's own assumption): the drivers wait for the file-system clock to tick before each mutating step and the parallel editors change the record size with every value",
                            "process crashes only (exit at a hook point); power-loss durability (fsync ordering) is not observable and not claimed",
                            "library level only in this check: the HTTP and signalling front-ends of the store are exercised by C11/C17"]
        return rep.finish()
    finally:
        shutil.rmtree(w, ignore_errors=True)
