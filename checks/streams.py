"""C07: translation of the server driver's events into the stream monitor's vocabulary, behaviour generation, judgement."""
import json, os, random
import common as C
import sig

LABELS = ["camera", "screenshare"]


def tname(t):
    """driver track ids look like '<client>-<stream>-audio0'; the monitor knows them as <<kind, 'a0'>>"""
    last = t.rsplit("-", 1)[-1]
    return last[0] + last[-1] if last and last[-1].isdigit() else last


def tracks_of(na, nv):
    return [["audio", "a%d" % i] for i in range(na)] + [["video", "v%d" % i] for i in range(nv)]


def translate(events):
    """driver events -> stim / got / gone / settled"""
    out = []
    over = False
    for e in events:
        ev = e["ev"]
        # the driver tears every socket down after "End": what the server then says belongs to no stimulus
        if ev == "End":
            over = True
        if ev == "New":
            over = False
        if over:
            continue
        if ev == "New":
            out.append({"ev": "New", "name": e.get("name", "")})
            if "pipelined" in e.get("name", ""):
                out.append({"ev": "stim", "c": "", "m": stim("pipelined")})
        elif ev == "settled":
            out.append({"ev": "settled"})
        elif ev in ("closews", "wsclosed"):
            out.append({"ev": "gone", "c": e["c"]})
        elif ev == "answered":
            out.append({"ev": "got", "c": e["c"], "m": {"type": "answer", "kind": "", "id": e["id"], "source": "", "username": "", "label": "", "group": "", "replace": "", "tracks": []}})
        elif ev == "waited":
            if e.get("got", -1) >= e.get("want", 0) and e.get("stable"):
                out.append({"ev": "stim", "c": "", "m": stim("complete", id=e["id"])})
        elif ev == "noanswer":
            out.append({"ev": "stim", "c": e["c"], "m": stim("noanswer")})
        elif ev == "sent":
            m = e["m"]
            t = m.get("type")
            if t == "join":
                out.append({"ev": "stim", "c": e["c"], "m": stim("leave" if m.get("kind") == "leave" else "join")})
            elif t == "request":
                try:
                    rq = json.loads(m.get("request") or "{}")
                except Exception:
                    rq = {}
                req = [[k, [str(x) for x in v]] for k, v in rq.items() if isinstance(v, list)] if isinstance(rq, dict) else []
                out.append({"ev": "stim", "c": e["c"], "m": stim("request", req=req)})
            elif t == "requestStream":
                try:
                    ks = json.loads(m.get("request") or "[]")
                except Exception:
                    ks = []
                out.append({"ev": "stim", "c": e["c"], "m": stim("requestStream", id=m.get("id", ""), kinds=[str(x) for x in ks] if isinstance(ks, list) else [])})
            elif t == "offer":
                tr = [[x[0], tname(x[2])] for x in m.get("tracks", [])]
                out.append({"ev": "stim", "c": e["c"], "m": stim("offer", id=m.get("id", ""), label=m.get("label", ""), tracks=tr, replace=m.get("replace", ""))})
            elif t == "useraction" and m.get("kind") in ("kick", "unpresent"):
                out.append({"ev": "stim", "c": e["c"], "m": stim(m["kind"], id=m.get("dest", ""))})
            elif t in ("close", "abort"):
                out.append({"ev": "stim", "c": e["c"], "m": stim(t, id=m.get("id", ""))})
            else:
                out.append({"ev": "stim", "c": e["c"], "m": stim("other")})
        elif ev == "recv":
            m = e["m"]
            t = m.get("type")
            if t in ("offer", "close", "answer", "abort", "joined"):
                out.append({"ev": "got", "c": e["c"], "m": {"type": t, "kind": m.get("kind", ""), "id": m.get("id", ""), "source": m.get("source", ""), "username": m.get("username", ""),
                                                                "label": m.get("label", ""), "group": m.get("group", ""), "replace": m.get("replace", ""),
                                                                "tracks": [[x[0], tname(x[2])] for x in m.get("tracks", []) if x[1] not in ("inactive", "recvonly")]}})
    return out


def stim(t, id="", label="", tracks=None, replace="", req=None, kinds=None):
    return {"type": t, "id": id, "label": label, "tracks": tracks or [], "replace": replace, "req": req or [], "kinds": kinds or []}


def steps_of(hist):
    """stimuli of Streams.tla -> driver steps"""
    st, conn, joined = [], set(), {}
    S = ["settle"]
    shapes = {}
    for h in hist:
        c, m = h["c"], h["m"]
        t = m["type"]
        if c not in conn:
            st.append(["ws", c])
            conn.add(c)
        if t == "join":
            st += [["send", c, {"type": "join", "kind": "join", "group": m["label"], "username": "user-" + c, "password": "wp"}], S]
            joined[c] = m["label"]
        elif t == "leave":
            st += [["send", c, {"type": "join", "kind": "leave", "group": joined.get(c, "g")}], S]
            joined.pop(c, None)
        elif t == "request":
            rq = m["req"] if isinstance(m["req"], dict) else {}
            st += [["send", c, {"type": "request", "request": {k: sorted(v) for k, v in rq.items()}}], ["sleep", 150], S]
        elif t == "requestStream":
            st += [["send", c, {"type": "requestStream", "id": m["id"], "request": sorted(m["kinds"])}], ["sleep", 150], S]
        elif t == "offer":
            na = sum(1 for x in m["tracks"] if x[0] == "audio")
            nv = sum(1 for x in m["tracks"] if x[0] == "video")
            step = ["publish", c, m["id"], m["label"], na, nv]
            if m.get("replace"):
                step.append(m["replace"])
            st += [step, ["waittracks", m["id"], na + nv, 6000], S]
        elif t == "close":
            st += [["unpublish", c, m["id"]], ["sleep", 200], S]
        elif t == "abort":
            st += [["send", c, {"type": "abort", "id": m["id"]}], ["sleep", 150], S]
    st += [S]
    return st


def corpus():
    J = lambda c, u="", g="g", pw="wp": ["send", c, {"type": "join", "kind": "join", "group": g, "username": u or ("user-" + c), "password": pw}]
    S = ["settle"]
    R = lambda c, rq: [["send", c, {"type": "request", "request": rq}], ["sleep", 150], S]
    AV = {"": ["audio", "video"]}
    out = []
    # every way a stream can end, with three kinds of subscribers watching (all, audio only, nothing) and one in another group
    for how in ("unpublish", "leave", "disconnect", "kick", "unpresent", "replace", "replace-other-label", "republish-same-id"):
        st = [["ws", "O"], J("O", "op", "g", "pw-op"), S, ["ws", "P"], J("P"), S, ["ws", "A"], J("A"), S] + R("A", AV) + [["ws", "B"], J("B"), S] + R("B", {"": ["audio"]}) + \
             [["ws", "C"], J("C"), S, ["ws", "D"], J("D", "", "h"), S] + R("D", AV) + \
             [["publish", "P", "s1", "camera", 1, 2], ["waittracks", "s1", 3, 6000], S]
        if how == "unpublish":
            st += [["unpublish", "P", "s1"], ["sleep", 300], S]
        elif how == "leave":
            st += [["send", "P", {"type": "join", "kind": "leave", "group": "g"}], ["sleep", 300], S]
        elif how == "disconnect":
            st += [["closews", "P"], ["sleep", 300], S]
        elif how == "kick":
            st += [["send", "O", {"type": "useraction", "kind": "kick", "dest": "P", "value": "bye"}], ["sleep", 300], S]
        elif how == "unpresent":
            st += [["send", "O", {"type": "useraction", "kind": "unpresent", "dest": "P"}], ["sleep", 300], S]
        elif how == "replace":
            st += [["publish", "P", "s2", "camera", 1, 1, "s1"], ["waittracks", "s2", 2, 6000], S]
        elif how == "replace-other-label":
            st += R("B", {"camera": ["audio"]}) + [["publish", "P", "s2", "screenshare", 0, 1, "s1"], ["waittracks", "s2", 1, 6000], S]
        elif how == "republish-same-id":
            st += [["unpublish", "P", "s1"], ["sleep", 300], S, ["publish", "P", "s1", "screenshare", 0, 2], ["waittracks", "s1", 2, 6000], S]
        st += [S]
        out.append({"name": "stream-ends-by-" + how, "steps": st})
    # late joiner, request before joining, request changes, video-low on one / two video tracks, per-stream requests, abort, a subscriber that never answers
    st = [["ws", "P"], J("P"), S, ["publish", "P", "s1", "camera", 1, 2], ["waittracks", "s1", 3, 6000], S, ["publish", "P", "s2", "screenshare", 0, 1], ["waittracks", "s2", 1, 6000], S,
          ["ws", "Z"]] + R("Z", AV) + [["ws", "A"], J("A"), S] + R("A", AV) + R("A", {"camera": ["video-low"]}) + R("A", {"camera": ["video-low"], "": ["audio", "video"]}) + R("A", {"screenshare": ["video-low"]}) + \
         R("A", AV) + [["send", "A", {"type": "requestStream", "id": "s1", "request": ["audio"]}], ["sleep", 150], S] + R("A", {"": ["video"]}) + \
         [["send", "A", {"type": "requestStream", "id": "s1", "request": ["audio", "video-low"]}], ["sleep", 150], S,
          ["send", "A", {"type": "abort", "id": "s2"}], ["sleep", 150], S] + R("A", {"": ["audio", "video"]}) + \
         [["ws", "N"], ["noanswer", "N"], J("N"), S] + R("N", AV) + [["sleep", 300], S,
          ["ws", "Q"], J("Q"), S] + R("Q", AV) + [["publish", "Q", "s3", "camera", 1, 0], ["waittracks", "s3", 1, 6000], S, ["closews", "A"], ["sleep", 200], S, S]
    out.append({"name": "requests-late-joiner-per-stream-abort-noanswer", "steps": st})
    # an explicitly empty list for a label means "nothing of that label", whatever the default says
    st = [["ws", "P"], J("P"), S, ["ws", "A"], J("A"), S] + R("A", {"": ["audio", "video"], "screenshare": []}) + [["ws", "B"], J("B"), S] + R("B", {"": [], "camera": ["audio"]}) + \
         [["publish", "P", "s1", "camera", 1, 1], ["waittracks", "s1", 2, 6000], S, ["publish", "P", "s2", "screenshare", 1, 1], ["waittracks", "s2", 2, 6000], S] + \
         R("A", {"": [], "screenshare": ["video"]}) + R("B", {"camera": []}) + [S]
    out.append({"name": "explicitly-empty-request-entries", "steps": st})
    # replacements in quick succession (inside the server's 200 ms push delay) and a replacement that is closed at once
    st = [["ws", "P"], J("P"), S, ["ws", "A"], J("A"), S] + R("A", AV) + [["ws", "B"], J("B"), S] + R("B", {"": ["audio"]}) + \
         [["publish", "P", "s1", "camera", 1, 1], ["waittracks", "s1", 2, 6000], S,
          ["publish", "P", "s2", "camera", 1, 1, "s1"], ["sleep", 40], ["publish", "P", "s3", "camera", 1, 1, "s2"], ["waittracks", "s3", 2, 6000], S,
          ["publish", "P", "s4", "camera", 1, 0, "s3"], ["sleep", 40], ["unpublish", "P", "s4"], ["sleep", 500], S, S]
    out.append({"name": "chained-replacements", "steps": st})
    # a member that left and came back has no request until it sends one
    st = [["ws", "P"], J("P"), S, ["ws", "A"], J("A"), S] + R("A", AV) + [["send", "A", {"type": "join", "kind": "leave", "group": "g"}], S, J("A"), S,
          ["publish", "P", "s1", "camera", 1, 1], ["waittracks", "s1", 2, 6000], S] + R("A", {"": ["audio"]}) + \
         [["send", "A", {"type": "join", "kind": "leave", "group": "g"}], S, J("A", "", "h"), S, J("P", "", "h"), S, S]
    out.append({"name": "rejoin-without-request", "steps": st})
    # somebody joins and requests while a publication is starting (the server coalesces its pushes over 200 ms); not quiescent in between
    for d in (0, 20, 60, 100, 150, 250):
        st = [["ws", "P"], J("P"), S, ["ws", "A"], J("A"), S] + R("A", AV) + [["ws", "B"],
              ["publish", "P", "s1", "camera", 1, 1], ["sleep", d], J("B"), ["send", "B", {"type": "request", "request": AV}], ["waittracks", "s1", 2, 6000], S, S]
        out.append({"name": "pipelined-join-while-a-stream-starts-%d" % d, "steps": st})
    # the same with a publisher whose first packet comes late: the newcomer arrives between the offer and the first track
    script = [["p", 1000 + i, 700 if i == 0 else 5] for i in range(120)]
    st = [["ws", "P"], J("P"), S, ["ws", "A"], J("A"), S] + R("A", AV) + [["ws", "B"],
          ["rtpscript", "P", "s1", "camera", script], ["sleep", 250], J("B"), ["send", "B", {"type": "request", "request": AV}], ["rtpwait", "P", "s1", 20000], ["waittracks", "s1", 1, 6000], S, S]
    out.append({"name": "pipelined-join-before-the-first-track", "steps": st})
    return out


def run(rep, w, tier, pid, replay=None):
    thorough = tier == "thorough"
    sd = C.seed()
    if replay:
        behs = json.load(open(replay))["replay"]["behaviours"]
    else:
        _, raw = C.tlc_simulate(w, "Streams.tla", "Sim_Streams.cfg", num=(120 if thorough else 14), depth=12, sd=sd, timeout=900, tag="BEH")
        behs, seen = [], set()
        for h in raw:
            k = json.dumps(h, sort_keys=True)
            if k in seen:
                continue
            seen.add(k)
            behs.append({"name": "tlc-sim-%d" % len(behs), "steps": steps_of(h)})
        rep.cov["behaviours_from_tlc"] = len(behs)
        behs = behs[:(60 if thorough else 8)] + corpus()
    for b in behs:
        b.setdefault("fixture", sig.fixture(0, 0))
    script = os.path.join(w, "streams_script.json")
    json.dump(behs, open(script, "w"))
    binp = C.go_build(w, "./cmd/srvdrive", "srvdrive")
    trace = os.path.join(w, "trace_streams_raw.ndjson")
    env = dict(C.GOENV)
    env.update({"VERIF_IN": script, "VERIF_OUT": trace})
    rc, out, _ = C.run([binp], cwd=w, env=env, timeout=3400)
    if rc != 0:
        raise C.Inconclusive("srvdrive (streams) failed (exit %d): %s" % (rc, out[-1500:]))
    raw_ev = C.read_ndjson(trace)
    events = translate(raw_ev)
    t2 = os.path.join(w, "trace_streams.ndjson")
    with open(t2, "w") as f:
        for e in events:
            f.write(json.dumps(e) + "\n")
    v = C.tlc_trace(w, "Trace_Streams.tla", "Trace_Streams.cfg", t2, "trace_streams.ndjson", timeout=1800)
    rep.traces(v.nbeh)
    got = [e for e in events if e["ev"] == "got"]
    rep.cov["stream_messages"] = {k: sum(1 for e in got if e["m"]["type"] == k) for k in ("offer", "close", "answer", "abort", "joined")}
    rep.cov["stimuli"] = {k: sum(1 for e in events if e["ev"] == "stim" and e["m"]["type"] == k) for k in sorted({e["m"]["type"] for e in events if e["ev"] == "stim"})}
    waits = [e for e in raw_ev if e["ev"] == "waited"]
    rep.cov["publications"] = {"total": len(waits), "complete_and_stable": sum(1 for e in waits if e.get("stable") and e.get("got", -1) >= e.get("want", 0))}
    died = [e for e in raw_ev if e["ev"] in ("dead", "startfail")]
    if died:
        raise C.Inconclusive("the server child died during the stream behaviours: %s" % json.dumps(died[0])[:300])
    rep.cases(len(events), len({json.dumps([e["ev"], e.get("m", {}).get("type"), len(e.get("m", {}).get("tracks", []))]) for e in events}) + len(behs))
    rep.cov["rule"] = "one evaluation = one stimulus sent to / one stream message received from the real server; distinct = behaviours + distinct (event, type, #tracks) classes"
    offers = [e for e in got if e["m"]["type"] == "offer"]
    if offers:
        rep.sample({"offer": offers[len(offers) // 2]})
    for (line, nb, clause) in v.bads:
        b = behs[nb - 1] if 0 < nb <= len(behs) else None
        if clause.startswith("C07_"):
            ctx = [json.dumps(x)[:160] for x in events[max(0, line - 6):line]]
            rep.violation("%s at line %d (behaviour '%s'): %s" % (clause, line, b["name"] if b else "?", " | ".join(ctx)[-900:]), {"behaviours": [b] if b else []})
        else:
            rep.notes.append("clause %s of another property failed" % clause)
