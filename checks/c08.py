"""C08 -- password login needs the right password and yields exactly the configured rights.

Model: Auth.tla's password table (entry kind x wildcard kind x credential x role x allow-recording x unrestricted-tokens: 12 960 rows,
enumerated completely, with shadowing / empty-record invariants) and hash table (432 rows of tool parameters); Signalling.tla for the
history part (the rights a login yields after any moderation of OTHER users).
Conformance: every row through the real Description.GetPermission with real JSON descriptions and real plain/pbkdf2/bcrypt records;
every hash row through galenectl's real makePassword and the server's Password.Match; joined messages of the real server against the
same role table (sig.py, incl. the F10 regression behaviour)."""
import shutil
import common as C
import auth, sig, c11

PID = "C08"


def run(tier, replay=None):
    rep = C.Report(PID)
    w = C.scratch("c08-")
    try:
        rp = None
        if replay:
            import json
            rp = json.load(open(replay))["replay"]
        if not rp or "rows" in rp:
            auth.run_tables(rep, w, tier, PID, ["password", "hash"], replay)
        if not rp or "behaviours" in rp:
            c11.model(rep, w, tier)
            sig.run(rep, w, tier, PID, replay)
        rep.assumptions += ["strength of the hash functions is out of scope; bcrypt cost 4 and few pbkdf2 iterations are used to keep the tables fast",
                            "what a MALFORMED record matches is judged only as 'never authorises'"]
        return rep.finish()
    finally:
        shutil.rmtree(w, ignore_errors=True)
