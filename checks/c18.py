"""C18 -- group definitions: conditional updates are exclusive and file writes are atomic.

Model: Defs.tla -- handler part (stat + checkPreconditions, no lock) and library part (groups.mu: re-read, compare, CreateTemp, encode +
fsync, rename) as separate steps for three editors, lock-free readers and a crash anywhere; X1 (an acknowledged conditional write carried
the tag of the version it replaced), X1b (at most one acknowledged writer per tag), X3 (only complete files are renamed into place; every
reader saw a complete definition) exhaustively up to 4 versions.  MC_Defs_F21.cfg (the password / key handlers before 941c847) must violate.
Conformance: seeded optimistic-concurrency sequences against the real server -- unconditional and conditional GET/HEAD capture tags;
PUT/POST/DELETE on the group, users, passwords, keys and the wildcard user carry a current or stale tag in every header form (exact,
list, weak, '*', malformed, empty); groups of 2-6 writers fire at the same instant with one tag -- and a crash (process exit at the named
hook point) at each of the five steps of rewriteDescriptionFile for group, user and password writes, after which the restarted server
must serve a complete definition.  The driver reports (size, mtime) of every definition file after every request: Trace_Http counts
versions from that alone and decides which tag is current."""
import shutil
import common as C
import httpapi

PID = "C18"


def run(tier, replay=None):
    rep = C.Report(PID)
    w = C.scratch("c18-")
    try:
        r = C.tlc(w, "Defs.tla", "MC_Defs.cfg", workers=C.NCPU, timeout=1500)
        rep.model("MC_Defs.cfg (3 editors, 2 values, <=4 versions, crash anywhere; exhaustive, editor symmetry)", r, exhaustive=True)
        if r.violated:
            raise C.Inconclusive("Defs model violates %s\n%s" % (r.violated, r.out[-2000:]))
        C.must_complete(r, "MC_Defs")
        r2 = C.tlc(w, "Defs.tla", "MC_Defs_F21.cfg", workers=4, timeout=600)
        if not r2.violated:
            raise C.Inconclusive("the faithful pre-fix configuration MC_Defs_F21 no longer violates X1: the model lost its teeth")
        rep.cov["faithful_prefix_model_violates"] = r2.violated
        httpapi.run_table(rep, w, tier, PID, replay)
        rep.assumptions += ["successive versions of a definition differ in size or modification time (the property's own assumption); the driver observes (size, mtime in ns) itself",
                            "process crashes only (exit at a hook point between file-system steps); power-loss durability is not observable and not claimed",
                            "racing writers are real concurrent HTTP requests, scheduled by the Go runtime and the kernel, not by a controlled scheduler: the model covers every interleaving, the traces a sample"]
        return rep.finish()
    finally:
        shutil.rmtree(w, ignore_errors=True)
