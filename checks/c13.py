"""C13 -- group and client lifecycle is free of data races, deadlocks and lost wakeups.

Queue part: Queue.tla (unbounded.Channel, one action per instruction between synchronisation points) is checked
exhaustively (Q1 exactly-once/in-order, Q2 no lost wake-up, liveness under fairness); Sched_Queue enumerates EVERY
complete interleaving and each one is forced on the real Channel through the hook in Put (gates), the result being
validated by Trace_Queue.
Lifecycle part: Locks.tla (lock acquisition / guarded access sequences transcribed from group.go, whipclient.go) is
checked for deadlock and lockset discipline over every pair and triple of operations; the faithful switches re-find
F4, F5, F8, F18.  On the real code: the deadlock schedules TLC found are forced with gates at the hooks (watchdog +
goroutine dump), and racing rounds with randomised yields run under the race detector."""
import json, os, shutil
import common as C
import grp

PID = "C13"


def run(tier, replay=None):
    rep = C.Report(PID)
    w = C.scratch("c13-")
    try:
        thorough = tier == "thorough"
        # ---- queue model
        for cfg, desc in (("MC_Queue.cfg", "2 producers x 2 items, unsolicited Get allowed; Q1,Q2 + liveness; exhaustive"),
                          ("MC_Queue_3x2.cfg", "3 producers x 2 items; exhaustive")):
            r = C.tlc(w, "Queue.tla", cfg, workers=C.NCPU, timeout=900, deadlock=False)
            rep.model("%s (%s)" % (cfg, desc), r, exhaustive=True)
            if r.violated:
                raise C.Inconclusive("Queue model violates %s" % r.violated)
            C.must_complete(r, cfg)
        r = C.tlc(w, "Queue.tla", "MC_Queue_lossy.cfg", workers=2, timeout=300, deadlock=False)
        rep.model("MC_Queue_lossy.cfg (a Put that forgets the signal; must violate Q2)", r)
        if not r.violated:
            raise C.Inconclusive("the lossy queue variant is not rejected: Q2 has no teeth")
        # ---- every schedule, forced on the real channel
        cfgname = "Sched_Queue.cfg"
        if thorough:
            d = C.stage_spec(w)
            t = open(os.path.join(d, cfgname)).read().replace("Unsolicited = FALSE", "Unsolicited = TRUE")
            open(os.path.join(d, "Sched_Queue_unsol.cfg"), "w").write(t)
            cfgname = "Sched_Queue_unsol.cfg"
        r = C.tlc(w, "Sched_Queue.tla", cfgname, workers=1, timeout=1500, heap="8g", deadlock=False)
        rep.model("%s (tree of all interleavings)" % cfgname, r, exhaustive=True)
        scheds = r.json_prints("BEH")
        if replay:
            rp = json.load(open(replay))["replay"]
            if rp.get("part") == "queue":
                scheds = rp["schedules"]
        if not scheds:
            raise C.Inconclusive("no schedules enumerated\n" + r.out[-2000:])
        script = os.path.join(w, "sched.json")
        json.dump(scheds, open(script, "w"))
        qbin = C.go_build(w, "./cmd/queuedrive", "queuedrive")
        trace = os.path.join(w, "trace_queue.ndjson")
        env = dict(C.GOENV)
        env.update({"VERIF_IN": script, "VERIF_OUT": trace, "VERIF_NPROD": "2"})
        rc, out, _ = C.run([qbin], cwd=w, env=env, timeout=900)
        if rc != 0:
            raise C.Inconclusive("queuedrive failed: " + out[-2000:])
        events = C.read_ndjson(trace)
        v = C.tlc_trace(w, "Trace_Queue.tla", "Trace_Queue.cfg", trace, "trace_queue.ndjson", timeout=1800)
        rep.traces(v.nbeh)
        rep.cov["queue_schedules_forced"] = v.nbeh
        rep.cov["queue_schedules_exhaustive"] = True
        rep.sample({"schedule": scheds[0]["sched"], "real_events": [e for e in events[:12]]})
        behs_ev = C.split_behaviours(events)
        for (line, nb, clause) in v.bads:
            sc = scheds[nb - 1] if 0 < nb <= len(scheds) else None
            rep.violation("%s at schedule %d, trace line %d: %s" % (clause, nb, line, json.dumps(events[line - 1])[:200]),
                          {"part": "queue", "schedules": [sc] if sc else []})
        nq = len(events)
        # ---- free-running stress of the real channel in the client-loop pattern
        trace2 = os.path.join(w, "trace_queue_stress.ndjson")
        env2 = dict(C.GOENV)
        env2.update({"VERIF_MODE": "stress", "VERIF_OUT": trace2, "VERIF_N": "3000" if thorough else "400"})
        rc, out, _ = C.run([qbin], cwd=w, env=env2, timeout=900)
        if rc != 0:
            raise C.Inconclusive("queuedrive stress failed: " + out[-2000:])
        ev2 = C.read_ndjson(trace2)
        v2 = C.tlc_trace(w, "Trace_Queue.tla", "Trace_Queue.cfg", trace2, "trace_queue.ndjson", timeout=900)
        rep.cov["queue_stress_rounds"] = v2.nbeh
        nq += len(ev2)
        for (line, nb, clause) in v2.bads:
            rep.violation("%s in free-running stress round %d: %s" % (clause, nb, json.dumps(ev2[line - 1])), {"part": "queue-stress"})
        # ---- lock discipline model
        r = C.tlc(w, "Locks.tla", "MC_Locks.cfg", workers=C.NCPU, timeout=900)
        rep.model("MC_Locks.cfg (every pair and triple of 12 lifecycle operations; deadlock + lockset; exhaustive)", r, exhaustive=True)
        if r.violated or r.deadlock:
            raise C.Inconclusive("Locks model of the repaired code is not clean: %s\n%s" % (r.violated or "deadlock", r.out[-2000:]))
        C.must_complete(r, "MC_Locks")
        for f in ("F4", "F5", "F8", "F18", "synckick", "livehistory"):
            r = C.tlc(w, "Locks.tla", "MC_Locks_%s.cfg" % f, workers=2, timeout=300)
            rep.model("MC_Locks_%s.cfg (%s; must fail)" % (f, "faithful pre-fix switch" if f.startswith("F") else "design switch: what the code deliberately does not do"), r)
            if not (r.violated or r.deadlock):
                raise C.Inconclusive("Locks model no longer reproduces " + f)
        # ---- real code: forced deadlock schedules + racing rounds under the race detector
        gbin = grp.build(w)
        nw = 0
        for wit in ("lockorder", "shutdown", "autokick", "history"):
            rc, out, trace, races = grp.run_mode(w, gbin, "witness", {"VERIF_WITNESS": wit}, timeout=120)
            events, v = grp.validate(w, trace)
            nw += len(events)
            for e in events:
                if e.get("ev") == "witness":
                    rep.sample({"forced_schedule": e})
            for (line, nb, clause) in v.bads:
                if clause.startswith("C13_"):
                    rep.violation("%s: forced schedule '%s' never completed; goroutine dump: Close blocked in Mutex.Lock=%s, AddClient blocked=%s"
                                  % (clause, events[line - 1].get("name"), events[line - 1].get("close_blocked"), events[line - 1].get("add_blocked")),
                                  {"part": "witness", "witness": wit})
            wreps, winscope = grp.race_reports(races)
            for r0 in winscope[:2]:
                rep.violation("C13_D2 data race reported by the race detector in scenario '%s':\n%s" % (wit, r0[:1800]), {"part": "witness-race", "witness": wit})
        rc, out, trace, races = grp.run_mode(w, gbin, "conc", {"VERIF_N": "2500" if thorough else "250", "VERIF_STORM": "1"}, timeout=1500)
        if rc != 0:
            raise C.Inconclusive("groupdrive conc failed (exit %d): %s" % (rc, out[-2000:]))
        events, vc = grp.validate(w, trace)
        for (line, nb, clause) in vc.bads:
            if clause.startswith("C13_"):
                e = events[line - 1]
                rep.violation("%s: '%s' never completed; goroutine dump: %s goroutines of the server code blocked acquiring a mutex"
                              % (clause, e.get("name"), e.get("mutex_blocked")), {"part": "conc", "seed": C.seed()})
        reps, inscope = grp.race_reports(races)
        rep.cov["race_rounds"] = sum(1 for e in events if e.get("ev") == "New")
        rep.cov["race_reports_total"] = len(reps)
        rep.cov["race_reports_in_scope"] = len(inscope)
        for r0 in inscope[:3]:
            rep.violation("C13_D2 data race reported by the race detector in lifecycle code:\n" + r0[:1800], {"part": "race", "seed": C.seed()})
        if len(reps) > len(inscope):
            rep.notes.append("%d race reports outside the property's scope (not a violation)" % (len(reps) - len(inscope)))
        rep.cases(nq + nw + len(events), len({json.dumps(s["sched"]) for s in scheds}) + 2)
        rep.cov["rule"] = ("queue: one case = one complete interleaving of producers and consumer forced on the real unbounded.Channel (all of them); "
                           "lifecycle: forced deadlock schedules + racing rounds (join/leave/lock/statistics/description readers) under the race detector")
        rep.assumptions += ["races are decided by Go's race detector on the executed rounds; the model proves lock discipline of its transcription only",
                            "a deadlock verdict needs the watchdog to expire AND the goroutine dump to show the operations in sync.(*Mutex).Lock"]
        return rep.finish()
    finally:
        shutil.rmtree(w, ignore_errors=True)
