"""C04 -- layers above the selection are withheld; switches occur only at legal points.

Model: Forward.tla layer machine (Write's bookkeeping, adjustLayer with its rate comparison abstracted to
up/down/none, replaceTracks' limitSid) against FwdMonitor's L1-L6, exhaustive over all packet flag sequences
(VP8-like: 3 temporal layers; VP9-like: 2 temporal x 3 spatial layers) interleaved with feedback and limitSid.
Schedules: LayerRace.tla splits adjustLayer and the limitSid update at the point between their load and their store
of the shared layer word; exhaustive with compare-and-swap stores, and the plain-store configuration re-finds F16.
Conformance: real Write / adjustLayer / handleReport+updateRate / replaceTracks (fwd.py); the racing interleavings
forced through hooks (Adj / Lim events marked racing, judged by L3); L7 on the real ceiling."""
import shutil
import common as C
import fwd

PID = "C04"


def run(tier, replay=None):
    rep = C.Report(PID)
    w = C.scratch("c04-")
    try:
        fwd.model_runs(rep, w, tier,
                       [("MC_Forward_vp8.cfg", "VP8-like: tid<=2, 1-2 packets/frame, every flag pattern x adjust up/down x limitSid, exhaustive", None),
                        ("MC_Forward_vp9.cfg", "VP9-like: tid<=1, sid<=2, every flag pattern x adjust x limitSid, exhaustive", None)])
        # schedules: the layer word is shared by three goroutines (LayerRace.tla)
        r = C.tlc(w, "LayerRace.tla", "MC_LayerRace.cfg", workers=4, timeout=900, deadlock=False)
        rep.model("MC_LayerRace.cfg (Write x adjustLayer x limitSid update split at load/store, compare-and-swap stores, 5 packets; exhaustive)", r, exhaustive=True)
        if r.violated:
            raise C.Inconclusive("LayerRace model violates %s\n%s" % (r.violated, r.out[-1500:]))
        C.must_complete(r, "MC_LayerRace")
        r2 = C.tlc(w, "LayerRace.tla", "MC_LayerRace_F16.cfg", workers=2, timeout=600, deadlock=False)
        rep.model("MC_LayerRace_F16.cfg (plain load ... store, the pre-fix code; must violate)", r2)
        if not r2.violated:
            raise C.Inconclusive("model no longer reproduces F16 with the fix switched off")
        fwd.run_forward(rep, w, tier, PID, replay=replay)
        rep.assumptions += ["the direction adjustLayer moves the wanted layers depends on a clock-driven rate estimate and is not judged",
                            "the very first packet of a stream has no predecessor and is not counted as 'arriving in order' (L5)",
                            "schedules: the interleavings TLC finds in LayerRace.tla (a Write between the load and the store of adjustLayer / of replaceTracks' limitSid update) are forced on the real code through the hooks; Write's own load..store window and Write racing Write (gotNACK) are not forced"]
        return rep.finish()
    finally:
        shutil.rmtree(w, ignore_errors=True)
