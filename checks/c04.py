"""C04 -- layers above the selection are withheld; switches occur only at legal points.

Model: Forward.tla layer machine (Write's bookkeeping, adjustLayer with its rate comparison abstracted to
up/down/none, replaceTracks' limitSid) against FwdMonitor's L1-L6, exhaustive over all packet flag sequences
(VP8-like: 3 temporal layers; VP9-like: 2 temporal x 3 spatial layers) interleaved with feedback and limitSid.
Conformance: real Write / adjustLayer / handleReport+updateRate / replaceTracks (fwd.py); L7 on the real ceiling."""
import shutil
import common as C
import fwd

PID = "C04"


def run(tier, replay=None):
    rep = C.Report(PID)
    w = C.scratch("c04-")
    try:
        fwd.model_runs(rep, w, tier,
                       [("MC_Forward_vp8.cfg", "VP8-like: tid<=2, 1-2 packets/frame, every flag pattern x adjust up/down x limitSid, exhaustive", None),
                        ("MC_Forward_vp9.cfg", "VP9-like: tid<=1, sid<=2, every flag pattern x adjust x limitSid, exhaustive", None)])
        fwd.run_forward(rep, w, tier, PID, replay=replay)
        rep.assumptions += ["the direction adjustLayer moves the wanted layers depends on a clock-driven rate estimate and is not judged",
                            "the very first packet of a stream has no predecessor and is not counted as 'arriving in order' (L5)",
                            "the schedule part (Write racing adjustLayer on the packed layer word, finding F16) is not exercised by this check"]
        return rep.finish()
    finally:
        shutil.rmtree(w, ignore_errors=True)
