"""Shared Write-level conformance used by C01-C04: executions of the real rtpDownTrack.Write / gotNACK /
adjustLayer / handleReport / replaceTracks (in-package overlay harness in rtpconn) validated against
Trace_Forward.tla.  Each property reports only its own clauses."""
import json, os
import common as C

PREFIX = {"C01": ("P1_", "P2_"), "C02": ("C02_",), "C03": ("C03_",), "C04": ("C04_",)}

KNOWN_TEXT = {
    "F17": "F17 gotNACK re-runs Write on the cached packet, so the marker of a retransmitted last-of-frame packet of a "
           "lower spatial layer is decided with the receiver's CURRENT spatial layer and differs from the first transmission",
}


def _cfg_with(w, base, name, repl):
    d = C.stage_spec(w)
    t = open(os.path.join(d, base)).read()
    for a, b in repl:
        t = t.replace(a, b)
    open(os.path.join(d, name), "w").write(t)
    return name


def model_runs(rep, w, tier, cfgs, must_violate=()):
    """cfgs: list of (cfg file, description, quick MaxHi or None)."""
    for cfg, desc, quick_hi in cfgs:
        name = cfg
        if quick_hi is not None and tier != "thorough":
            name = _cfg_with(w, cfg, "q_" + cfg, [("MaxHi = 6", "MaxHi = %d" % quick_hi)])
        r = C.tlc(w, "Forward.tla", name, workers=C.NCPU, timeout=1500, heap="16g")
        rep.model("%s (%s)" % (name, desc), r, exhaustive=True)
        if r.violated or r.deadlock:
            raise C.Inconclusive("Forward model %s violates %s: the model of the current design is wrong or the design is broken\n%s"
                                 % (name, r.violated, r.out[-3000:]))
        C.must_complete(r, name)
    for cfg, what in must_violate:
        r = C.tlc(w, "Forward.tla", cfg, workers=4, timeout=600)
        rep.model("%s (faithful switch for %s; must violate)" % (cfg, what), r)
        if not r.violated:
            raise C.Inconclusive("model no longer reproduces %s with the switch off (%s)" % (what, cfg))


def run_forward(rep, w, tier, pid, behaviours=None, replay=None):
    thorough = tier == "thorough"
    sd = C.seed()
    binp = C.go_test_binary(w, "rtpconn", "rtpconn.test")
    script = os.path.join(w, "fwd_script.json")
    seqb = behaviours or []
    n, ln = (200 if thorough else 40), (300 if thorough else 120)
    if replay:
        rp = json.load(open(replay))["replay"]
        if rp.get("level") == "forward":
            seqb, sd, n, ln = rp.get("seq", []), rp.get("seed", sd), rp.get("n", n), rp.get("len", ln)
        else:
            return
    flags = []
    if not replay:
        for codec in ("vp8", "vp9"):
            _, raw = C.tlc_simulate(w, "Sim_Forward.tla", "Sim_Forward_%s.cfg" % codec, num=(150 if thorough else 40), depth=51, sd=sd, timeout=900)
            seen = set()
            for b in raw:
                k = json.dumps(b["ops"][:-1])
                if k not in seen:
                    seen.add(k)
                    flags.append({"codec": codec, "ops": b["ops"]})
    else:
        flags = rp.get("flags", [])
    rep.cov["forward_behaviours_from_tlc"] = len(flags) + len(seqb)
    json.dump({"seq": seqb, "flags": flags}, open(script, "w"))
    trace = os.path.join(w, "trace_forward.ndjson")
    env = dict(C.GOENV)
    env.update({"VERIF_IN": script, "VERIF_OUT": trace, "VERIF_SEED": str(sd), "VERIF_N": str(n), "VERIF_LEN": str(ln)})
    rc, out, _ = C.run([binp, "-test.run", "^TestVerifForward$", "-test.count=1"], cwd=w, env=env, timeout=1500)
    if rc != 0:
        # a panic in the forwarding path on well-formed packets: the harness died, nothing can be judged
        raise C.Inconclusive("forward driver failed (exit %d):\n%s" % (rc, out[-3000:]))
    events = C.read_ndjson(trace)
    behs = C.split_behaviours(events)
    v = C.tlc_trace(w, "Trace_Forward.tla", "Trace_Forward.cfg", trace, "trace_forward.ndjson", timeout=3000)
    rep.traces(v.nbeh)
    rep.cov["forward_trace_events"] = v.lines
    kinds = {}
    for e in events:
        kinds[e["ev"]] = kinds.get(e["ev"], 0) + 1
    rep.cov["forward_event_kinds"] = kinds
    distinct = {json.dumps([e.get("off"), e.get("res"), e.get("f"), e.get("lb"), e.get("chg")], sort_keys=True)
                for e in events if e.get("ev") == "W"}
    rep.cases(len(events), len(distinct))
    rep.cov["rule"] = (rep.cov.get("rule", "") + " | forward tier: one evaluation = one call of the real rtpDownTrack.Write / gotNACK / adjustLayer / "
                       "handleReport / replaceTracks; distinct = distinct (offset, outcome, ground-truth flags, layer state before, changed-field set) tuples").strip(" |")
    if behs:
        b = behs[-1]["events"]
        rep.sample({"forward_behaviour": b[0], "events": b[1:5]})
        ns = [e for e in events if e.get("ev") == "N" and e.get("wr")]
        if ns:
            rep.sample({"nack_event": ns[0]})
    if v.drift:
        rep.drift("forward step differs from Layer I at trace line %d: %s" % (v.drift, json.dumps(events[v.drift - 1])[:400]))
    for body in v.raw.prints("TRACE-KNOWN"):
        parts = [x.strip().strip('"') for x in body.split(",")]
        fid = parts[2]
        if pid == "C03":
            if any(k["id"] == fid for k in C.known_findings(pid)):
                rep.known(fid, KNOWN_TEXT.get(fid, fid))
            else:
                rep.violation("known-finding signature %s matched but it is not listed in known_findings.json" % fid,
                              {"level": "forward", "seed": sd, "n": n, "len": ln, "seq": seqb, "flags": flags})
    mine = PREFIX[pid]
    for (line, nb, clause) in v.bads:
        ev = events[line - 1] if 0 < line <= len(events) else {}
        if clause.startswith(mine):
            rep.violation("%s at forward trace line %d (behaviour %d): %s" % (clause, line, nb, json.dumps(ev)[:500]),
                          {"level": "forward", "seed": sd, "n": n, "len": ln, "seq": seqb, "flags": flags, "line": line, "clause": clause})
        else:
            rep.notes.append("clause %s of another property failed at line %d (reported by that property's check)" % (clause, line))
