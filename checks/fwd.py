"""Shared Write-level (rtpDownTrack.Write / gotNACK / adjustLayer) conformance used by C01-C04."""
import common as C


def run_forward(rep, w, tier, pid, behaviours=None, replay=None):
    rep.notes.append("forward-path composition tier not built yet")
