"""C02 -- forwarding rewrites only seqno, marker and VP8 picture id; ids stay consecutive.

Model: Forward.tla (Layer I = Write + packetmap + RewritePacket's arithmetic; Layer P = FwdMonitor's
C02Fields / C02Pid), exhaustive for VP8-like streams under all whole-frame drop patterns; the faithful
switch Fixed_F1=FALSE must re-find F1.  RewritePacket's descriptor walk is covered shape by shape
(Rewrite.tla table -> real codecs.RewritePacket, see rewrite.py).  Conformance: the real Write path
(fwd.py), output parsed with pion's depacketisers, byte diff computed as an observation function."""
import shutil
import common as C
import fwd, rewrite

PID = "C02"


def run(tier, replay=None):
    rep = C.Report(PID)
    w = C.scratch("c02-")
    try:
        fwd.model_runs(rep, w, tier,
                       [("MC_Forward_pid.cfg", "VP8-like, MaxT=1, 4 picture ids, 1-2 packets/frame, all drop patterns + feedback, exhaustive", None)],
                       must_violate=[("MC_Forward_F1.cfg", "F1")])
        rewrite.run_shapes(rep, w, tier, PID, replay)
        fwd.run_forward(rep, w, tier, PID, replay=replay)
        rep.assumptions += ["picture-id clause judged on in-order histories with whole-frame drops (the property's quantifier)",
                            "payload byte identity is computed by the Go harness (observation function) and logged as the set of changed fields"]
        return rep.finish()
    finally:
        shutil.rmtree(w, ignore_errors=True)
