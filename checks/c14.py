"""C14 -- every member's view of the user list converges to the true membership.

Model: Signalling.tla folded through SigMonitor (user events only to members, no duplicate add / unknown delete, no cross-group
leak, views = membership at quiescence); exhaustive for 3 clients x 2 groups up to 3 stimuli.
Conformance: TLC-simulated stimuli sequences + regression behaviours against the real server (Trace_Signalling); at the library
level the real group package with fake clients that rebuild their views: free-running racing rounds and forced schedules (the
delivering goroutine stopped at one delivery while another lifecycle operation runs), judged by Trace_Group."""
import shutil
import common as C
import sig

PID = "C14"


from c11 import model


def _unused(rep, w, tier):
    r = C.tlc(w, "Signalling.tla", "MC_Signalling.cfg", workers=C.NCPU, timeout=1500, heap="20g", deadlock=False)
    rep.model("MC_Signalling.cfg (3 clients, 2 groups, every stimulus in every membership state, <=3 stimuli; exhaustive)", r, exhaustive=True)
    if r.violated:
        raise C.Inconclusive("Signalling model violates %s\n%s" % (r.violated, r.out[-2000:]))
    C.must_complete(r, "MC_Signalling")


def run(tier, replay=None):
    rep = C.Report(PID)
    w = C.scratch("c14-")
    try:
        model(rep, w, tier)
        sig.run(rep, w, tier, PID, replay)
        # simultaneous joins / departures at the library level (real group package, fake clients that rebuild their views)
        import grp, json as _json
        gbin = grp.build(w)
        rc, out, trace, races = grp.run_mode(w, gbin, "conc", {"VERIF_N": "1200" if tier == "thorough" else "150"}, timeout=1500)
        if rc != 0:
            raise C.Inconclusive("groupdrive conc failed (exit %d): %s" % (rc, out[-1500:]))
        events, vc = grp.validate(w, trace)
        rep.cov["concurrent_rounds_with_view_comparison"] = sum(1 for e in events if e.get("ev") == "views")
        rep.traces(vc.nbeh)
        for (line, nb, clause) in vc.bads:
            if clause.startswith("C14_"):
                rep.violation("%s in a racing round of the real group package: %s" % (clause, _json.dumps(events[line - 1])[:400]), {"mode": "conc", "seed": C.seed()})
        rep.assumptions += ["sequential driver with a quiescence barrier after every stimulus: effects are attributed to the stimulus that precedes them",
                            "rights are what the server itself told each client in joined messages (their correctness is C08's business)",
                            "WHIP ingest (A5) is judged by C17's HTTP table, not here"]
        return rep.finish()
    finally:
        shutil.rmtree(w, ignore_errors=True)
