"""C17 -- the administrative API acts only for administrators and never reveals secrets.

Model: AdminAPI.tla -- the router of webserver/api.go as a decision table over (method, endpoint shape, credential kind), enumerated
completely by TLC together with the scope invariants (no ordinary credential is ever served, a token or group administrator only inside
its scope, the self-service password exception only with the user's current password on that user's password endpoint).
Conformance: every row is sent as a real HTTP request to the real server (child process, real group files full of sentinel secrets, real
token file); Trace_Http checks the status class of the row, that a refused / preflight request changed nothing on disk (digest of the
groups directory and the token file), that no response (body or header) contains any sentinel password, hash, salt or key, and -- over
seeded sequences of valid updates -- that every part of every stored definition the request does not address is bit-for-bit unchanged."""
import shutil
import common as C
import httpapi

PID = "C17"


def run(tier, replay=None):
    rep = C.Report(PID)
    w = C.scratch("c17-")
    try:
        httpapi.run_table(rep, w, tier, PID, replay)
        rep.assumptions += ["credential kinds are those of the property's quantifier plus the authorised ones; signed (JWT) administrator tokens are covered at the library level by C09",
                            "sentinel detection is textual: a secret re-encoded by the server (e.g. re-hashed) would not be recognised; the parts digest catches its alteration",
                            "group content is the fixture's (plain, pbkdf2 and wildcard passwords, one HS256 key, sub-administrators, a second group), not arbitrary content"]
        return rep.finish()
    finally:
        shutil.rmtree(w, ignore_errors=True)
