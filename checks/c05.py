"""C05 -- the packet cache returns a stored packet byte-exactly or nothing.

Model: Cache.tla ring part, EVERY store/resize/resizeCond history over a 4-value number space (wrap included),
capacities 1..3, judged after every step over every lookup the API offers (closes without a length bound).
Conformance: TLC-simulated behaviours at the real constants replayed on the real cache with every recent packet
looked up after every step, plus seeded histories with capacities up to 65535 and sizes 1..1504; Trace_Cache."""
import shutil
import common as C
import cache

PID = "C05"


def run(tier, replay=None):
    rep = C.Report(PID)
    w = C.scratch("c05-")
    try:
        cache.model(rep, w, "MC_Cache_ring.cfg", "ring+resize, all histories, caps 1..3, 4 seqnos, 2 ids; exhaustive", 900)
        cache.drive_and_validate(rep, w, tier, PID, replay)
        race(rep, w, 400000 if tier == "thorough" else 60000)
        rep.assumptions += ["capacity 0 / > 65535 and packets longer than BufSize are outside the stated domain",
                            "bytes are mapped back to content ids by the Go harness (observation function)"]
        return rep.finish()
    finally:
        shutil.rmtree(w, ignore_errors=True)


def race(rep, w, rounds):
    """one writer, many concurrent readers on the real cache under the race detector"""
    binp = C.go_build(w, "./cmd/cacherace", "cacherace", race=True)
    rc, out, _ = C.run([binp], cwd=w, env=dict(C.GOENV, VERIF_SEED=str(C.seed()), VERIF_ROUNDS=str(rounds)), timeout=900)
    rep.cov["race_run"] = out[-300:]
    if "DATA RACE" in out or "CORRUPT" in out:
        rep.violation("concurrent readers: " + out[-1500:], {"cmd": "cacherace", "seed": C.seed()})
    elif rc != 0:
        raise C.Inconclusive("cacherace failed: " + out[-1500:])
