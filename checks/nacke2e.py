"""C06 end to end: the real readLoop / nackWriter behind a real peer connection (see Trace_Nack.tla)."""
import json, os, random
import common as C
import sig


def scenario(r, i, with_sub):
    """a scripted stream: steady packets with never-sent gaps, held-and-late packets, duplicates; with a subscriber also explicit NACKs
    for held packets that then arrive before nackWriter wakes up, and for packets that never arrive"""
    seq = r.choice([1000, 65400, 65500, 30000])
    script, missing, n = [], [], 0
    gap = r.choice([3, 4, 6])

    def steady(k):
        nonlocal seq, n
        for _ in range(k):
            script.append(["p", seq & 0xFFFF, gap])
            seq += 1
            n += 1
    steady(40)
    for _ in range(r.choice([3, 5, 7])):
        kind = r.choice(["gap", "gap", "late", "dup", "subnack-late", "subnack-missing"] if with_sub else ["gap", "gap", "late", "dup"])
        if kind == "gap":
            k = r.choice([1, 1, 2, 3])
            for j in range(k):
                missing.append(seq & 0xFFFF)
                seq += 1
        elif kind == "late":
            held = seq & 0xFFFF
            seq += 1
            steady(r.choice([3, 6, 10]))
            script.append(["p", held, gap])
        elif kind == "dup":
            script.append(["p", (seq - 1) & 0xFFFF, 1])
            script.append(["p", (seq - r.choice([2, 5, 9])) & 0xFFFF, 1])
        elif kind == "subnack-late":
            k = r.choice([2, 2, 3])
            held = [(seq + j) & 0xFFFF for j in range(k)]
            seq += k
            steady(r.choice([5, 8]))            # the receive loop asks for them once: they are missing
            script.append(["n", "A", held + held, 30])   # the subscriber asks as well (twice over)
            for h in held:
                script.append(["p", h, r.choice([2, 5, 8])])   # and they arrive before nackWriter's 50 ms are over
        elif kind == "subnack-missing":
            k = r.choice([1, 2])
            gone = [(seq + j) & 0xFFFF for j in range(k)]
            missing.extend(gone)
            seq += k
            steady(r.choice([5, 8]))
            script.append(["n", "A", gone, 30])
        steady(r.choice([35, 45]))
    steady(35)
    J = lambda c: ["send", c, {"type": "join", "kind": "join", "group": "g", "username": "user-" + c, "password": "wp"}]
    S = ["settle"]
    st = [["ws", "P"], J("P"), S]
    if with_sub:
        st += [["ws", "A"], J("A"), S, ["send", "A", {"type": "request", "request": {"": ["audio", "video"]}}], S]
    st += [["rtpscript", "P", "s1", "camera", script], ["rtpwait", "P", "s1", 30000], ["sleep", 150], ["hooklog"], S]
    return {"name": "nack-e2e-%d-%s" % (i, "sub" if with_sub else "alone"), "fixture": sig.fixture(0, 0), "steps": st, "x": {"missing": missing}}


def fast_scenario():
    """about 1900 packets/s for 1.6 s (the rate estimate behind the receive loop's NACK delay saturates), then losses"""
    seq, script, missing = 2000, [], []
    for i in range(3000):
        script.append(["p", seq & 0xFFFF, i % 2])
        seq += 1
    for k in range(3):
        missing.append(seq & 0xFFFF)
        seq += 1
        for i in range(150):
            script.append(["p", seq & 0xFFFF, i % 2])
            seq += 1
    J = lambda c: ["send", c, {"type": "join", "kind": "join", "group": "g", "username": "user-" + c, "password": "wp"}]
    S = ["settle"]
    st = [["ws", "P"], J("P"), S, ["rtpscript", "P", "s1", "camera", script], ["rtpwait", "P", "s1", 30000], ["sleep", 150], ["hooklog"], S]
    return {"name": "nack-e2e-fast-alone", "fixture": sig.fixture(0, 0), "steps": st, "x": {"missing": missing}}


def run(rep, w, tier, pid, replay=None):
    thorough = tier == "thorough"
    if replay:
        rp = json.load(open(replay))["replay"]
        if "nack_behaviours" not in rp:
            return
        behs = rp["nack_behaviours"]
    else:
        r = random.Random(C.seed() * 7919 + 3)
        behs = [scenario(r, i, i % 2 == 1) for i in range(24 if thorough else 6)] + [fast_scenario()]
    script = os.path.join(w, "nack_script.json")
    json.dump(behs, open(script, "w"))
    binp = C.go_build(w, "./cmd/srvdrive", "srvdrive")
    trace = os.path.join(w, "trace_nack_raw.ndjson")
    env = dict(C.GOENV)
    env.update({"VERIF_IN": script, "VERIF_OUT": trace})
    rc, out, _ = C.run([binp], cwd=w, env=env, timeout=3000)
    if rc != 0:
        raise C.Inconclusive("srvdrive (nack e2e) failed (exit %d): %s" % (rc, out[-1500:]))
    events = C.read_ndjson(trace)
    bi = -1
    keep = []
    for e in events:
        if e["ev"] == "New":
            bi += 1
        if e["ev"] == "rtpdone":
            e["x"] = behs[bi]["x"] if 0 <= bi < len(behs) else {"missing": []}
            e["nsent"] = len(e.get("sent") or [])
            e.pop("sent", None)
        if e["ev"] in ("New", "srvnack", "rtpdone", "dead", "startfail", "subnack", "rtptimeout"):
            keep.append(e)
    # the hook log is collected after the script has ended: judge each stream once its NACKs are on the table
    ordered, pending = [], []
    for e in keep:
        if e["ev"] == "New":
            ordered += pending
            pending = []
        if e["ev"] == "rtpdone":
            pending.append(e)
        else:
            ordered.append(e)
    keep = ordered + pending
    done = [e for e in keep if e["ev"] == "rtpdone"]
    if not done or any(e.get("connected") != 1 for e in done) or any(e["ev"] == "rtptimeout" for e in keep):
        raise C.Inconclusive("a scripted publisher did not connect or did not finish: %s" % json.dumps([e for e in keep if e["ev"] in ("rtpdone", "rtptimeout")])[:400])
    t2 = os.path.join(w, "trace_nack.ndjson")
    with open(t2, "w") as f:
        for e in keep:
            f.write(json.dumps(e) + "\n")
    v = C.tlc_trace(w, "Trace_Nack.tla", "Trace_Nack.cfg", t2, "trace_nack.ndjson", timeout=900)
    nk = [e for e in keep if e["ev"] == "srvnack"]
    rep.traces(v.nbeh)
    rep.cov["e2e_streams"] = len(done)
    rep.cov["e2e_packets_sent"] = sum(e["nsent"] for e in done)
    rep.cov["e2e_upstream_nacks"] = {"by_receive_loop": sum(1 for e in nk if e["point"] == "rtpconn.sendNACK"), "by_nack_writer": sum(1 for e in nk if e["point"] == "rtpconn.sendNACKs"),
                                      "subscriber_nacks_injected": sum(1 for e in keep if e["ev"] == "subnack"), "packets_never_sent": sum(len(b["x"]["missing"]) for b in behs)}
    rep.cases(len(keep), len(nk))
    if nk:
        rep.sample({"nack_at_the_hook": nk[len(nk) // 2]})
    for (line, nb, clause) in v.bads:
        b = behs[nb - 1] if 0 < nb <= len(behs) else None
        if clause.startswith("C06_"):
            rep.violation("%s (behaviour '%s'): %s" % (clause, b["name"] if b else "?", json.dumps(keep[line - 1])[:400]), {"nack_behaviours": [b] if b else []})
        else:
            rep.notes.append("clause %s of another property failed in the NACK end-to-end tier" % clause)
