"""Shared by C10 and C13: the real group package driven by groupdrive (tags verif, -race), Trace_Group."""
import json, os, re
import common as C


def build(w):
    return C.go_build(w, "./cmd/groupdrive", "groupdrive", race=True)


def run_mode(w, binp, mode, env_extra, timeout=900):
    trace = os.path.join(w, "trace_group_%s.ndjson" % (mode + env_extra.get("VERIF_WITNESS", "")))
    racelog = os.path.join(w, "race_%s" % mode)
    env = dict(C.GOENV)
    env.update({"VERIF_MODE": mode, "VERIF_OUT": trace, "VERIF_SEED": str(C.seed()),
                "GORACE": "halt_on_error=0 exitcode=0 log_path=%s" % racelog})
    env.update(env_extra)
    rc, out, _ = C.run([binp], cwd=w, env=env, timeout=timeout)
    races = ""
    for f in os.listdir(w):
        if f.startswith("race_%s" % mode):
            races += open(os.path.join(w, f)).read()
            os.remove(os.path.join(w, f))
    return rc, out, trace, races


def validate(w, trace):
    events = C.read_ndjson(trace)
    v = C.tlc_trace(w, "Trace_Group.tla", "Trace_Group.cfg", trace, "trace_group.ndjson", timeout=1800)
    return events, v


def race_reports(races):
    """split a race log into reports; in-scope = a stack frame in the group / unbounded / WHIP lifecycle code"""
    reps = [r for r in races.split("==================") if "DATA RACE" in r]
    inscope = [r for r in reps if re.search(r"galene/(group|unbounded)\.|rtpconn\.\(\*WhipClient\)|diskwriter\.\(\*Client\)", r)]
    return reps, inscope
