"""C09 -- a token authorises only its own group scope, validity window and permissions.

Model: Auth.tla's stateful table (token group x join group over path components {a, ab, b} incl. the root and the global-administrator
question, include-subgroups, expiry / not-before at far and near instants, token username x client username) and signed-token table
(key sets with HS256/HS384/ES256 keys with and without kid, signer in / not in the group, an HMAC keyed with a public key, alg none,
kid header, expiry, audience path and host with and without canonicalHost), enumerated completely.
Conformance: stateful tokens written through token.Update into a real token file, JWTs freshly signed with golang-jwt, every row decided
by the real token.Parse(...).Check / Description.GetPermission."""
import shutil
import common as C
import auth

PID = "C09"


def run(tier, replay=None):
    rep = C.Report(PID)
    w = C.scratch("c09-")
    try:
        auth.run_tables(rep, w, tier, PID, ["stateful", "jwt"], replay)
        rep.assumptions += ["cryptographic soundness of golang-jwt is trusted; the table covers which key/algorithm is selected and the decision",
                            "instants near the window edges are 3 s away from now; signed tokens are placed an hour away (5 s leeway is not judged)",
                            "RS256 keys are not in the table (key generation cost); HS256/HS384/ES256 are"]
        return rep.finish()
    finally:
        shutil.rmtree(w, ignore_errors=True)
