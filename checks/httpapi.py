"""HTTP surface (C12-R2, C17, C18, C19): placeholder until AdminAPI.tla is built."""


def run_table(rep, w, tier, pid, replay=None):
    rep.notes.append("HTTP table not built yet")
