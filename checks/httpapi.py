"""HTTP surface of the real server (C17, C18, C11-A5, C12-R2): AdminAPI.tla's routing table (method x endpoint x credential, enumerated
completely by TLC) sent as real requests; seeded update / optimistic-concurrency sequences with every If-Match / If-None-Match form;
a crash at every named point of the definition-file rewrite; WHIP sessions.  Trace_Http judges."""
import base64, json, os, random
import common as C

S1, S2, S3, S4, S5, S6 = "SENTroot7q", "SENTalice3x", "SENTbobpw9k", "SENTgadm4w", "SENToper5v", "SENTwild8m"
KSENT, HSENT, SALT = "U0VOVGtleW1hdGVyaWFsMTIzNDU2Nzg5MDEyMzQ1Ng", "53454e5468617368aabbccddeeff00112233445566778899aabbccddeeff0011", "53454e5473616c74"
SENTINELS = [S1, S2, S3, S4, S5, S6, KSENT, HSENT, SALT, "SENThadm2z", "SENTcarol", "SENTempty6u"]
PREFIX = {"C17": ("C17_", "C18_X1_acknowledged_update_silently_lost"), "C18": ("C18_",), "C12": ("C12_",), "C11": ("C11_",)}


def fixture():
    g = {"displayName": "group g", "users": {
        "alice": {"password": S2, "permissions": "present"},
        "bob": {"password": S3, "permissions": "present"},
        "carol": {"password": {"type": "pbkdf2", "hash": "sha-256", "key": HSENT, "salt": SALT, "iterations": 2}, "permissions": "message"},
        "oper": {"password": S5, "permissions": "op"},
        "gadmin": {"password": S4, "permissions": "admin"},
        "obs": {"password": "obspw", "permissions": "observe"},
        "": {"password": "SENTempty6u", "permissions": "present"}},
        "wildcard-user": {"password": S6, "permissions": "message"},
        "authKeys": [{"kty": "oct", "alg": "HS256", "k": KSENT, "kid": "k1"}]}
    h = {"users": {"hadmin": {"password": "SENThadm2z", "permissions": "admin"}, "bob": {"password": "hb", "permissions": "present"}}}
    toks = [{"token": "tokh", "group": "h", "username": "tokadm", "permissions": ["admin"], "expires": "2099-01-01T00:00:00Z"},
            {"token": "toking", "group": "g", "username": "tokadm", "permissions": ["admin"], "expires": "2099-01-01T00:00:00Z"},
            {"token": "tokroot", "group": "", "includeSubgroups": True, "username": "tokadm", "permissions": ["admin"], "expires": "2099-01-01T00:00:00Z"},
            {"token": "tokg1", "group": "g", "username": "tu", "permissions": ["present"], "expires": "2099-01-01T00:00:00Z"},
            {"token": "obstok", "group": "g", "username": "watcher", "permissions": [], "expires": "2099-01-01T00:00:00Z"},
            {"token": "msgtok", "group": "g", "username": "talker", "permissions": ["message"], "expires": "2099-01-01T00:00:00Z"},
            {"token": "oldtok", "group": "g", "username": "late", "permissions": ["present"], "expires": "2001-01-01T00:00:00Z"},
            {"token": "whiptok", "group": "g", "username": "whipper", "permissions": ["present"], "expires": "2099-01-01T00:00:00Z"}]
    o = {"wildcard-user": {"password": {"type": "wildcard"}, "permissions": "present"}}
    return {"files": {"groups/g.json": json.dumps(g), "groups/h.json": json.dumps(h), "groups/o.json": json.dumps(o),
                      "data/config.json": json.dumps({"writableGroups": True, "users": {"root": {"password": S1, "permissions": "admin"}}}),
                      "data/var/tokens.jsonl": "".join(json.dumps(t) + "\n" for t in toks)},
            "sentinels": SENTINELS}


PATH = {"stats": "/galene-api/v0/.stats", "grouplist": "/galene-api/v0/.groups/", "group": "/galene-api/v0/.groups/g",
        "users": "/galene-api/v0/.groups/g/.users/", "user": "/galene-api/v0/.groups/g/.users/alice", "wildcard": "/galene-api/v0/.groups/g/.wildcard-user",
        "emptyuser": "/galene-api/v0/.groups/g/.empty-user", "password": "/galene-api/v0/.groups/g/.users/alice/.password",
        "wildpassword": "/galene-api/v0/.groups/g/.wildcard-user/.password", "keys": "/galene-api/v0/.groups/g/.keys",
        "tokens": "/galene-api/v0/.groups/g/.tokens/", "token": "/galene-api/v0/.groups/g/.tokens/tokg1", "unknownkind": "/galene-api/v0/.groups/g/.bogus",
        "unknownsub": "/galene-api/v0/.groups/g/.users/alice/.bogus", "v1": "/galene-api/v1/.stats", "badversion": "/galene-api/.stats",
        "othergroup": "/galene-api/v0/.groups/h", "otherpassword": "/galene-api/v0/.groups/h/.users/bob/.password"}
ADDR = {"group": "g:desc", "user": "g:user:alice", "wildcard": "g:wild", "password": "g:pw:alice", "wildpassword": "g:wildpw", "keys": "g:keys",
        "othergroup": "h:desc", "otherpassword": "h:pw:bob"}
BODY = {"group": ('{"displayName":"changed"}', "application/json"), "user": ('{"permissions":"message"}', "application/json"),
        "wildcard": ('{"permissions":"observe"}', "application/json"), "emptyuser": ('{"permissions":"observe"}', "application/json"),
        "password": ('"newpw1"', "application/json"), "wildpassword": ('"newpw2"', "application/json"), "otherpassword": ('"newpw3"', "application/json"),
        "keys": ('{"keys":[]}', "application/jwk-set+json"), "tokens": ('{"permissions":["present"],"expires":"2099-01-01T00:00:00Z","username":"nn"}', "application/json"),
        "token": ('{"permissions":["present"],"expires":"2098-01-01T00:00:00Z","username":"tu"}', "application/json"),
        "othergroup": ('{"displayName":"changed"}', "application/json")}
CRED = {"none": ({}, "", ""), "wrongpw": ({}, "root", "nope"), "user": ({}, "bob", S3), "op": ({}, "oper", S5), "otheradmin": ({}, "hadmin", "SENThadm2z"),
        "gadmin": ({}, "gadmin", S4), "root": ({}, "root", S1), "tokout": ({"Authorization": "Bearer tokh"}, "", ""),
        "tokin": ({"Authorization": "Bearer toking"}, "", ""), "tokroot": ({"Authorization": "Bearer tokroot"}, "", ""), "selfpw": ({}, "whoever", S2),
        "emptypw": ({}, "whoever", "SENTempty6u"), "otherpw": ({}, "alice", S3)}
X0 = {"class": "serve", "addr": "any", "g": "", "editor": "", "form": "none", "hdr": "", "expected": 0, "granted": 0, "obj": "desc", "kind": "", "keys": []}
OBJ = {"group": "desc", "user": "alice", "password": "alice", "keys": "keys", "wildcard": "wild", "wildpassword": "wild"}


def request(name, m, e, c, extra_headers=None, body=None):
    h, u, p = CRED[c]
    h = dict(h)
    b, ct = BODY.get(e, ("", ""))
    if m in ("PUT", "POST"):
        if e == "password" and m == "POST":
            b, ct = "posted-pw", "text/plain"
        if ct:
            h["Content-Type"] = ct
    else:
        b = ""
    if body is not None:
        b = body
    h.update(extra_headers or {})
    return ["http", name, m, PATH[e], h, b, u, p]


def table_behaviours(rows):
    meta, behs = {}, []
    quiet = [r for r in rows if r["expect"] != "serve"]
    steps = []
    for i, r in enumerate(quiet):
        n = "q%d" % i
        steps.append(request(n, r["m"], r["e"], r["c"]))
        meta[n] = dict(X0, **{"class": r["expect"]})
    behs.append({"name": "routing-table-refusals", "fixture": fixture(), "steps": steps})
    serve = [r for r in rows if r["expect"] == "serve"]
    order = {m: i for i, m in enumerate(["GET", "HEAD", "TRACE", "PATCH", "POST", "PUT", "DELETE"])}
    for e in sorted({r["e"] for r in serve}):
        st = []
        for r in sorted([r for r in serve if r["e"] == e], key=lambda r: (order.get(r["m"], 9), r["c"])):
            n = "s-%s-%s-%s" % (e, r["m"], r["c"])
            st.append(request(n, r["m"], e, r["c"]))
            a = ADDR.get(e, "any") if r["m"] in ("PUT", "POST", "DELETE") else ("any" if e in ("tokens", "token", "emptyuser") else ADDR.get(e, "any"))
            meta[n] = dict(X0, **{"class": "serve", "addr": a if r["m"] in ("PUT", "POST", "DELETE") else "none"})
            if meta[n]["addr"] == "none":
                meta[n]["addr"] = "g:nothing"
        behs.append({"name": "routing-table-served-" + e, "fixture": fixture(), "steps": st})
    return behs, meta


FORMS = ["exact", "exact", "exact", "list-containing", "list-not-containing", "weak", "star", "malformed", "empty-quoted"]
PATH["ngroup"] = "/galene-api/v0/.groups/n"
ADDR["ngroup"] = "n:desc"
OBJ["ngroup"] = "desc"
BODY["ngroup"] = ('{"displayName":"n"}', "application/json")
PARTKEY = {"group": "g:rest", "password": "g:user:alice:pw", "keys": "g:keys", "wildpassword": "g:wild:pw"}
PATH["newuser"] = "/galene-api/v0/.groups/g/.users/newuser"
PATH["newpassword"] = "/galene-api/v0/.groups/g/.users/newuser/.password"
ADDR["newuser"] = "g:user:newuser"
ADDR["newpassword"] = "g:pw:newuser"
OBJ["newuser"] = "newuser"
OBJ["newpassword"] = "newuser"
BODY["newuser"] = ('{"permissions":"present"}', "application/json")
BODY["newpassword"] = ('"np"', "application/json")


def write_body(r, e, k):
    if e in ("group", "ngroup"):
        return json.dumps({"displayName": "v%d" % k, "description": "x" * (k % 7)})
    if e in ("user", "newuser", "wildcard"):
        return json.dumps({"permissions": r.choice(["present", "message", "observe", "op"])})
    if e in ("password", "newpassword", "wildpassword"):
        return json.dumps("pw-%d-%s" % (k, "y" * (k % 5)))
    if e == "keys":
        return json.dumps({"keys": [{"kty": "oct", "alg": "HS256", "k": base64.urlsafe_b64encode(("key-%028d" % k).encode()).decode().rstrip("="), "kid": "k%d" % k}]})
    return None


RACE_WRITES = [8]


def sequences(seed, n):
    """optimistic concurrency: unconditional and conditional GETs capture tags; conditional PUT / POST / DELETE use a tag that some
    earlier response served (current or stale) in every header form; racing writers all carry the same tag"""
    r = random.Random(seed)
    behs, meta = [], {}
    targets = ["group", "user", "user", "newuser", "password", "newpassword", "keys", "wildcard", "wildpassword", "group"]
    for b in range(n):
        st, gets, k = [], [], 0
        for i in range(30):
            k += 1
            name = "b%d-%d" % (b, k)
            kind = r.choice(["get", "get", "get", "put", "put", "put", "put", "delete", "inm", "race", "race"])
            if kind == "get" or not gets:
                ge = r.choice(["group", "user", "newuser", "wildcard"])
                hdrs = {}
                x = dict(X0, g="g", addr="g:nothing", obj=OBJ[ge])
                if gets and r.random() < 0.5:
                    f, src = r.choice(FORMS), r.choice(gets)
                    hdrs["If-None-Match"] = header_value(f, src)
                    x.update(form=f, hdr="If-None-Match", editor=src)
                st.append(request(name, r.choice(["GET", "GET", "HEAD"]), ge, "root", hdrs))
                meta[name] = x
                gets.append(name)
                continue
            f, src = r.choice(FORMS), r.choice(gets[-4:] if r.random() < 0.7 else gets)
            e = r.choice(targets)
            if kind == "inm":
                e = r.choice(["newuser", "user", "group", "wildcard"])
                st.append(request(name, "PUT", e, "root", {"If-None-Match": "*"}, write_body(r, e, k)))
                meta[name] = dict(X0, g="g", editor=src, form="star", hdr="If-None-Match", addr=ADDR[e], obj=OBJ[e])
                continue
            if kind == "race":
                sub = r.choice(["sametag", "sametag", "mixed", "unconditional", "create", "readers"])
                if sub == "sametag":
                    e = r.choice(["group", "user", "password", "keys", "wildcard"])
                    reqs = [request("%s-%d" % (name, j), "PUT", e, "root", {"If-Match": "$etag:" + src}, write_body(r, e, 100 * k + j)) for j in range(r.choice([2, 3, 6]))]
                    meta[name] = dict(X0, g="g", editor=src, form="exact", hdr="If-Match", addr="any", obj=OBJ[e], kind="sametag")
                elif sub == "mixed":
                    es = [r.choice(["group", "user", "password", "keys", "wildcard", "wildpassword"]) for j in range(r.choice([2, 3, 5]))]
                    reqs = [request("%s-%d" % (name, j), "PUT", e, "root", {"If-Match": "$etag:" + src}, write_body(r, e, 100 * k + j)) for j, e in enumerate(es)]
                    meta[name] = dict(X0, g="g", editor=src, form="exact", hdr="If-Match", addr="any", obj="desc", kind="sametag")
                elif sub == "unconditional":
                    es = r.sample(["group", "password", "keys", "wildpassword"], r.choice([2, 3, 4]))
                    reqs = [request("%s-%d" % (name, j), "PUT", e, "root", {}, write_body(r, e, 100 * k + j)) for j, e in enumerate(es)]
                    meta[name] = dict(X0, g="g", addr="any", kind="unconditional", keys=[PARTKEY[e] for e in es])
                elif sub == "create":
                    e = r.choice(["ngroup", "newuser"])
                    reqs = [request("%s-%d" % (name, j), "PUT", e, "root", {"If-None-Match": "*"}, write_body(r, e, 100 * k + j)) for j in range(r.choice([2, 4, 8]))]
                    meta[name] = dict(X0, g="n" if e == "ngroup" else "g", form="star", hdr="If-None-Match", addr="any", obj=OBJ[e], kind="create")
                else:
                    nw = RACE_WRITES[0]
                    writes = [request("%s-w%d" % (name, j), "PUT", "group", "root", {}, json.dumps({"displayName": "race", "description": "y" * (40 + (b * 31 + k * 977) % 300 + j)})) for j in range(nw)]
                    st.append(["readrace", name, request(name + "-r", "GET", "group", "root"), writes, 8])
                    meta[name] = dict(X0, g="g", addr="any", kind="readers")
                    continue
                st.append(["httprace", name, reqs])
                continue
            m = "PUT"
            if kind == "delete" and (e not in ("group",) or r.random() < 0.25):
                m = "DELETE"
            if e.endswith("password") and r.random() < 0.3:
                m = "POST"
            body = write_body(r, e, k) if m == "PUT" else None
            st.append(request(name, m, e, "root", {"If-Match": header_value(f, src)}, body))
            addr = ADDR[e]
            if e == "keys" and m == "DELETE":
                addr = "g:keys"
            meta[name] = dict(X0, g="g", editor=src, form=f, hdr="If-Match", addr=addr, obj=OBJ[e])
        behs.append({"name": "update-sequence-%d" % b, "fixture": fixture(), "steps": st})
    return behs, meta


def header_value(form, src):
    return {"exact": "$etag:" + src, "list-containing": "$list:" + src, "list-not-containing": "$listnot:" + src, "weak": "$weak:" + src,
            "star": "*", "malformed": "garbage-no-quotes", "empty-quoted": '""'}[form]


def crashes():
    behs, meta = [], {}
    for i, point in enumerate(["description.rewrite.created", "description.rewrite.encoded", "description.rewrite.synced",
                               "description.rewrite.closed", "description.rewrite.renamed"]):
        for (e, m) in (("group", "PUT"), ("user", "PUT"), ("password", "PUT"), ("ngroup", "PUT")):   # ngroup: the creation of a definition
            n = "c%d-%s" % (i, e)
            st = [request(n + "-before", "GET", "group", "root"), request(n, m, e, "root"), ["sleep", 30], ["files"],
                  request(n + "-after", "GET", "group", "root"), request(n + "-user", "GET", "user", "root"), ["files"]]
            meta[n + "-before"] = dict(X0, **{"g": "g", "addr": "g:nothing"})
            meta[n] = dict(X0, **{"class": "crash", "g": "g", "addr": "any"})
            meta[n + "-after"] = dict(X0, **{"g": "g", "addr": "any"})
            meta[n + "-user"] = dict(X0, **{"g": "g", "addr": "any"})
            behs.append({"name": "crash-%s-%s" % (point, e), "fixture": fixture(), "steps": st, "crash": point, "expect_dead": 1})
    return behs, meta


def midwrite_crashes():
    """the process is killed by the kernel in the middle of writing a definition (file-size limit): creation, update, user, keys"""
    behs, meta = [], {}
    big = json.dumps({"displayName": "big", "description": "z" * 900})
    for i, (what, e, body) in enumerate((("create", "ngroup", big), ("update", "group", big), ("user", "newuser", json.dumps({"permissions": "present"})),
                                         ("password", "password", json.dumps("p" * 300)))):
        for (lim, kill) in ((1, 0), (64, 0), (700, 0), (64, 1), (700, 1)):
            n = "m%d-%d-%d" % (i, lim, kill)
            st = [request(n + "-before", "GET", "group", "root"), request(n, "PUT", e, "root", None, body), ["sleep", 30], ["files"],
                  request(n + "-after", "GET", "group", "root"), request(n + "-new", "GET", e if e in ("ngroup", "group") else "user", "root"), ["files"]]
            for k in ("-before", "", "-after", "-new"):
                meta[n + k] = dict(X0, **{"class": "crash" if k == "" else "serve", "g": "g", "addr": "any"})
            # kill = 0: the write fails (EFBIG) and the handler has to clean up; kill = 1: the process dies at that write
            behs.append({"name": "midwrite-%s-%s-%d" % ("crash" if kill else "error", what, lim), "fixture": fixture(), "steps": st, "fsize": lim, "fkill": bool(kill), "expect_dead": kill})
            if not kill:
                meta[n] = dict(meta[n], **{"class": "serve"})
    return behs, meta


def whips():
    st = [["whip", "w1", "g", "whiptok", "", ""], ["whipreq", "w1", "PATCH", "none", "whiptok"], ["whipreq", "w1", "DELETE", "wrong", "whiptok"],
          ["whipreq", "w1", "DELETE", "none", "whiptok"], ["http", "stats", "GET", "/galene-api/v0/.stats", {}, "", "root", S1],
          ["whipreq", "w1", "DELETE", "same", "whiptok"],
          ["whip", "w2", "g", "", "", ""], ["whip", "w3", "g", "obstok", "", ""], ["whip", "w4", "o", "", "", ""],
          ["whip", "w5", "g", "tokh", "", ""], ["whip", "w6", "h", "whiptok", "", ""], ["whip", "w7", "g", "msgtok", "", ""], ["whip", "w8", "g", "oldtok", "", ""],
          ["whip", "w9", "g", "", "bob", S3], ["whipreq", "w4", "DELETE", "same", ""],
          ["whip", "w10", "g", "whiptok", "", ""], ["whipreq", "w10", "PATCH", "wrong", "whiptok"], ["whipreq", "w10", "DELETE", "same", "whiptok"]]
    meta = {"w1": dict(X0, granted=1), "w2": dict(X0, granted=0), "w3": dict(X0, granted=0), "w4": dict(X0, granted=1), "w5": dict(X0, granted=0),
            "w6": dict(X0, granted=0), "w7": dict(X0, granted=0), "w8": dict(X0, granted=0), "w9": dict(X0, granted=0), "w10": dict(X0, granted=1), "stats": dict(X0, addr="any")}
    return [{"name": "whip-sessions", "fixture": fixture(), "steps": st}], meta


def fuzz(seed, n):
    """C12-R2: requests nobody would send on purpose -- every route family, odd methods, malformed JSON, huge or truncated bodies, broken
    percent-encoding, traversal attempts, precondition headers of every shape; each must get an HTTP response and leave the process alive"""
    r = random.Random(seed ^ 0x5eed)
    roots = ["/galene-api/v0/.groups/g", "/galene-api/v0/.groups/g/.users/alice", "/galene-api/v0/.groups/g/.users/alice/.password",
             "/galene-api/v0/.groups/g/.keys", "/galene-api/v0/.groups/g/.tokens/", "/galene-api/v0/.groups/g/.tokens/tokg1",
             "/galene-api/v0/.groups/", "/galene-api/v0/.stats", "/galene-api/v0/.groups/g/.wildcard-user", "/galene-api/v0/.groups/g/.empty-user/.password",
             "/group/g/", "/group/g", "/group/g/.whip", "/group/g/.whip/abcdef", "/group/g/.status", "/group/g/.status.json", "/public-groups.json",
             "/recordings/g/", "/recordings/g/x.webm", "/ws", "/", "/galene.html", "/group/", "/galene-api/", "/galene-api/v0/", "/stats.json"]
    tails = ["", "/", "/..", "/../..", "/%2e%2e/%2e%2e/etc/passwd", "/%zz", "%00", "/.users/", "/.users//", "//", "/" + "a" * 3000, "/.tokens/x/y", "?q=1&q=2", "/\\..\\x",
             "/.password", "/.users/%c3%28", "/.users/..%2f..%2fx"]
    bodies = ["", "{", "null", "[]", "\"x\"", "{\"permissions\":7}", "{\"users\":{\"a\":{}}}", "{\"permissions\":[\"admin\",null]}", "{\"expires\":\"yesterday\"}",
              "{\"keys\":[{\"kty\":\"oct\"}]}", "{\"keys\":[7]}", "{\"keys\":[{\"kty\":\"EC\",\"crv\":\"P-256\",\"x\":\"!\",\"y\":\"!\"}]}", "x" * 70000, "\x00\xff\xfe",
              "v=0\r\n", "v=0\r\no=- 1 1 IN IP4 0.0.0.0\r\ns=-\r\nt=0 0\r\nm=video 9 UDP/TLS/RTP/SAVPF 96\r\n", "a=ice-ufrag:x\r\n", "{\"password\":{\"type\":\"pbkdf2\",\"hash\":\"md5\"}}",
              "{\"max-clients\":-1,\"max-history-age\":-5}", "{\"codecs\":[\"nope\"]}", "{\"displayName\":7}", "{\"not-before\":\"x\"}"]
    ctypes = ["", "application/json", "application/jwk-set+json", "text/plain", "application/sdp", "application/trickle-ice-sdpfrag", "application/x-www-form-urlencoded", "garbage/;;;=", "application/json; charset=\"" ]
    hdrs = [{}, {"If-Match": "*"}, {"If-Match": "\"a\", W/\"b\","}, {"If-None-Match": "W/"}, {"If-Match": ","}, {"If-None-Match": "\"\\\"\""}, {"Authorization": "Bearer"}, {"Authorization": "Bearer " + "x" * 5000},
            {"Authorization": "Basic !!!"}, {"Authorization": "Digest x"}, {"Origin": "http://evil.example", "Access-Control-Request-Method": "PUT"}, {"Range": "bytes=5-1"}, {"If-Modified-Since": "x"},
            {"Upgrade": "websocket", "Connection": "Upgrade"}, {"Upgrade": "websocket", "Connection": "Upgrade", "Sec-WebSocket-Key": "x", "Sec-WebSocket-Version": "13"}, {"Content-Encoding": "gzip"}]
    st, meta = [], {}
    for i in range(n):
        name = "z%d" % i
        m = r.choice(["GET", "HEAD", "POST", "PUT", "DELETE", "PATCH", "OPTIONS", "TRACE", "PROPFIND", "CONNECT"])
        h = dict(r.choice(hdrs))
        ct = r.choice(ctypes)
        if ct:
            h["Content-Type"] = ct
        cr = r.choice(["none", "root", "root", "user", "tokin"])
        ah, u, p = CRED[cr]
        if "Authorization" not in h:
            h.update(ah)
        else:
            u = p = ""
        st.append(["http", name, m, r.choice(roots) + r.choice(tails), h, r.choice(bodies) if m not in ("GET", "HEAD") or r.random() < 0.2 else "", u, p])
        meta[name] = dict(X0, **{"class": "fuzz"})
    return [{"name": "http-fuzz", "fixture": fixture(), "steps": st}], meta


def run_table(rep, w, tier, pid, replay=None):
    thorough = tier == "thorough"
    if replay:
        rp = json.load(open(replay))["replay"]
        if "http_behaviours" not in rp:
            return
        behs, meta = rp["http_behaviours"], rp["meta"]
    else:
        r = C.tlc(w, "AdminAPI.tla", "MC_AdminAPI.cfg", workers=1, timeout=900, deadlock=False)
        rep.model("MC_AdminAPI.cfg (complete table: 8 methods x 18 endpoint shapes x 13 credential kinds, with scope invariants)", r, exhaustive=True)
        if r.violated:
            raise C.Inconclusive("AdminAPI table violates " + r.violated)
        C.must_complete(r, "MC_AdminAPI")
        rows = r.json_prints("CASE")
        if not rows:
            raise C.Inconclusive("no API rows enumerated")
        behs, meta = table_behaviours(rows)
        RACE_WRITES[0] = 1500 if thorough else 150
        more = [sequences(C.seed(), 40 if thorough else 10), crashes(), midwrite_crashes(), whips()]
        if pid == "C12":
            more.append(fuzz(C.seed(), 1500 if thorough else 300))
        for (bs, mt) in more:
            behs += bs
            meta.update(mt)
    script = os.path.join(w, "http_script.json")
    json.dump(behs, open(script, "w"))
    binp = C.go_build(w, "./cmd/srvdrive", "srvdrive")
    trace = os.path.join(w, "trace_http_raw.ndjson")
    env = dict(C.GOENV)
    env.update({"VERIF_IN": script, "VERIF_OUT": trace})
    rc, out, _ = C.run([binp], cwd=w, env=env, timeout=3000)
    if rc != 0:
        raise C.Inconclusive("srvdrive (http) failed (exit %d): %s" % (rc, out[-1500:]))
    events = C.read_ndjson(trace)
    if pid == "C18" and not replay:
        tb = C.go_test_binary(w, "group", "group.defs.test")
        t1 = os.path.join(w, "trace_defsrace.ndjson")
        env = dict(C.GOENV)
        env.update({"VERIF_OUT": t1, "VERIF_RACE_MS": "20000" if thorough else "2500"})
        rc, out, _ = C.run([tb, "-test.run", "^TestVerifDefsRace$", "-test.count=1"], cwd=w, env=env, timeout=600)
        if rc != 0:
            raise C.Inconclusive("group reader-race harness failed (exit %d): %s" % (rc, out[-1500:]))
        behs.append({"name": "library-reader-race", "steps": []})
        events += C.read_ndjson(t1)
        meta["library-reader-race"] = dict(X0, g="r", kind="readers")
    bi = -1
    for e in events:
        if e["ev"] == "New":
            bi += 1
        x = dict(meta.get(e.get("name"), X0))
        if e["ev"] == "dead":
            x["expected"] = 1 if (0 <= bi < len(behs) and behs[bi].get("expect_dead")) else 0
        e["x"] = x
        if e["ev"] == "httprace":
            e.setdefault("statuses", [])
            e.setdefault("oks", 0)
        if e["ev"] == "readrace":
            rr = rep.cov.setdefault("reader_writer_races", {"races": 0, "reads": 0, "versions_seen": 0, "writes_acknowledged": 0})
            rr["races"] += 1
            rr["reads"] += e["reads"]
            rr["versions_seen"] += e["versions"]
            rr["writes_acknowledged"] += e["acked"]
        for k in ("method", "path", "etag", "digest"):
            e.setdefault(k, "")
        e.setdefault("parts", [])
        e.setdefault("leaks", [])
        e.setdefault("status", 0)
        e.setdefault("how", "")
    t2 = os.path.join(w, "trace_http.ndjson")
    with open(t2, "w") as f:
        for e in events:
            f.write(json.dumps(e) + "\n")
    v = C.tlc_trace(w, "Trace_Http.tla", "Trace_Http.cfg", t2, "trace_http.ndjson", timeout=3000)
    reqs = [e for e in events if e["ev"] == "http"]
    rep.traces(v.nbeh)
    rep.cov["http_requests"] = len(reqs)
    rep.cov["http_status_histogram"] = {str(k): sum(1 for e in reqs if e["status"] == k) for k in sorted({e["status"] for e in reqs})}
    races = [e for e in events if e["ev"] == "httprace"]
    rep.cov["racing_writer_groups"] = {"total": len(races), "by_number_of_successes": {str(k): sum(1 for e in races if e["oks"] == k) for k in sorted({e["oks"] for e in races})}}
    cond = [e for e in reqs if e["x"].get("hdr")]
    rep.cov["conditional_requests"] = {"%s/%s/%s" % (h, f, st): sum(1 for e in cond if (e["x"]["hdr"], e["x"]["form"], e["status"]) == (h, f, st))
                                       for (h, f, st) in sorted({(e["x"]["hdr"], e["x"]["form"], e["status"]) for e in cond})}
    rep.cov["whip_exchanges"] = ["%s %s %s%s -> %s" % (e["ev"], e.get("name"), e.get("method", "POST"), ("/" + e["how"]) if e.get("how") else "", e.get("status")) for e in events if e["ev"] in ("whip", "whipreq")]
    rep.cov["crash_points_exercised"] = sorted({b.get("crash") for b in behs if b.get("crash")})
    rep.cases(len(events), len({json.dumps([e.get("method"), e.get("path"), e["x"].get("class"), e.get("status"), e["x"].get("form"), e["x"].get("hdr")]) for e in reqs}))
    rep.cov["rule"] = (rep.cov.get("rule", "") + " | http: one evaluation = one real HTTP request to the real server; distinct = distinct (method, path, row class, status, header form) tuples").strip(" |")
    if reqs:
        rep.sample({k: reqs[0][k] for k in ("method", "path", "status", "x")})
        cw = [e for e in reqs if e["x"].get("hdr") == "If-Match"]
        if cw:
            rep.sample({k: cw[0][k] for k in ("method", "path", "status", "etag", "x")})
    rep.cov["current_tag_refused_(counted_only)"] = len(v.raw.prints("TRACE-SOFT"))
    for (line, nb, clause) in v.bads:
        e = events[line - 1]
        if clause.startswith(PREFIX[pid]):
            b = behs[nb - 1] if 0 < nb <= len(behs) else None
            rep.violation("%s at line %d (behaviour '%s'): %s" % (clause, line, b["name"] if b else "", json.dumps({k: e.get(k) for k in ("ev", "name", "method", "path", "status", "statuses", "conflicts", "partial", "leaks", "x", "how", "body") if e.get(k) not in (None, "", [])})[:600]),
                          {"http_behaviours": [b] if b else [], "meta": {k: meta[k] for k in meta if b and any(len(s) > 1 and s[1] == k for s in b["steps"])}})
        else:
            rep.notes.append("clause %s of another property failed at line %d" % (clause, line))
