"""Decision tables of Auth.tla: TLC enumerates every abstract case with the decision the property demands; the cases are materialised
and put to the real code (authdrive: group.Description.GetPermission, token.Parse/Check; galenectl overlay: makePassword round trip);
Trace_Auth compares row by row."""
import json, os
import common as C


def enumerate_table(rep, w, table):
    r = C.tlc(w, "Auth.tla", "MC_Auth_%s.cfg" % table, workers=1, timeout=900, deadlock=False)
    rep.model("MC_Auth_%s.cfg (complete enumeration of the %s table with its design-level invariants)" % (table, table), r, exhaustive=True)
    if r.violated:
        raise C.Inconclusive("Auth table %s violates %s" % (table, r.violated))
    C.must_complete(r, "MC_Auth_" + table)
    rows = [{"table": table, "case": d["case"], "expect": d["expect"]} for d in r.json_prints("CASE")]
    if not rows:
        raise C.Inconclusive("no rows enumerated for table " + table)
    return rows


def run_tables(rep, w, tier, pid, tables, replay=None):
    rows = []
    if replay:
        rows = json.load(open(replay))["replay"].get("rows", [])
    else:
        for t in tables:
            rows += enumerate_table(rep, w, t)
    rep.cov["table_rows"] = {t: sum(1 for r in rows if r["table"] == t) for t in tables}
    script = os.path.join(w, "auth_rows.json")
    json.dump(rows, open(script, "w"))
    events = []
    if any(r["table"] != "hash" for r in rows):
        binp = C.go_build(w, "./cmd/authdrive", "authdrive")
        tr = os.path.join(w, "auth1.ndjson")
        env = dict(C.GOENV); env.update({"VERIF_IN": script, "VERIF_OUT": tr})
        rc, out, _ = C.run([binp], cwd=w, env=env, timeout=1800)
        if rc != 0:
            raise C.Inconclusive("authdrive failed: " + out[-2000:])
        events += C.read_ndjson(tr)
    if any(r["table"] == "hash" for r in rows):
        tb = C.go_test_binary(w, "galenectl", "galenectl.test", pkgname="main")
        tr = os.path.join(w, "auth2.ndjson")
        env = dict(C.GOENV); env.update({"VERIF_IN": script, "VERIF_OUT": tr})
        rc, out, _ = C.run([tb, "-test.run", "^TestVerifHash$", "-test.count=1"], cwd=w, env=env, timeout=1800)
        if rc != 0:
            raise C.Inconclusive("galenectl hash harness failed: " + out[-2000:])
        events += C.read_ndjson(tr)
    trace = os.path.join(w, "trace_auth.ndjson")
    with open(trace, "w") as f:
        for e in events:
            f.write(json.dumps(e) + "\n")
    v = C.tlc_trace(w, "Trace_Auth.tla", "Trace_Auth.cfg", trace, "trace_auth.ndjson", timeout=1800)
    cases = [e for e in events if e.get("ev") == "case"]
    rep.traces(len(cases))
    rep.cases(len(cases), len({json.dumps(e["case"], sort_keys=True) for e in cases}))
    rep.cov["exhaustive"] = True
    rep.cov["rule"] = (rep.cov.get("rule", "") + " | tables: one evaluation = one row of an Auth.tla decision table (enumerated completely by TLC) materialised and decided by the real code; all rows are distinct").strip(" |")
    if cases:
        rep.sample(cases[0]); rep.sample(cases[len(cases) // 2])
    for (line, nb, clause) in v.bads:
        e = events[line - 1]
        rep.violation("%s: %s" % (clause, json.dumps(e)[:600]), {"rows": [{"table": e["table"], "case": e["case"], "expect": e["expect"]}]})
