"""C10 -- admission rules (lock, capacity, time window, autolock/autokick) always hold.

Model: Group.tla (one action per critical section of group.go) against GroupMonitor, 2 operators + 2 non-operators,
every description, reloads, all interleavings, exhaustive; the faithful switch Fixed_F5=FALSE re-finds the window in
which a non-operator joined an autolock group after its last operator left.
Conformance: (0) on the real server, an autolock group whose operators are demoted at run time (SigMonitor); (i) TLC-simulated + seeded operation sequences on the real group package (fake group.Client values, real
description files, reloads); (ii) racing goroutines with randomised yields at the hooks; both recorded in
linearisation order (hooks numbered under Group.mu) and validated by Trace_Group."""
import json, os, shutil
import common as C
import grp, sig

PID = "C10"


def run(tier, replay=None):
    rep = C.Report(PID)
    w = C.scratch("c10-")
    try:
        thorough = tier == "thorough"
        r = C.tlc(w, "MC_Group.tla", "MC_Group.cfg", workers=C.NCPU, timeout=1500, heap="16g", deadlock=False)
        rep.model("MC_Group.cfg (2 ops + 2 users, 36 descriptions, reloads, all interleavings; exhaustive)", r, exhaustive=True)
        if r.violated:
            raise C.Inconclusive("Group model violates %s\n%s" % (r.violated, r.out[-2000:]))
        C.must_complete(r, "MC_Group")
        r = C.tlc(w, "MC_Group.tla", "MC_Group_F5.cfg", workers=4, timeout=600, deadlock=False)
        rep.model("MC_Group_F5.cfg (faithful pre-fix switch; must violate)", r)
        if not r.violated:
            raise C.Inconclusive("model no longer reproduces the F5 admission window")
        sd = C.seed()
        sig_replay = bool(replay) and "clause" in json.load(open(replay))["replay"]
        behs = []
        if replay:
            behs = [] if sig_replay else json.load(open(replay))["replay"].get("behaviours", [])
        else:
            _, raw = C.tlc_simulate(w, "Sim_Group.tla", "Sim_Group.cfg", num=(300 if thorough else 60), depth=45, sd=sd, timeout=600)
            seen = set()
            for b in raw:
                k = json.dumps(b["ops"][:-1])
                if k not in seen:
                    seen.add(k)
                    behs.append(b)
        rep.cov["behaviours_from_tlc"] = len(behs)
        script = os.path.join(w, "group_script.json")
        json.dump(behs, open(script, "w"))
        binp = grp.build(w)
        total = 0
        allev = []
        for mode, extra in (("seq", {"VERIF_IN": script, "VERIF_N": "0" if replay else ("400" if thorough else "80")}),
                            ("conc", {"VERIF_N": "0" if replay else ("1500" if thorough else "150")})):
            rc, out, trace, races = grp.run_mode(w, binp, mode, extra)
            if rc != 0:
                raise C.Inconclusive("groupdrive %s failed (exit %d): %s" % (mode, rc, out[-2000:]))
            events, v = grp.validate(w, trace)
            allev += events
            rep.traces(v.nbeh)
            total += v.lines
            if v.drift:
                rep.drift("%s: admission outcome differs from Layer I at line %d: %s" % (mode, v.drift, json.dumps(events[v.drift - 1])[:300]))
            behs_ev = C.split_behaviours(events)
            for (line, nb, clause) in v.bads:
                if clause.startswith("C10_"):
                    b = behs_ev[nb - 1] if 0 < nb <= len(behs_ev) else None
                    rep.violation("%s in %s mode at trace line %d: %s ; behaviour: %s" % (clause, mode, line, json.dumps(events[line - 1])[:300],
                                                                                         json.dumps(b["events"][0])[:200] if b else ""),
                                  {"mode": mode, "behaviours": behs, "seed": sd, "line": line})
            if behs_ev and mode == "seq":
                rep.sample({"mode": mode, "events": behs_ev[0]["events"][:8]})
            if behs_ev and mode == "conc":
                rep.sample({"mode": mode, "events": behs_ev[0]["events"][:6]})
        # the same rule seen through the REAL server, where permissions change at run time (op / unop): autolock group, operators
        # demoted by a colleague, the last one leaving (SigMonitor's C10 clause)
        if not replay or sig_replay:
            sig.run(rep, w, tier, PID, replay if sig_replay else None, corpus_only="autolock-")
        rep.cov["trace_events"] = total
        distinct = {json.dumps([e.get("ev"), e.get("op"), e.get("n"), e.get("locked"), e.get("dup"), e.get("b"), e.get("kind")]) for e in allev}
        rep.cases(total, len(distinct))
        rep.cov["rule"] = ("one evaluation = one event of the real group package (admission, refusal, departure, lock change, reload, announcement, final membership); "
                           "distinct = distinct (event kind, operator?, member count, locked?, duplicate?, lock value) tuples")
        rep.assumptions += ["time-window edges are exercised an hour away from now, not at the boundary instant",
                            "in the racing mode the description is not edited (the description in force at an admission would be ambiguous)"]
        return rep.finish()
    finally:
        shutil.rmtree(w, ignore_errors=True)
