"""C03 -- a NACK retransmits exactly the packet originally sent under that number.

Model: Forward.tla with late copies and NACKs enabled (Reverse -> cache -> the same Write), exhaustive
for all streams of <= 7 packets at M=8/W=2 (VP8-like with temporal layers; VP9-like with spatial layers
where the server sets the marker).  The faithful switch re-finds the known finding F17.
Conformance: real gotNACK -> real rtpUpTrack.GetPacket -> real packetcache -> real Write (fwd.py)."""
import shutil
import common as C
import fwd

PID = "C03"


def run(tier, replay=None):
    rep = C.Report(PID)
    w = C.scratch("c03-")
    try:
        fwd.model_runs(rep, w, tier,
                       [("MC_Forward_nack8.cfg", "VP8-like, late copies + NACK of every outgoing number, bounded stream length, exhaustive", 5),
                        ("MC_Forward_nack9.cfg", "VP9-like SVC, marker set by the server, F17 exempted by its signature", 4)],
                       must_violate=[("MC_Forward_F17.cfg", "F17")])
        fwd.run_forward(rep, w, tier, PID, replay=replay)
        rep.assumptions += ["a NACK for a number under which nothing was ever sent to this receiver may be answered with the packet that the C01 numbering assigns to that number",
                            "first transmissions are recorded by the harness from the bytes handed to the write stream"]
        return rep.finish()
    finally:
        shutil.rmtree(w, ignore_errors=True)
