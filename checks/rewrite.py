"""RewritePacket / PacketFlags shape table (C02, C12): placeholder until Rewrite.tla is built."""


def run_shapes(rep, w, tier, pid, replay=None):
    rep.notes.append("descriptor-shape table not built yet")
