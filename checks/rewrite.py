"""RewritePacket / PacketFlags / Keyframe on enumerated shapes (Rewrite.tla, complete table), exhaustive short payloads and seeded
random bytes (C02 shape clauses, C12-R4): the codecs overlay harness calls the real functions under recover(); Trace_Parse judges."""
import json, os
import common as C

PREFIX = {"C02": ("C02_",), "C12": ("C12_",)}


def run_shapes(rep, w, tier, pid, replay=None):
    thorough = tier == "thorough"
    r = C.tlc(w, "Rewrite.tla", "MC_Rewrite.cfg", workers=1, timeout=900, deadlock=False)
    rep.model("MC_Rewrite.cfg (complete table of 12 096 packet shapes x truncation lengths)", r, exhaustive=True)
    C.must_complete(r, "MC_Rewrite")
    shapes = r.json_prints("CASE")
    if not shapes:
        raise C.Inconclusive("no shapes enumerated")
    script = os.path.join(w, "shapes.json")
    json.dump(shapes, open(script, "w"))
    tb = C.go_test_binary(w, "codecs", "codecs.test")
    trace = os.path.join(w, "trace_parse.ndjson")
    env = dict(C.GOENV)
    env.update({"VERIF_IN": script, "VERIF_OUT": trace, "VERIF_SEED": str(C.seed()), "VERIF_N": "400000" if thorough else "20000"})
    rc, out, _ = C.run([tb, "-test.run", "^TestVerifParsers$", "-test.count=1"], cwd=w, env=env, timeout=3000)
    if rc != 0:
        raise C.Inconclusive("codecs parser harness died (exit %d): %s" % (rc, out[-1500:]))
    # only the interesting lines are kept in full for TLC (a million one-line records otherwise)
    n, keep, kinds = 0, [], {}
    with open(trace) as f:
        for line in f:
            n += 1
            e = json.loads(line)
            k = "%s/%s" % (e.get("ev"), e.get("kind"))
            kinds[k] = kinds.get(k, 0) + 1
            if e.get("ev") == "rewrite" and e.get("kind") == "shape" or e.get("panic") or e.get("other") or e.get("lenchg") or n % 50 == 0:
                keep.append(e)
    t2 = os.path.join(w, "trace_parse2.ndjson")
    with open(t2, "w") as f:
        for e in keep:
            f.write(json.dumps(e) + "\n")
    v = C.tlc_trace(w, "Trace_Parse.tla", "Trace_Parse.cfg", t2, "trace_parse.ndjson", timeout=1800)
    rep.cov["parser_calls"] = n
    rep.cov["parser_call_kinds"] = kinds
    rep.cov["parser_calls_judged_by_tlc"] = len(keep)
    rep.notes.append("parser calls without panic / modification / length change are judged in Go (three integer fields) and sampled 1:50 into the TLC trace; every shape row and every anomalous call is judged by TLC")
    rep.cases(n, len(shapes) + kinds.get("parse/payload", 0) // 4)
    rep.traces(1)
    rep.sample({"shape_row": shapes[len(shapes) // 3]})
    for (line, nb, clause) in v.bads:
        e = keep[line - 1]
        if clause.startswith(PREFIX[pid]):
            rep.violation("%s: %s" % (clause, json.dumps(e)[:400]), {"call": e})
        else:
            rep.notes.append("clause %s of another property failed: %s" % (clause, json.dumps(e)[:200]))
