"""C20 -- recordings contain exactly the frames that were sent, in order, intact.

Model: Recorder.tla / RecOps.tla -- for each packet of a published track the environment chooses: written to the recorder, stored in the
publisher's cache only, held back and released later (reordering inside the window), lost for good, plus duplicates; Write's gap
detection and fetch are Layer I, 'only complete sent frames, each once, in order; nothing lost => every complete frame from the first
complete keyframe on' is Layer P.  TLC enumerates EVERY history for a 6-packet stream (two keyframes, one- and two-packet frames; and a
6-frame audio stream) with the design checks, and prints them.
Conformance: every enumerated history, and seeded long ones (50-900 packets, sequence-number and 32-bit timestamp wrap, audio + video
with sender reports at arbitrary points, stop vs departure of the publisher), is executed on the REAL diskwriter.Client through PushConn
with a fake publisher (own packet cache); the resulting WebM files are parsed back with ebml-go; Trace_Rec replays the logged operations
through RecOps!WriteF and judges R1-R6 on the parsed samples."""
import json, os, random, shutil
import common as C

PID = "C20"
LAYOUT_V = [{"n": 2, "kf": 1}, {"n": 1, "kf": 0}, {"n": 2, "kf": 1}, {"n": 1, "kf": 0}]
LAYOUT_A = [{"n": 1, "kf": 0}] * 6


def from_history(i, h, kind):
    r = random.Random(i)
    frames = [dict(f, size=r.choice([40, 300, 1200, 2500])) for f in (LAYOUT_V if kind == "video" else LAYOUT_A)]
    if kind == "video" and i % 3 == 1:
        frames[2]["dim"] = 1          # the second keyframe comes with other dimensions: the recorder starts a new file there
    tr = {"kind": kind, "codec": "vp8" if kind == "video" else "opus", "seq0": r.choice([1, 1000, 65533, 65535, 65531]), "ts0": r.choice([0, 5000, 2 ** 32 - 4000]), "frames": frames}
    ops = [{"op": o["op"], "t": 0, "p": o["p"] - 1} for o in h["ops"]]
    ops.append({"op": "close", "t": 0, "a": "leave" if i % 2 else "stop"})
    return {"name": "tlc-%s-%d" % (kind, i), "tracks": [tr], "ops": ops, "x": {"sync": 0, "tol": 0}}


def rand_track_ops(r, t, npk, p_odd):
    """a random history for one track: list of ops in order"""
    ops, held = [], []
    written = []
    for p in range(npk):
        held = [(q, at) for (q, at) in held]
        for (q, at) in list(held):
            if p - at >= r.choice([1, 2, 3, 6]) :
                ops.append({"op": "L", "t": t, "p": q})
                written.append(q)
                held.remove((q, at))
        x = r.random()
        if x < p_odd["S"]:
            ops.append({"op": "S", "t": t, "p": p})
        elif x < p_odd["S"] + p_odd["H"]:
            ops.append({"op": "H", "t": t, "p": p})
            held.append((p, p))
        elif x < p_odd["S"] + p_odd["H"] + p_odd["X"]:
            ops.append({"op": "X", "t": t, "p": p})
        else:
            ops.append({"op": "D", "t": t, "p": p})
            written.append(p)
        if written and r.random() < p_odd["U"]:
            ops.append({"op": "U", "t": t, "p": r.choice(written[-8:])})
    for (q, at) in held:
        ops.append({"op": "L", "t": t, "p": q})
    return ops


def seeded(seed, n):
    r = random.Random(seed)
    behs = []
    for i in range(n):
        shape = r.choice(["video", "video", "audio", "av", "av-sr", "av-sr"])
        p_odd = r.choice([{"S": 0.0, "H": 0.0, "X": 0.0, "U": 0.0}, {"S": 0.05, "H": 0.0, "X": 0.0, "U": 0.0}, {"S": 0.03, "H": 0.03, "X": 0.0, "U": 0.03},
                          {"S": 0.03, "H": 0.03, "X": 0.02, "U": 0.02}, {"S": 0.2, "H": 0.0, "X": 0.0, "U": 0.1}, {"S": 0.0, "H": 0.1, "X": 0.0, "U": 0.0}])
        tracks, npk = [], []
        kinds = {"video": ["video"], "audio": ["audio"], "av": ["audio", "video"], "av-sr": ["audio", "video"]}[shape]
        nfr = r.choice([8, 30, 120, 400])
        for kd in kinds:
            if kd == "video":
                frames, cnt = [], 0
                for f in range(nfr):
                    k = 1 if (f % r.choice([7, 15, 40]) == 0 and (f > 0 or r.random() < 0.8)) else 0
                    nn = r.choice([1, 1, 2, 3, 5])
                    # (a change of dimensions only in streams that are otherwise delivered plainly: see DESIGN.md 0.6)
                    plain = not any(p_odd.values())
                    frames.append({"n": nn, "kf": k, "size": r.choice([60, 400, 1500, 4000]), "dim": 1 if (plain and k and r.random() < 0.3) else 0})
                tracks.append({"kind": "video", "codec": "vp8", "seq0": r.choice([0, 7, 65000, 65500]), "ts0": r.choice([0, 90000, 2 ** 32 - 90000 * 3, 2 ** 31 - 45000]), "frames": frames})
            else:
                frames = [{"n": 1, "kf": 0, "size": r.choice([20, 80, 160])} for f in range(int(nfr * 5 / 3) + 1)]
                tracks.append({"kind": "audio", "codec": "opus", "seq0": r.choice([0, 9, 65400]), "ts0": r.choice([0, 48000, 2 ** 32 - 48000 * 2]), "frames": frames})
        per = []
        for t, tr in enumerate(tracks):
            n = sum((f["n"] if tr["kind"] == "video" and f["n"] <= f["size"] // 4 else 1) for f in tr["frames"])
            per.append(rand_track_ops(r, t, n, p_odd))
        # interleave the tracks proportionally to capture time
        ops = []
        if shape == "av-sr":
            for t in range(len(tracks)):
                ops.append({"op": "SR", "t": t, "p": 0})
        idx = [0] * len(per)
        while any(idx[t] < len(per[t]) for t in range(len(per))):
            t = min((t for t in range(len(per)) if idx[t] < len(per[t])), key=lambda t: idx[t] / max(1, len(per[t])) + r.random() * 0.02)
            ops.append(per[t][idx[t]])
            idx[t] += 1
            if shape == "av-sr" and r.random() < 0.02:
                tt = r.randrange(len(tracks))
                ops.append({"op": "SR", "t": tt, "p": min(idx[tt], len(per[tt]) - 1) if False else 0})
        ops.append({"op": "close", "t": 0, "a": r.choice(["leave", "stop"])})
        behs.append({"name": "seeded-%s-%d" % (shape, i), "tracks": tracks, "ops": ops, "x": {"sync": 1 if shape == "av-sr" else 0, "tol": 3}})
    return behs


def corpus():
    """audio + video with sender reports where the file cannot open at the first keyframe (one of its packets is lost for good, or
    is only cached and never noticed): the shared origin has to be moved to a later keyframe for BOTH tracks, each in its own clock"""
    out = []
    # (the sample builder gives a missing packet inside its oldest frame up only when its ring of 2 x 256 packets is full:
    #  the next keyframe has to come after that)
    for (name, first_op, kf2) in (("lost", "X", 560), ("lost-later-keyframe", "X", 700)):
        vframes = [{"n": 2 if f == 0 else 1, "kf": 1 if f in (0, kf2) else 0, "size": 300} for f in range(kf2 + 20)]
        aframes = [{"n": 1, "kf": 0, "size": 60} for f in range(int((kf2 + 20) * 5 / 3))]
        tracks = [{"kind": "audio", "codec": "opus", "seq0": 100, "ts0": 48000, "frames": aframes},
                  {"kind": "video", "codec": "vp8", "seq0": 65530, "ts0": 2 ** 32 - 90000, "frames": vframes}]
        ops = [{"op": "SR", "t": 0, "p": 0}, {"op": "SR", "t": 1, "p": 0}]
        ai, vi, nv = 0, 0, len(vframes) + 1
        while ai < len(aframes) or vi < nv:
            # 5 audio frames for 3 video frames, in capture order
            if ai < len(aframes) and (vi >= nv or ai * 3 <= vi * 5):
                ops.append({"op": "D", "t": 0, "p": ai})
                ai += 1
            else:
                ops.append({"op": first_op if vi == 1 else "D", "t": 1, "p": vi})
                vi += 1
        ops.append({"op": "close", "t": 0, "a": "leave"})
        out.append({"name": "av-origin-moves-" + name, "tracks": tracks, "ops": ops, "x": {"sync": 1, "tol": 3}})
    return out


def run(tier, replay=None):
    rep = C.Report(PID)
    w = C.scratch("c20-")
    try:
        thorough = tier == "thorough"
        sd = C.seed()
        if replay:
            behs = json.load(open(replay))["replay"]["behaviours"]
        else:
            behs = []
            for (cfg, kind, label) in (("MC_Recorder_deep.cfg" if thorough else "MC_Recorder.cfg", "video", "6-packet video stream, 2 keyframes"), ("MC_Recorder_audio.cfg", "audio", "6-frame audio stream")):
                r = C.tlc(w, "MC_Recorder.tla", cfg, workers=1, timeout=1500, deadlock=False)
                rep.model("%s (%s: every history of written / cache-only / held+released / lost / duplicated packets; design checks)" % (cfg, label), r, exhaustive=True)
                if r.violated:
                    raise C.Inconclusive("Recorder model violates %s\n%s" % (r.violated, r.out[-1500:]))
                C.must_complete(r, cfg)
                hs = r.json_prints("HIST")
                if len(hs) < 100:
                    raise C.Inconclusive("only %d histories enumerated by %s" % (len(hs), cfg))
                rep.cov["histories_enumerated_" + kind] = len(hs)
                behs += [from_history(i, h, kind) for i, h in enumerate(hs)]
            behs += seeded(sd, 400 if thorough else 60) + corpus()
            cdir = os.path.join(C.VERIF, "corpus", PID)
            if os.path.isdir(cdir):
                for f in sorted(os.listdir(cdir)):
                    if f.endswith(".json"):
                        behs += json.load(open(os.path.join(cdir, f)))
        script = os.path.join(w, "rec_script.json")
        json.dump(behs, open(script, "w"))
        tb = C.go_test_binary(w, "diskwriter", "diskwriter.rec.test")
        trace = os.path.join(w, "trace_rec_raw.ndjson")
        env = dict(C.GOENV)
        env.update({"VERIF_IN": script, "VERIF_OUT": trace, "VERIF_SEED": str(sd)})
        rc, out, _ = C.run([tb, "-test.run", "^TestVerifRecorder$", "-test.count=1"], cwd=w, env=env, timeout=3000)
        if rc != 0:
            raise C.Inconclusive("recorder harness failed (exit %d): %s" % (rc, out[-1500:]))
        events = C.read_ndjson(trace)
        bi = -1
        for e in events:
            if e["ev"] == "New":
                bi += 1
            if e["ev"] == "track":
                e.pop("ts0", None)
                for fr in e["frames"]:
                    fr.pop("ts", None)      # TLC integers are 32-bit: the harness reports timestamps relative to the first (mod 2^32)
            if e["ev"] == "files":
                e["x"] = behs[bi].get("x", {"sync": 0, "tol": 0})
                e["files"] = e.get("files") or []
                e["fetched"] = [x or [] for x in (e.get("fetched") or [])]
                for f in e["files"]:
                    f["samples"] = f.get("samples") or []
                    f["tracks"] = f.get("tracks") or []
        t2 = os.path.join(w, "trace_rec.ndjson")
        with open(t2, "w") as f:
            for e in events:
                f.write(json.dumps({k: v for k, v in e.items() if k not in ("fetched", "kfreqs")}) + "\n")
        v = C.tlc_trace(w, "Trace_Rec.tla", "Trace_Rec.cfg", t2, "trace_rec.ndjson", timeout=3000, heap="12g")
        rep.traces(v.nbeh)
        fe = [e for e in events if e["ev"] == "files"]
        rep.cov["recordings_made"] = len(fe)
        rep.cov["files_parsed"] = sum(len(e["files"]) for e in fe)
        rep.cov["samples_checked"] = sum(len(f["samples"]) for e in fe for f in e["files"])
        rep.cov["packets_recovered_from_cache_(fetch_calls)"] = sum(len(x) for e in fe for x in e["fetched"])
        rep.cov["ops"] = {k: sum(1 for e in events if e["ev"] == "op" and e["op"] == k) for k in ("D", "S", "H", "L", "U", "X", "SR", "close")}
        rep.cases(len([e for e in events if e["ev"] == "op"]), len({json.dumps([o["op"] for o in b["ops"]][:40]) for b in behs}))
        rep.cov["rule"] = "one evaluation = one operation executed on the real recorder; distinct = distinct operation sequences (first 40 operations)"
        if fe:
            e = fe[len(fe) // 2]
            rep.sample({"behaviour": behs[len(fe) // 2]["name"], "ops": [[o["op"], o.get("p")] for o in behs[len(fe) // 2]["ops"]][:12],
                        "file": [{"tracks": f["tracks"], "samples": f["samples"][:4]} for f in e["files"]][:1]})
        for (line, nb, clause) in v.bads:
            b = behs[nb - 1] if 0 < nb <= len(behs) else None
            e = events[line - 1]
            small = {"closed": e.get("closed"), "files": [{"err": f["err"], "tracks": f["tracks"], "nsamples": len(f["samples"])} for f in e.get("files", [])], "what": e.get("what")}
            if clause.startswith("K1_"):
                if any(k["id"] == "K1" for k in C.known_findings(PID)):
                    rep.known("K1", "K1 a frame that straddles the end of the sample builder's ring (after a late arrival, or once per revolution while the buffer never empties) is written truncated to its first packet(s): jech/samplebuilder pop() counts with cap() instead of len() (dependency)")
                    rep.cov["known_K1_hits"] = rep.cov.get("known_K1_hits", 0) + 1
                else:
                    rep.violation("K1 signature matched but K1 is not listed in known_findings.json (behaviour '%s')" % (b["name"] if b else "?"), {"behaviours": [b] if b else []})
            elif clause.startswith("K3_"):
                if any(k["id"] == "K3" for k in C.known_findings(PID)):
                    rep.known("K3", "K3 an audio+video recording (sender reports, cache-only packets at the head of the video track) from which the audio track is absent altogether and the tail of the video is missing; history: corpus/C20/known_K3.json")
                else:
                    rep.violation("K3 signature matched but K3 is not listed in known_findings.json (behaviour '%s')" % (b["name"] if b else "?"), {"behaviours": [b] if b else []})
            elif clause.startswith("N20_"):
                rep.cov["keyframe_flag_differs_(not_a_violation)"] = rep.cov.get("keyframe_flag_differs_(not_a_violation)", 0) + 1
            elif clause.startswith("C20_"):
                rep.violation("%s (behaviour '%s'): %s ops=%s" % (clause, b["name"] if b else "?", json.dumps(small)[:300], json.dumps([[o["op"], o.get("t"), o.get("p")] for o in (b["ops"] if b else [])])[:400]),
                              {"behaviours": [b] if b else []})
            else:
                rep.notes.append("clause %s of another property failed in behaviour %s" % (clause, b["name"] if b else "?"))
        rep.assumptions += ["VP8 and Opus payloads built from ground truth (VP9 / H264 packetisation is not generated)",
                            "reordering stays inside the sample builder's window (held packets return within 6 packets)",
                            "the shared time origin is judged only in behaviours with sender reports for both tracks (without them alignment is by wall-clock arrival, which the harness does not control)",
                            "pion / ebml-go / samplebuilder are dependencies: a defect of theirs that shows in a file is reported against C20"]
        return rep.finish()
    finally:
        shutil.rmtree(w, ignore_errors=True)
