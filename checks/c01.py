"""C01 -- forwarded sequence numbers stay gap-free, unique and ordered under drops.

1. TLC, exhaustive: SeqMap.tla (Layer I = packetmap's interval table, Layer P = SeqMonitor) at small
   constants, all arrival/drop histories inside the re-synchronisation window.
2. TLC re-finds the witnesses of the two repaired findings (F9, F12) on the faithful switches
   (the model explains the findings; if it stops doing so the model has drifted).
3. spec -> code: TLC-simulated behaviours + seeded boundary-biased histories are executed on the real
   packetmap.Map (in-package overlay harness) ...
4. code -> spec: ... and the recorded NDJSON trace is validated by Trace_SeqMap at the REAL constants;
   the verdict comes from the Layer-P monitor fed with the logged outcomes only.
5. The same histories through the real rtpDownTrack.Write (composition with rtpconn + codecs), see fwd.py.
"""
import json, os, shutil
import common as C
import fwd

PID = "C01"


def run(tier, replay=None):
    rep = C.Report(PID)
    w = C.scratch("c01-")
    try:
        return _run(rep, w, tier, replay)
    finally:
        shutil.rmtree(w, ignore_errors=True)


def _run(rep, w, tier, replay):
    thorough = tier == "thorough"
    sd = C.seed()
    # 1. exhaustive model check
    r = C.tlc(w, "MC_SeqMap.tla", "MC_SeqMap_small.cfg", workers=C.NCPU, timeout=1200)
    C.must_complete(r, "MC_SeqMap_small")
    rep.model("MC_SeqMap_small (M=16,W=2,MaxEntries=2, all starts, exhaustive)", r, exhaustive=True)
    if r.violated:
        raise C.Inconclusive("the repaired design violates %s in the model (model or fix is wrong)\n%s" % (r.violated, r.out[-3000:]))
    if thorough:
        # (this configuration does not close in an hour on 16 cores: explored breadth-first under a budget, reported as such)
        import cache
        r = cache.model_bounded_time(rep, w, "MC_SeqMap_mid.cfg", "M=32, W=4, MaxEntries=3, edge starts", 1800, module="MC_SeqMap.tla", heap="24g")
        rep.notes.append("MC_SeqMap_mid explored %d distinct states breadth-first in its time budget without a violation" % r.distinct)
    # 2. the faithful switches must still exhibit the repaired findings
    for cfg, name in (("MC_SeqMap_F9.cfg", "F9"), ("MC_SeqMap_F12.cfg", "F12")):
        r = C.tlc(w, "MC_SeqMap.tla", cfg, workers=4, timeout=600)
        rep.model(cfg + " (faithful pre-fix switch; must violate)", r)
        if not r.violated:
            raise C.Inconclusive("model no longer reproduces %s with the fix switched off" % name)
    # 3. behaviours
    num = 300 if thorough else 60
    rs, behs = C.tlc_simulate(w, "Sim_SeqMap.tla", "Sim_SeqMap.cfg", num=num, depth=81, sd=sd, timeout=900)
    seen, uniq = set(), []
    for b in behs:
        k = json.dumps(b["ops"][:-1])
        if k not in seen:
            seen.add(k)
            uniq.append(b)
    corpus = os.path.join(C.VERIF, "corpus", PID)
    if os.path.isdir(corpus):
        for f in sorted(os.listdir(corpus)):
            if f.endswith(".json"):
                uniq += json.load(open(os.path.join(corpus, f)))
    if replay:
        uniq = json.load(open(replay))["replay"]["behaviours"]
    script = os.path.join(w, "behs.json")
    json.dump(uniq, open(script, "w"))
    rep.cov["behaviours_from_tlc"] = len(uniq)
    # 4. real packetmap
    binp = C.go_test_binary(w, "packetmap", "packetmap.test")
    trace = os.path.join(w, "trace_seqmap.ndjson")
    env = dict(C.GOENV)
    env.update({"VERIF_IN": script, "VERIF_OUT": trace, "VERIF_SEED": str(sd),
                "VERIF_N": "0" if replay else ("400" if thorough else "60"),
                "VERIF_LEN": "600" if thorough else "300",
                "VERIF_LONG": "0" if replay else ("6" if thorough else "1"),
                "VERIF_LONGLEN": "140000" if thorough else "70000"})
    rc, out, _ = C.run([binp, "-test.run", "^TestVerifDrive$", "-test.count=1"], cwd=w, env=env, timeout=1200)
    if rc != 0:
        raise C.Inconclusive("packetmap driver failed:\n" + out[-3000:])
    events = C.read_ndjson(trace)
    behs_ev = C.split_behaviours(events)
    v = C.tlc_trace(w, "Trace_SeqMap.tla", "Trace_SeqMap.cfg", trace, "trace_seqmap.ndjson",
                    timeout=3000 if thorough else 900)
    rep.traces(v.nbeh)
    rep.cov["trace_events"] = v.lines
    rep.cases(len(events), len({json.dumps([e.get("off"), e.get("wd"), e.get("res")]) + str(e.get("st", {}).get("n")) for e in events if e.get("ev") == "A"}))
    rep.cov["rule"] = ("one evaluation = one Map/Drop/Reverse call on the real packetmap.Map (events of all behaviours: TLC-simulated at M=64/W=8, "
                       "seeded boundary-biased random histories, long runs across the 16-bit wrap); distinct = distinct (offset, want-drop, outcome, table size) tuples")
    if behs_ev:
        rep.sample({"behaviour_kind": behs_ev[0]["events"][0].get("kind"), "first_events": behs_ev[0]["events"][:8]})
        rep.sample({"behaviour_kind": behs_ev[-1]["events"][0].get("kind"), "first_events": behs_ev[-1]["events"][:6]})
    if v.drift:
        rep.drift("packetmap step differs from Layer I at trace line %d: %s" % (v.drift, json.dumps(events[v.drift - 1])[:300]))
    for (line, nb, clause) in v.bads:
        beh = behs_ev[nb - 1] if 0 < nb <= len(behs_ev) else None
        rel = line - beh["first_line"] if beh else 0
        ops = [[e["off"], e["wd"]] for e in beh["events"][1:rel + 1] if e.get("ev") == "A"] if beh else []
        rep.violation("%s at trace line %d (%s): %s" % (clause, line, "packetmap API level", json.dumps(events[line - 1])[:300]),
                      {"level": "packetmap", "behaviours": [{"start": beh["events"][0]["start"], "ops": ops}] if beh else []})
    # 5. composition through rtpDownTrack.Write
    fwd.run_forward(rep, w, tier, PID, behaviours=uniq, replay=replay)
    rep.assumptions += [
        "arrival histories stay inside the 8192-packet re-synchronisation window (the property's quantifier)",
        "TLC's exhaustive result is for the small constants named in coverage.model_runs; the real constants are covered by trace validation of executed histories",
    ]
    return rep.finish()
