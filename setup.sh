#!/bin/sh
# Build/warm everything the checks need, offline, from files on disk only.
set -e
cd "$(dirname "$0")"
export GOFLAGS=-mod=mod GOPROXY=off GOSUMDB=off GOTOOLCHAIN=local
GO=$(command -v go1.26 || command -v go)
# warm the Go build cache for the packages the harnesses link against
(cd /repo && $GO build ./... >/dev/null 2>&1 || true)
(cd /repo && $GO test -count=1 -run '^$' ./packetmap ./packetcache >/dev/null 2>&1 || true)
if [ -f go/go.mod ]; then
  cp /repo/go.sum go/go.sum
  [ -f go/go.sum.extra ] && cat go/go.sum.extra >> go/go.sum
  (cd go && $GO build ./... >/dev/null 2>&1 || true)
fi
# TLC smoke test (parses one spec)
(cd spec && java -cp /opt/veriftools/tla/tla2tools.jar:/opt/veriftools/tla/CommunityModules-deps.jar tla2sany.SANY SeqMap.tla >/dev/null 2>&1 ) || { echo "SANY failed"; exit 1; }
echo setup ok
