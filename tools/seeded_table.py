#!/usr/bin/env python3
"""regenerate the seeded-change table and its summary paragraph in DESIGN.md §0.5 from seeded/*/meta.json"""
import json, os, glob, re
root = os.path.dirname(os.path.dirname(os.path.abspath(__file__)))
rows = []
for d in sorted(glob.glob(root + '/seeded/*')):
    if not os.path.exists(d + '/meta.json'):
        continue
    m = json.load(open(d + '/meta.json'))
    det = m.get('detected_by', '')
    status = ('NOT detected' if det.startswith('NOT') else 'neutralised by a later fix' if det.startswith('NEUTRALISED')
              else 'detected after strengthening' if ('MISSED' in det or 'after adding' in det or 'after ' in det[:40]) else 'detected as built')
    rows.append('| %s | %s | %s | %s |' % (os.path.basename(d), m.get('needs_to_manifest', '').replace('|', '/'), status, det.replace('|', '/')))
p = root + '/DESIGN.md'
s = open(p).read()
hdr = '| id | needs, to manifest | status | detected by |\n|---|---|---|---|\n'
a = s.index(hdr) + len(hdr)
b = s.index('\n\nOf the ')
tail = s[b:]
end = tail.index('### 0.6')
cnt = lambda k: sum(1 for r in rows if k in r.split('|')[3])
para = ('\n\nOf the %d, %d were detected by the checks as first built, %d were missed (or only partly seen) and drove a\n'
        'strengthening (new scenario, new table row, new observation) after which they are detected in the quick tier,\n'
        '%d is neutralised by a later fix (C07-4: it no longer breaks the property), %d is undetected (C11-3: a dropped moderation\n'
        'command that leaves the server self-consistent, arguably outside the property as stated).  The second round (agents told\n'
        'which mechanisms had been studied) was the more productive one: it led to the genuine findings F27, F28, F29, exposed the\n'
        'print-budget bug of `Trace_Rec` and the masking of one property\'s clause by an earlier failure of another\'s in `Trace_Group` /\n'
        '`Trace_Forward`, and produced the inotify observer of C16, the forced delivery schedules of C14 and the NACK-heavy histories of C03.\n\n'
        % (len(rows), cnt('detected as built'), cnt('after strengthening'), cnt('neutralised'), cnt('NOT detected')))
s = s[:a] + '\n'.join(rows) + para + tail[end:]
s = re.sub(r"\d+ changes, two per property and a second round of two for [^;]*; each",
           "%d changes, two per property and a second round of two for C03, C06, C07, C10, C11, C13, C14, C15, C16, C18 and C20; each" % len(rows), s)
open(p, 'w').write(s)
print(len(rows), cnt('detected as built'), cnt('after strengthening'), cnt('neutralised'), cnt('NOT detected'))
