#!/bin/bash
# usage: confirm_seeded.sh <PROP> <n> <name> [pkgdir]  -- verifies an agent-made mutation in its scratch worktree and, if
# confirmed, stores it as /verif/seeded/<name>/{patch.diff,demo_test.go,meta.json (partial)}
P=$1; N=$2; NAME=$3; PKG=$4
WT=/tmp/mut/$P; OUT=/tmp/mut/out_$P
export GOFLAGS=-mod=mod GOPROXY=off GOSUMDB=off GOTOOLCHAIN=local
cd $WT || exit 9
git checkout -q -- . && git clean -fdq
DEMO=$OUT/zz_demo_${N}_test.go
[ -z "$PKG" ] && PKG=$(grep -m1 '^package ' $DEMO | awk '{print $2}' | sed 's/_test$//')
[ -d "$WT/$PKG" ] || { echo "cannot find package dir for $PKG"; exit 9; }
git apply $OUT/mut$N.diff || { echo "APPLY FAILED"; exit 9; }
go1.26 build ./... || { echo "BUILD FAILED"; git checkout -q -- .; exit 1; }
go1.26 test -vet=off -count=1 ./... > /tmp/confirm_suite.log 2>&1; SUITE=$?
cp $DEMO $WT/$PKG/
go1.26 test -vet=off -count=1 -run 'Demo|Seeded|Late|Interval' ./$PKG > /tmp/confirm_demo_with.log 2>&1; WITH=$?
git checkout -q -- .
go1.26 test -vet=off -count=1 -run 'Demo|Seeded|Late|Interval' ./$PKG > /tmp/confirm_demo_without.log 2>&1; WITHOUT=$?
rm -f $WT/$PKG/zz_demo_${N}_test.go; git clean -fdq
echo "$NAME: suite_with_change=$SUITE (want 0) demo_with=$WITH (want !=0) demo_without=$WITHOUT (want 0)"
if [ $SUITE -eq 0 ] && [ $WITH -ne 0 ] && [ $WITHOUT -eq 0 ]; then
  mkdir -p /verif/seeded/$NAME
  cp $OUT/mut$N.diff /verif/seeded/$NAME/patch.diff
  cp $DEMO /verif/seeded/$NAME/demo_test.go.txt
  cp $OUT/notes$N.md /verif/seeded/$NAME/notes.md
  echo "{\"pkgdir\": \"$PKG\", \"confirmed\": \"suite passes with the change; demo fails with it and passes without it (tools/confirm_seeded.sh, scratch worktree)\"}" > /verif/seeded/$NAME/confirm.json
  echo CONFIRMED
else
  echo NOT-CONFIRMED; tail -5 /tmp/confirm_suite.log /tmp/confirm_demo_with.log /tmp/confirm_demo_without.log
fi
