#!/usr/bin/env python3
"""Regenerates /verif/MANIFEST.json from the table below (kept in one place so that it is always valid)."""
import json, os, subprocess
V = os.path.dirname(os.path.dirname(os.path.abspath(__file__)))
props = [json.loads(l) for l in open(os.path.join(V, "properties.jsonl"))]

TECH = "TLA+ model checking (TLC) + trace validation of real executions"
SIG = 'Signalling.tla (one action per handled websocket message: join/leave/disconnect, chat, moderation, group actions, token creation, with chat history) is checked exhaustively through SigMonitor for 3 clients x 2 groups up to 3 stimuli; TLC-simulated stimulus sequences and regression behaviours are executed against the REAL server (child process, real websockets and HTTP) and the observed messages are judged by the same monitor in Trace_Signalling.'
CLAIMS = {
 "C01": ("model_checking",
         "SeqMap.tla (packetmap's interval table as Layer I, the closed form of the property as Layer P) is checked exhaustively by TLC at small constants over every arrival/drop history inside the re-synchronisation window; executions of the real packetmap.Map and of the real rtpDownTrack.Write on TLC-simulated and boundary-biased histories (incl. >65536-packet runs) are validated step by step by TLC against the same spec at the real constants, the verdict coming from the monitor fed with logged outcomes only.",
         "exhaustive only at M=16/W=2 (the thorough tier explores M=32/W=4 breadth-first for a fixed time budget of 30 min, not to completion); the real constants are covered by validated executions, not exhaustively; pion's transport is replaced by a recording write stream"),
 "C02": ("model_checking",
         "Forward.tla (Write + packetmap + RewritePacket's arithmetic) is checked exhaustively against the C02 monitor (changed-field set, marker rule, picture-id formula) for VP8-like streams under every whole-frame drop pattern; real Write executions on built-from-ground-truth VP8/VP9 packets (7/15-bit ids, CSRCs, all sizes) are parsed with pion's depacketisers, diffed, and validated by TLC at the real constants.",
         "byte diffing is an observation function in Go; picture-id clause judged on in-order histories only; pion's SSRC/PT rewriting is session-level and allowed"),
 "C03": ("model_checking",
         "Forward.tla with late copies and NACK of every outgoing number (Reverse -> cache -> same Write) is checked exhaustively for bounded streams; real gotNACK -> rtpUpTrack.GetPacket -> packetcache -> Write executions are compared with the recorded first transmissions and validated by TLC; the known finding F17 is matched by its signature only.",
         "model bounded to streams of <=7 packets at M=8/W=2; first transmissions recorded by the harness"),
 "C04": ("model_checking",
         "The layer state machine of Forward.tla (Write's bookkeeping, adjustLayer abstracted to up/down/none, limitSid) is checked exhaustively against L1-L6 over all flag sequences for VP8-like (3 temporal) and VP9-like (2 temporal x 3 spatial) streams; real Write/adjustLayer/handleReport/replaceTracks executions are validated by TLC, L7 on the real ceiling value.",
         "Forward.tla interleaves Write / adjustLayer / limitSid atomically; LayerRace.tla splits the two feedback paths at load/store (exhaustive, compare-and-swap stores; the plain-store configuration re-finds the repaired F16) and the interleavings it finds are forced on the real code through hooks; Write's own load..store window and Write racing Write (NACK path) are not forced"),
 "C05": ("model_checking",
         "Cache.tla's ring part (Store/Get/GetAt/Resize/ResizeCond transcribed from packetcache.go) is checked exhaustively -- every store/resize history over a 4-value number space incl. the wrap, capacities 1..3, closes without a length bound -- against the C05 monitor evaluated over every lookup the API offers after every step; TLC-simulated behaviours at the real constants and seeded histories (capacities to 65535, sizes 1..1504) are executed on the real cache and validated by TLC; thorough adds one writer + concurrent readers under the race detector.",
         "byte identity is mapped to content ids by the Go harness; concurrency is covered by the race detector and fidelity checks in the thorough tier, not by the model"),
 "C06": ("model_checking",
         "Cache.tla's accounting part (RFC 3550 counters, 32-bit loss bitmap, the receive loop's NACK decision) is checked against N1-N4/S1-S3: steady streams exhaustively, lossy/late/restart histories breadth-first under a time budget; the faithful switches re-find the repaired findings F20 and F26; real Store/BitmapGet/Expect/GetStats/ToBitmap executions at the real constants are validated by TLC.",
         "API tier: the driver executes the receive loop's arithmetic as transcribed in the spec; end-to-end tier: a scripted pion publisher (gaps, late packets, duplicates, wrap, 1900 packets/s) feeds the real server and hooks at sendNACK / sendNACKs log what the cache holds at the instant a NACK goes upstream (Trace_Nack: N1-N4 on the real readLoop / nackWriter), on 7 streams per quick run"),
 "C10": ("model_checking",
         "Group.tla (one action per critical section of group.go: add/reload+autoLockKick, admission, departure, SetLocked) is checked exhaustively against the admission monitor for 2 operators + 2 non-operators over every description and reload and all interleavings; the faithful switch re-finds the repaired F5 window; the real group package is driven sequentially (TLC-simulated + seeded operation sequences, real description files and reloads), by a forced schedule through the hooks, and by racing goroutines, all recorded in linearisation order by hooks numbered under Group.mu and validated by TLC; sequences include a definition file that is unreadable for a moment while members are present; SigMonitor carries a C10 clause and autolock behaviours (operators demoted at run time, the last one leaving, newcomers) run against the REAL server.",
         "library tier: fake group.Client values stand in for web clients; time-window edges are an hour away from now; the real-server tier covers autolock only"),
 "C13": ("model_checking",
         "Queue.tla (unbounded.Channel, instruction-level) is checked exhaustively (exactly-once/in-order, no lost wake-up, liveness) and EVERY complete interleaving TLC enumerates (2548 for 2x2) is forced on the real Channel through the hook in Put and validated by TLC; Locks.tla (lock/guarded-access sequences of 10 lifecycle operations) is checked for deadlock and lockset discipline over every pair and triple, its faithful switches re-finding F4/F5/F8/F18 and two design switches (kicks under the group lock, live history buffer) showing the deadlock / race they would cause; on the real code the deadlock schedules are forced with gates + watchdog + goroutine dump (incl. the last operator leaving an autokick group with WHIP and recording members), and racing rounds (incl. history readers vs writers) run under the race detector.",
         "data races are decided by Go's race detector on executed rounds; Locks.tla is a hand transcription of the lock sequences (drift is only visible through the forced schedules and the race rounds)"),
 "C16": ("model_checking",
         "Stores.tla (token/stateful.go over an explicit file-system model with editors' tags, an external editor and a crash between any two file-system steps) is checked exhaustively against E1-E4; TLC-simulated and seeded behaviours (library calls, external edits, restarts, a crash at each of the six named points of add()/rewrite() executed in a child process) run on the real token package with an independent reader after every step, plus parallel read-tag/conditional-write editors; Trace_Stores judges.",
         "library level; successive file versions are made distinguishable as the property assumes; process crashes only, no power loss"),
 "C11": ("model_checking", SIG + " C11 clauses: an unauthorised or spoofed stimulus has no effect beyond a refusal to its sender; tokens are created/edited/listed only within the creator's rights and group.",
         "sequential driver with a quiescence barrier after every stimulus; rights are those the server told each client; WHIP is covered by C17"),
 "C12": ("exploration", "Systematic enumeration with the model as the source of the alphabet: every message type/kind of Signalling.tla's alphabet in five membership states with independently ill-typed fields, raw garbage, the regression behaviours of F2/F13/F14, executed against the real server in a child process; a dead process (R1), a request without response (R2), a closed bystander (R3) is a violation.  HTTP and packet-parser tables are added by httpapi.py / rewrite.py.",
         "crash-freedom only for the enumerated and sampled inputs; this is exploration, not proof", "enumeration from the TLA+ alphabet + black-box execution"),
 "C14": ("model_checking", SIG + " C14 clauses: user events only to members, no duplicate add / unknown delete, no cross-group leak, the server's own member list equals what clients were told, and at quiescence every member's view equals the membership with usernames and permissions.",
         "sequential driver plus pipelined behaviours judged at quiescence; the overtaking of two change broadcasts (F15, repaired) is forced on the real server by a delay at a hook"),
 "C15": ("model_checking", SIG + " C15 clauses: source/username authentic, privileged flag = sender is operator, recipients exactly as addressed, noecho, spoof rejected and closes only the offender, history replay to a joiner equals the last <=50 broadcast chats minus what clearchat designated.",
         "history age is not exercised (only the count bound)"),
 "C08": ("model_checking", "Auth.tla's password table (12 960 rows: entry kind x wildcard kind x credential x role x allow-recording x unrestricted-tokens) and hash table (432 rows of administration-tool parameters) are enumerated completely by TLC with the decision the property demands; every row is materialised (real JSON descriptions, real plain/pbkdf2/bcrypt records, galenectl's real makePassword) and decided by the real Description.GetPermission / Password.Match; the rights in the real server's joined messages after any moderation history are judged by SigMonitor (Signalling.tla, exhaustive at 3 stimuli) against the same role table.",
         "hash strength out of scope; cheap hash parameters; malformed records judged only as 'never authorise'"),
 "C09": ("model_checking", "Auth.tla's stateful-token table (scope over path components incl. root and the global-administrator question, window at far/near instants, username rules) and signed-token table (key sets with HS256/HS384/ES256 with/without kid, foreign signer, HMAC keyed with a public key, alg none, kid header, expiry, audience path/host with/without canonicalHost) are enumerated completely by TLC; every row is materialised (token.Update into a real token file; JWTs freshly signed with golang-jwt) and decided by the real token.Parse(...).Check / GetPermission.",
         "golang-jwt trusted; near-edge instants are 3 s away; RS256 not in the table"),
 "C17": ("model_checking", "AdminAPI.tla (the router of webserver/api.go as a decision table: 8 methods x 18 endpoint shapes x 13 credential kinds, with the scope invariants) is enumerated completely by TLC; every row is sent as a real HTTP request to the real server (child process, group files full of sentinel secrets, real token file) and Trace_Http checks the row's status class, that a refused or preflight request changed nothing on disk, that no response contains a sentinel password/hash/salt/key, and over seeded update sequences that every stored part a request does not address is unchanged.",
         "fixture content rather than arbitrary group content; sentinel detection is textual; JWT administrator tokens covered by C09 at library level"),
 "C18": ("model_checking", "Defs.tla (handler part: stat + checkPreconditions without lock; library part under groups.mu: re-read, compare, CreateTemp, encode+fsync, rename; lock-free readers; crash anywhere) is checked exhaustively for 3 editors up to 4 versions against X1/X1b/X3, the faithful switch re-finding the repaired F21; seeded optimistic-concurrency sequences (every If-Match/If-None-Match form with current and stale tags on groups, users, passwords, keys, wildcard user; 2-6 racing writers with one tag) a crash at each of the five steps of rewriteDescriptionFile (rewriting a group, a user, a password, and creating a group) and a write error / kill in the middle of a write (file-size limit of the server child: 1, 64, 700 bytes) run against the real server, Trace_Http deciding from the observed (size, mtime) versions alone.",
         "racing writers are scheduled by the runtime, not a controlled scheduler; process crashes only"),
 "C19": ("model_checking", "Paths.tla (path.Clean, validGroupName, validUsername, parseGroupName, getDescriptionFile's file name, the recordings delete target as operators over component sequences, against the property's closed form and 'resolution never climbs above the root') is checked by TLC on every name of up to 3 components over 7 component kinds, the faithful switch re-finding the repaired F22; the real validators, parser, description functions and openDiskFile run on every table row, hand-written escapes and seeded hostile strings inside a scratch tree with sentinels next to the configured directories (tree compared before/after every call), and raw HTTP traversal attempts on the static, group, API, recordings and delete-form routes plus websocket joins under bad names run against the real server with every directory digested after every request; Trace_Paths judges.",
         "Linux separator semantics; no symbolic links planted; recorder file names judged at openDiskFile"),
 "C20": ("model_checking", "Recorder.tla / RecOps.tla (per packet: written, cache-only, held and released inside the reorder window, lost, duplicated; Write's gap detection and fetch as Layer I; 'only complete sent frames, each once, in order; nothing lost => every complete frame from the first complete keyframe on' as Layer P) enumerates EVERY history of a 6-packet video stream and a 6-frame audio stream with design checks; every enumerated history and seeded long ones (to 900 packets, seqno and 32-bit timestamp wrap, audio+video with sender reports, stop vs departure) run on the REAL diskwriter.Client via PushConn with a fake publisher and cache; the WebM files are parsed back with ebml-go and Trace_Rec replays the logged operations through RecOps and judges R1-R6; K1 (dependency) is matched by its signature only.",
         "VP8/Opus payloads only (key frames of two sizes: a change of dimensions starts a new file); shared origin judged only with sender reports; keyframe flag not judged; after an unrecoverable loss R4 is demanded again from the next complete keyframe that follows the loss"),
 "C07": ("model_checking", "Streams.tla (one action per client stimulus -- join, leave, request, requestStream, publish with 1-3 tracks and optional replace, unpublish, abort -- with the server's reaction from pushConnNow/pushDownConn/requestedTracks/closeDownConn as Layer I) folds every reaction through StrMonitor (offers only to joined members of the publisher's group, with the publisher's id/username/label and exactly the tracks the request selects; closes only for ended / unrequested / aborted streams; another client's abort or request touches nobody else; at quiescence offered <=> requested and nothing held of an ended stream); TLC checks exhaustively for 3 clients x 2 groups x 2 stream ids that the monitor never objects to the design and that the design meets the quiescent equalities; TLC-simulated stimulus sequences and hand-written behaviours (every way a stream can end, late joiners, per-stream requests, abort, a non-answering subscriber, another group) run against the REAL server with real pion publishers and subscribers, judged by the same monitor (Trace_Streams).",
         "sequential driver with quiescence (statistics stable + pings) after every stimulus, plus pipelined behaviours (join + request while a publication starts) judged at quiescence only; partial offers tolerated until a publication is complete"),
}
REASON_DEFAULT = "check under construction (not yet registered); see DESIGN.md section 5"
NA = {}

man = {
 "version": 1,
 "setup_cmd": "./setup.sh",
 "hooks": {"guard": "verif",
           "enable": "go build/test -tags verif; white-box harness files are compiled into /repo packages with `go test -overlay` from /verif/go/overlay (zero footprint in /repo)",
           "baseline_off_cmd": "cd /repo && go test -vet=off -count=1 ./...",
           "source_commits": [], "add_only": True},
 "engines": [{"name": "tlc", "path": "/verif/spec", "serves_properties": sorted(CLAIMS),
              "kind_free_text": "explicit TLA+ specifications checked with TLC: exhaustive model checking at small constants, -simulate behaviour generation, trace validation of recorded executions of the real code"}],
 "checks": [], "not_applicable": [],
 "notes": "DESIGN.md explains the approach; known_findings.json lists genuine defects (fixed ones suppress nothing).",
}
hooks_file = os.path.join(V, "hook_commits.txt")
if os.path.exists(hooks_file):
    man["hooks"]["source_commits"] = [l.split()[0] for l in open(hooks_file) if l.strip()]
for p in props:
    pid = p["id"]
    if pid in CLAIMS:
        cat, text, note = CLAIMS[pid][:3]
        man["checks"].append({
            "property_id": pid, "quick_cmd": "./check %s --tier quick" % pid,
            "thorough_cmd": "./check %s --tier thorough" % pid,
            "evidence_file": "/verif/evidence/%s.json" % pid,
            "replay_cmd_template": "./check %s --replay {path}" % pid, "engine": "tlc",
            "level_claimed": {"category": cat, "text": text, "design_ref": "DESIGN.md section 5, %s" % pid},
            "level_note": note, "technique": CLAIMS[pid][3] if len(CLAIMS[pid]) > 3 else TECH})
    else:
        man["not_applicable"].append({"property_id": pid, "reason": NA.get(pid, REASON_DEFAULT)})
json.dump(man, open(os.path.join(V, "MANIFEST.json"), "w"), indent=1)
print("claimed:", sorted(CLAIMS))
