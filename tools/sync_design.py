#!/usr/bin/env python3
"""copy every claim's text and limits from MANIFEST.json into the 'As built' note of its section in DESIGN.md"""
import json, re, os
root = os.path.dirname(os.path.dirname(os.path.abspath(__file__)))
man = json.load(open(root + '/MANIFEST.json'))
props = {p['property_id']: p for p in man['checks']}
lines = open(root + '/DESIGN.md').read().split('\n')
cur, n = None, 0
for i, l in enumerate(lines):
    m = re.match(r'### (C\d\d) ', l)
    if m:
        cur = m.group(1)
    if l.startswith('> **As built**') and cur:
        p = props[cur]
        new = '> **As built** (what the registered check does today; the plan below is kept as rationale): %s  *Limits:* %s' % (p['level_claimed']['text'], p['level_note'])
        n += new != l
        lines[i] = new
open(root + '/DESIGN.md', 'w').write('\n'.join(lines))
print(n, 'updated')
