#!/usr/bin/env python3
"""debug helper: run corpus behaviours whose name starts with argv[1] against the real server and validate"""
import sys, json, os
import os as _o; _r = _o.path.dirname(_o.path.dirname(_o.path.abspath(__file__))); sys.path.insert(0, _r + '/lib'); sys.path.insert(0, _r + '/checks')
import common as C, sig
w = C.scratch('dbg-')
behs = [b for b in sig.corpus() if b['name'].startswith(sys.argv[1])]
if len(sys.argv) > 2:
    behs = json.load(open(sys.argv[2]))["replay"]["behaviours"]
json.dump(behs, open(w + '/s.json', 'w'))
binp = C.go_build(w, "./cmd/srvdrive", "srvdrive")
env = dict(C.GOENV); env.update({"VERIF_IN": w + '/s.json', "VERIF_OUT": w + '/t.ndjson'})
print("driver exit", C.run([binp], cwd=w, env=env, timeout=600)[0])
ev = C.read_ndjson(w + '/t.ndjson')
sig.annotate(ev, behs)
open(w + '/t2.ndjson', 'w').write("\n".join(json.dumps(e) for e in ev) + "\n")
v = C.tlc_trace(w, "Trace_Signalling.tla", "Trace_Signalling.cfg", w + '/t2.ndjson', "trace_signalling.ndjson")
print("lines", v.lines, "bads", v.bads)
for (l, nb, c) in v.bads[:5]:
    for e in ev[max(0, l - 6):l]:
        m = e.get('m', {})
        print("   ", e['ev'], e.get('c', ''), m.get('type', ''), m.get('kind', ''), m.get('id', ''), m.get('source', ''), m.get('value', '')[:30], m.get('perms', ''), m.get('dest', ''))
print(w)
