#!/bin/sh
# usage: try_mutation.sh <patch.diff> <PID> [tier]  -- applies to /repo, runs the check, reverts
D="$1"; P="$2"; T="${3:-quick}"
cd /repo || exit 9
git apply "$D" || { echo "APPLY FAILED"; exit 9; }
cd /verif && VERIF_SEED=${VERIF_SEED:-1} ./check "$P" --tier "$T" > /tmp/try_$P.log 2>&1
rc=$?
git -C /repo checkout -- . 
echo "check $P on $(basename $(dirname $D))/$(basename $D): exit=$rc"
grep -E "^(VIOLATION|KNOWN-FINDING|INCONCLUSIVE|MODEL-DRIFT)|what:" /tmp/try_$P.log | cut -c1-330 | head -6
