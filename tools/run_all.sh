#!/bin/bash
# runs every registered check's quick (or $1) tier one after the other; prints one line per property
T=${1:-quick}
cd "$(dirname "$0")/.."
for i in $(seq -w 1 20); do
  p=C$i
  s=$(date +%s)
  ./check $p --tier $T > /tmp/runall_$p.log 2>&1
  rc=$?
  echo "$p exit=$rc violations=$(grep -c '^VIOLATION' /tmp/runall_$p.log) known=$(grep -c '^KNOWN-FINDING' /tmp/runall_$p.log) $(grep -m1 '^INCONCLUSIVE' /tmp/runall_$p.log | cut -c1-160) $(( $(date +%s) - s ))s"
done
