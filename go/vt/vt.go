// Package vt: trace/script plumbing shared by the /verif public-API drivers.
package vt

import (
	"bufio"
	"encoding/json"
	"os"
	"strconv"
)

type Trace struct {
	f *os.File
	w *bufio.Writer
	N int
}

func OpenTrace() *Trace {
	p := os.Getenv("VERIF_OUT")
	if p == "" {
		p = os.DevNull
	}
	f, err := os.Create(p)
	if err != nil {
		panic(err)
	}
	return &Trace{f: f, w: bufio.NewWriterSize(f, 1<<20)}
}

func (t *Trace) Emit(v any) {
	b, err := json.Marshal(v)
	if err != nil {
		panic(err)
	}
	t.w.Write(b)
	t.w.WriteByte('\n')
	t.N++
}

func (t *Trace) Close() {
	t.w.Flush()
	t.f.Close()
}

func Script(v any) bool {
	p := os.Getenv("VERIF_IN")
	if p == "" {
		return false
	}
	b, err := os.ReadFile(p)
	if err != nil {
		panic(err)
	}
	if err := json.Unmarshal(b, v); err != nil {
		panic(err)
	}
	return true
}

func EnvInt(name string, def int) int {
	s := os.Getenv(name)
	if s == "" {
		return def
	}
	n, err := strconv.Atoi(s)
	if err != nil {
		return def
	}
	return n
}

func B(b bool) int {
	if b {
		return 1
	}
	return 0
}
