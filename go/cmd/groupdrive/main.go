//go:build verif

// groupdrive: drives the REAL group package (and the real rtpconn.WhipClient) for C10 and the
// lifecycle part of C13.
//
//	VERIF_MODE=seq      sequential replay of TLC behaviours of Group.tla + seeded ones (C10)
//	VERIF_MODE=conc     racing joins/leaves/lock changes with randomised yields at the hooks (C10, C13)
//	VERIF_MODE=witness  forced lock-order schedules and self-deadlock scenarios with a watchdog (C13)
//
// Events are numbered by one atomic counter; the events of the group's critical sections are emitted
// by the hooks while Group.mu is held, so their order is the linearisation order.
package main

import (
	"bytes"
	"encoding/json"
	"fmt"
	"math/rand"
	"net"
	"os"
	"path/filepath"
	"runtime"
	"sort"
	"strings"
	"sync"
	"sync/atomic"
	"time"

	"github.com/jech/galene/conn"
	"github.com/jech/galene/diskwriter"
	"github.com/jech/galene/group"
	"github.com/jech/galene/rtpconn"
	"github.com/jech/galene/verifhook"

	"verif/vt"
)

type cfgT struct {
	Max      int    `json:"max"`
	Autolock bool   `json:"autolock"`
	Autokick bool   `json:"autokick"`
	Window   string `json:"window"`
}

type beh struct {
	Cfg cfgT    `json:"cfg"`
	Ops [][]any `json:"ops"`
}

var (
	seq    atomic.Int64
	evMu   sync.Mutex
	events []map[string]any
	dir    string
	gcount int
)

func emit(ev map[string]any) {
	ev["seq"] = seq.Add(1)
	evMu.Lock()
	events = append(events, ev)
	evMu.Unlock()
}

func flush(tr *vt.Trace) {
	evMu.Lock()
	sort.Slice(events, func(i, j int) bool { return events[i]["seq"].(int64) < events[j]["seq"].(int64) })
	for _, e := range events {
		tr.Emit(e)
	}
	events = nil
	evMu.Unlock()
}

// ------------------------------------------------------------------ fake web client

type fake struct {
	id       string
	mu       sync.Mutex
	username string
	perms    []string
	g        *group.Group
	kicked   atomic.Bool
	view     map[string]bool // users this client believes are in its group (from add / delete events)
	blk      func(point string) // forced schedules: called on entry of Joined / PushClient (a goroutine may be preempted there)
	dupAdd   int
	badDel   int
}

func (c *fake) Group() *group.Group { c.mu.Lock(); defer c.mu.Unlock(); return c.g }
func (c *fake) setGroup(g *group.Group) {
	c.mu.Lock()
	c.g = g
	c.mu.Unlock()
}
func (c *fake) Addr() net.Addr   { return nil }
func (c *fake) Id() string       { return c.id }
func (c *fake) Username() string { c.mu.Lock(); defer c.mu.Unlock(); return c.username }
func (c *fake) Init(u string, p []string) {
	c.mu.Lock()
	c.username, c.perms = u, p
	c.mu.Unlock()
}
func (c *fake) Permissions() []string        { c.mu.Lock(); defer c.mu.Unlock(); return c.perms }
func (c *fake) Data() map[string]interface{} { return nil }
func (c *fake) PushConn(g *group.Group, id string, up conn.Up, tracks []conn.UpTrack, replace string) error {
	return nil
}
func (c *fake) RequestConns(target group.Client, g *group.Group, id string) error { return nil }
func (c *fake) Joined(g, kind string) error {
	if c.blk != nil {
		c.blk("joined:" + kind)
	}
	return nil
}
func (c *fake) PushClient(g, kind, id, username string, perms []string, data map[string]interface{}) error {
	if c.blk != nil {
		c.blk(kind + ":" + id)
	}
	c.mu.Lock()
	if c.view == nil {
		c.view = map[string]bool{}
	}
	switch kind {
	case "add":
		if c.view[id] {
			c.dupAdd++
		}
		c.view[id] = true
	case "delete":
		if !c.view[id] {
			c.badDel++
		}
		delete(c.view, id)
	}
	c.mu.Unlock()
	if (kind == "add" || kind == "delete") && g == *groupName.Load() {
		emit(map[string]any{"ev": "announce", "to": c.id, "kind": kind, "id": id})
	}
	return nil
}
func (c *fake) Kick(id string, user *string, message string) error {
	c.kicked.Store(true)
	return nil
}

// ------------------------------------------------------------------ group files

func writeGroup(name string, c cfgT, pad int) {
	d := map[string]any{
		"users": map[string]any{
			"o1": map[string]any{"password": "p", "permissions": "op"},
			"o2": map[string]any{"password": "p", "permissions": "op"},
			"o3": map[string]any{"password": "p", "permissions": "op"},
			"w1": map[string]any{"password": "p", "permissions": "present"},
		},
		"wildcard-user": map[string]any{"password": "p", "permissions": "present"},
		"comment":       strings.Repeat("x", pad),
	}
	if c.Max > 0 {
		d["max-clients"] = c.Max
	}
	if c.Autolock {
		d["autolock"] = true
	}
	if c.Autokick {
		d["autokick"] = true
	}
	switch c.Window {
	case "before":
		d["not-before"] = time.Now().Add(time.Hour)
	case "expired":
		d["expires"] = time.Now().Add(-time.Hour)
	default:
		d["not-before"] = time.Now().Add(-time.Hour)
		d["expires"] = time.Now().Add(time.Hour)
	}
	b, _ := json.Marshal(d)
	tmp := filepath.Join(dir, name+".json.tmp")
	os.WriteFile(tmp, b, 0600)
	os.Rename(tmp, filepath.Join(dir, name+".json"))
}

func isOp(id string) bool { return strings.HasPrefix(id, "o") }

func cfgJSON(c cfgT) map[string]any {
	return map[string]any{"max": c.Max, "autolock": c.Autolock, "autokick": c.Autokick, "window": c.Window}
}

// ------------------------------------------------------------------ hooks

var (
	yieldRnd  *rand.Rand
	yieldMu   sync.Mutex
	yieldOn   atomic.Bool
	gateFn    atomic.Pointer[func(point string, args ...any)]
	curGroup  atomic.Pointer[group.Group]
	groupName atomic.Pointer[string]
)

func hook(point string, args ...any) {
	switch point {
	case "group.AddClient.admitted":
		g := args[0].(*group.Group)
		if g.Name() == *groupName.Load() {
			c := args[1].(group.Client)
			emit(map[string]any{"ev": "admit", "c": c.Id(), "op": vt.B(isOp(c.Id())), "n": args[2].(int), "locked": vt.B(args[3].(bool))})
		}
	case "group.DelClient.locked":
		g := args[0].(*group.Group)
		if g.Name() == *groupName.Load() {
			emit(map[string]any{"ev": "leave", "c": args[1].(group.Client).Id(), "n": args[2].(int)})
		}
	case "group.SetLocked.locked":
		g := args[0].(*group.Group)
		if g.Name() == *groupName.Load() {
			emit(map[string]any{"ev": "lock", "b": vt.B(args[1].(bool))})
		}
	case "group.autoLockKick.locked":
		g := args[0].(*group.Group)
		if g.Name() == *groupName.Load() {
			emit(map[string]any{"ev": "lock", "b": 1, "auto": 1})
		}
	}
	if f := gateFn.Load(); f != nil {
		(*f)(point, args...)
	}
	if yieldOn.Load() && point == "group.DelClient.unlocked" {
		// the point between the two halves of a departure: always give others a chance here
		time.Sleep(150 * time.Microsecond)
	}
	if yieldOn.Load() {
		yieldMu.Lock()
		x := yieldRnd.Intn(10)
		yieldMu.Unlock()
		switch {
		case x < 4:
			runtime.Gosched()
		case x < 6:
			time.Sleep(time.Duration(50+x*40) * time.Microsecond)
		}
	}
}

func pw() group.ClientCredentials {
	return group.ClientCredentials{Password: "p"}
}

func join(name string, c *fake) error {
	u := c.id
	cr := pw()
	cr.Username = &u
	g, err := group.AddClient(name, c, cr)
	if err != nil {
		dup := strings.Contains(err.Error(), "duplicate")
		emit(map[string]any{"ev": "refuse", "c": c.id, "op": vt.B(isOp(c.id)), "dup": vt.B(dup), "err": err.Error()})
		return err
	}
	c.setGroup(g)
	return nil
}

func leave(c *fake) {
	if c.Group() == nil {
		return
	}
	group.DelClient(c)
	c.setGroup(nil)
	c.kicked.Store(false)
	c.mu.Lock()
	c.view = nil
	c.mu.Unlock()
}

func members(name string) []string {
	g := group.Get(name)
	out := []string{}
	if g != nil {
		for _, c := range g.GetClients(nil) {
			out = append(out, c.Id())
		}
	}
	sort.Strings(out)
	return out
}

func newGroup(c cfgT, kind string) string {
	gcount++
	name := fmt.Sprintf("g%d", gcount)
	groupName.Store(&name)
	writeGroup(name, c, 0)
	emit(map[string]any{"ev": "New", "cfg": cfgJSON(c), "kind": kind, "group": name})
	return name
}

// ------------------------------------------------------------------ sequential replay

func runSeq(tr *vt.Trace, b beh, kind string) {
	name := newGroup(b.Cfg, kind)
	cl := map[string]*fake{}
	get := func(id string) *fake {
		if cl[id] == nil {
			cl[id] = &fake{id: id}
		}
		return cl[id]
	}
	pad := 0
	cur := b.Cfg
	settleKicks := func() {
		// autokick runs in a detached goroutine: give it a moment, then let the kicked clients leave
		time.Sleep(300 * time.Microsecond)
		runtime.Gosched()
		ids := []string{}
		for id := range cl {
			ids = append(ids, id)
		}
		sort.Strings(ids)
		for _, id := range ids {
			if cl[id].kicked.Load() && cl[id].Group() != nil {
				leave(cl[id])
			}
		}
	}
	for _, op := range b.Ops {
		switch op[0].(string) {
		case "join":
			c := get(op[1].(string))
			if c.Group() != nil {
				// a second connection with the same id
				d := &fake{id: c.id}
				join(name, d)
			} else {
				join(name, c)
			}
		case "leave":
			leave(get(op[1].(string)))
		case "lock":
			g := group.Get(name)
			if g != nil {
				g.SetLocked(op[1].(float64) != 0, "")
			}
		case "edit":
			var c cfgT
			bs, _ := json.Marshal(op[1])
			json.Unmarshal(bs, &c)
			pad++
			cur = c
			writeGroup(name, c, pad)
			emit(map[string]any{"ev": "edit", "cfg": cfgJSON(c)})
		case "glitch":
			// the definition file is unreadable for a moment (an editor saving it, a full disk): a join attempt and a reload
			// happen meanwhile, then the same definition is back.  Nothing may have changed for the members.
			// (An EMPTY group may be forgotten at any time, and its manual lock with it: only groups with members are glitched.)
			if len(members(name)) == 0 {
				break
			}
			os.WriteFile(filepath.Join(dir, name+".json"), []byte("{ this is not JSON"), 0600)
			d := &fake{id: op[1].(string) + "x"}
			cr := pw()
			u := d.id
			cr.Username = &u
			if g, err := group.AddClient(name, d, cr); err == nil {
				d.setGroup(g)
				group.DelClient(d)
			}
			group.Update()
			pad++
			writeGroup(name, cur, pad)
		}
		settleKicks()
	}
	emit(map[string]any{"ev": "members", "m": members(name)})
	for _, c := range cl {
		leave(c)
	}
	flush(tr)
}

func randomSeq(r *rand.Rand) beh {
	c := cfgT{Max: r.Intn(4), Autolock: r.Intn(2) == 0, Autokick: r.Intn(3) == 0, Window: []string{"open", "open", "open", "before", "expired"}[r.Intn(5)]}
	ids := []string{"o1", "o2", "u1", "u2", "u3", "u4"}
	var ops [][]any
	for i := 0; i < 30; i++ {
		switch r.Intn(10) {
		case 0, 1, 2, 3:
			ops = append(ops, []any{"join", ids[r.Intn(len(ids))]})
		case 4, 5, 6:
			ops = append(ops, []any{"leave", ids[r.Intn(len(ids))]})
		case 7:
			ops = append(ops, []any{"lock", float64(r.Intn(2))})
		case 9:
			if r.Intn(2) == 0 {
				ops = append(ops, []any{"glitch", ids[r.Intn(len(ids))]})
			}
		case 8:
			nc := cfgT{Max: r.Intn(4), Autolock: r.Intn(2) == 0, Autokick: r.Intn(3) == 0, Window: []string{"open", "open", "before", "expired"}[r.Intn(4)]}
			ops = append(ops, []any{"edit", cfgJSON(nc)})
		}
	}
	return beh{Cfg: c, Ops: ops}
}

// schedule found by TLC on Group.tla with Fixed_F5 = FALSE: the last operator of an autolock group
// leaves; between the removal of the member and the re-evaluation of the automatic lock a
// non-operator joins.  The departure is parked at the hook after the group's lock is released.
func windowSchedule(tr *vt.Trace, autokick bool) {
	name := newGroup(cfgT{Autolock: !autokick, Autokick: autokick, Window: "open"}, "forced-departure-window")
	o := &fake{id: "o1"}
	u := &fake{id: "u1"}
	u2 := &fake{id: "u2"}
	join(name, o)
	if g := group.Get(name); g != nil {
		g.SetLocked(false, "")
	}
	join(name, u2)
	// the joiner has finished add() (description reload + automatic lock) and is about to take the
	// group's lock for the admission itself
	joinAt := make(chan struct{})
	joinGo := make(chan struct{})
	leaveAt := make(chan struct{})
	leaveGo := make(chan struct{})
	var once1, once2 sync.Once
	f := func(point string, args ...any) {
		if point == "group.AddClient.added" && args[1].(group.Client).Id() == "u1" {
			once1.Do(func() { close(joinAt); <-joinGo })
		}
		if point == "group.DelClient.unlocked" && args[1].(group.Client).Id() == "o1" {
			once2.Do(func() { close(leaveAt); <-leaveGo })
		}
	}
	gateFn.Store(&f)
	jdone := make(chan struct{})
	ldone := make(chan struct{})
	go func() { join(name, u); close(jdone) }()
	<-joinAt
	go func() { leave(o); close(ldone) }()
	<-leaveAt
	close(joinGo)
	<-jdone
	close(leaveGo)
	<-ldone
	gateFn.Store(nil)
	time.Sleep(300 * time.Microsecond)
	emit(map[string]any{"ev": "members", "m": members(name)})
	leave(u)
	leave(u2)
	flush(tr)
}

// ------------------------------------------------------------------ concurrent rounds

func runConc(tr *vt.Trace, r *rand.Rand, round int) {
	c := cfgT{Max: 1 + r.Intn(3), Autolock: r.Intn(2) == 0, Autokick: false, Window: "open"}
	if r.Intn(4) == 0 {
		c.Max = 0
	}
	name := newGroup(c, "conc")
	var wg sync.WaitGroup
	yieldOn.Store(true)
	nUsers := 3 + r.Intn(4)
	seeds := make([]int64, nUsers+2)
	for i := range seeds {
		seeds[i] = r.Int63()
	}
	// an operator that comes and goes and locks/unlocks while present
	wg.Add(1)
	go func() {
		defer wg.Done()
		rr := rand.New(rand.NewSource(seeds[0]))
		o := &fake{id: "o1"}
		for i := 0; i < 10; i++ {
			if join(name, o) == nil {
				if rr.Intn(2) == 0 {
					if g := group.Get(name); g != nil {
						g.SetLocked(rr.Intn(2) == 0, "")
					}
				}
				if c.Autolock && rr.Intn(2) == 0 {
					if g := group.Get(name); g != nil {
						g.SetLocked(false, "")
					}
				}
				runtime.Gosched()
				leave(o)
			}
		}
	}()
	for u := 0; u < nUsers; u++ {
		wg.Add(1)
		go func(u int) {
			defer wg.Done()
			rr := rand.New(rand.NewSource(seeds[u+1]))
			cl := &fake{id: fmt.Sprintf("u%d", u+1)}
			for i := 0; i < 20; i++ {
				if join(name, cl) == nil {
					if rr.Intn(3) > 0 {
						runtime.Gosched()
					}
					leave(cl)
				}
			}
		}(u)
	}
	// statistics / description readers (C13: these must not race with membership changes)
	stop := make(chan struct{})
	var rg sync.WaitGroup
	rg.Add(1)
	go func() {
		defer rg.Done()
		for {
			select {
			case <-stop:
				return
			default:
			}
			if g := group.Get(name); g != nil {
				g.GetClients(nil)
				g.Locked()
				g.ClientCount()
				g.GetChatHistory()
			}
			group.GetDescription(name)
			group.GetSubGroups("")
			runtime.Gosched()
		}
	}()
	// the administrator touches the description file (same settings, new file version) and the
	// server reloads it
	rg.Add(1)
	go func() {
		defer rg.Done()
		pad := 0
		for {
			select {
			case <-stop:
				return
			default:
			}
			pad++
			writeGroup(name, c, pad%50)
			group.Add(name, nil)
			time.Sleep(200 * time.Microsecond)
		}
	}()
	wg.Wait()
	close(stop)
	rg.Wait()
	// C14: a last wave of simultaneous joins and departures (capacity lifted), then, at quiescence, every
	// remaining member's view -- built from the add / delete events it was sent -- must be the membership
	writeGroup(name, cfgT{Window: "open"}, 77)
	emit(map[string]any{"ev": "edit", "cfg": cfgJSON(cfgT{Window: "open"})})
	group.Add(name, nil)
	stay := []*fake{}
	var w2 sync.WaitGroup
	var smu sync.Mutex
	for u := 0; u < 9; u++ {
		w2.Add(1)
		go func(u int) {
			defer w2.Done()
			cl := &fake{id: fmt.Sprintf("v%d", u+1)}
			if join(name, cl) == nil {
				if u%3 == 2 {
					// comes back as a new client (the property is about clients with distinct ids)
					leave(cl)
					cl = &fake{id: fmt.Sprintf("v%db", u+1)}
					if join(name, cl) != nil {
						return
					}
				}
				smu.Lock()
				stay = append(stay, cl)
				smu.Unlock()
			}
		}(u)
	}
	w2.Wait()
	yieldOn.Store(false)
	ms := members(name)
	wrong := []string{}
	for _, cl := range stay {
		cl.mu.Lock()
		v := []string{}
		for id := range cl.view {
			v = append(v, id)
		}
		sort.Strings(v)
		if strings.Join(v, ",") != strings.Join(ms, ",") || cl.dupAdd > 0 || cl.badDel > 0 {
			wrong = append(wrong, fmt.Sprintf("%s sees [%s] dupAdd=%d badDel=%d", cl.id, strings.Join(v, ","), cl.dupAdd, cl.badDel))
		}
		cl.mu.Unlock()
	}
	emit(map[string]any{"ev": "views", "members": ms, "wrong": wrong})
	emit(map[string]any{"ev": "members", "m": ms})
	for _, cl := range stay {
		leave(cl)
	}
	flush(tr)
}

// forcedViews: C14 under forced schedules.  The goroutine that delivers membership events is stopped at one delivery
// (a fake client's callback blocks: a goroutine may be preempted anywhere) while another lifecycle operation runs to
// completion -- or for 250 ms when the code under test makes that operation wait for the first one; afterwards every
// remaining member's view must equal the membership.  Every pair (delivery point, concurrent operation) of the table.
func forcedViews(tr *vt.Trace) {
	type scen struct{ who, point, primary, other string }
	var scens []scen
	for _, other := range []string{"leave:u2", "leave:u1", "leave:u4", "join:u9", "leave:self"} {
		for _, pp := range [][3]string{
			{"u8", "joined:join", "join:u8"}, {"u8", "add:u2", "join:u8"}, {"u8", "add:u4", "join:u8"},
			{"u1", "add:u8", "join:u8"}, {"u3", "add:u8", "join:u8"},
			{"u1", "delete:u5", "leave:u5"}, {"u3", "delete:u5", "leave:u5"}, {"u4", "delete:u5", "leave:u5"},
		} {
			o := other
			if o == "leave:self" {
				if pp[0] == "u8" {
					continue // the newcomer cannot leave before its join has returned
				}
				o = "leave:" + pp[0]
			}
			scens = append(scens, scen{pp[0], pp[1], pp[2], o})
		}
	}
	for _, sc := range scens {
		name := newGroup(cfgT{Window: "open"}, "forced-views")
		cl := map[string]*fake{}
		for _, id := range []string{"u1", "u2", "u3", "u4", "u5", "u8", "u9"} {
			cl[id] = &fake{id: id}
		}
		for _, id := range []string{"u1", "u2", "u3", "u4", "u5"} {
			join(name, cl[id])
		}
		do := func(op string) {
			k, id, _ := strings.Cut(op, ":")
			if k == "join" {
				join(name, cl[id])
			} else {
				leave(cl[id])
			}
		}
		otherDone := make(chan struct{})
		var once sync.Once
		reached := false
		cl[sc.who].blk = func(point string) {
			if point != sc.point {
				return
			}
			once.Do(func() {
				reached = true
				go func() { do(sc.other); close(otherDone) }()
				select {
				case <-otherDone:
				case <-time.After(250 * time.Millisecond):
				}
			})
		}
		ok := within(10*time.Second, func() {
			do(sc.primary)
			if reached {
				<-otherDone
			}
		})
		if !ok {
			st := allStacks()
			emit(map[string]any{"ev": "witness", "name": "forced_views_never_finished", "completed": 0,
				"mutex_blocked": mutexBlocked(st), "close_blocked": 0, "add_blocked": vt.B(blockedInMutex(st, "group.AddClient"))})
			flush(tr)
			tr.Close()
			os.Exit(0)
		}
		ms := members(name)
		wrong := []string{}
		for _, id := range ms {
			c := cl[id]
			if c == nil {
				continue
			}
			c.mu.Lock()
			v := []string{}
			for x := range c.view {
				v = append(v, x)
			}
			sort.Strings(v)
			if strings.Join(v, ",") != strings.Join(ms, ",") || c.dupAdd > 0 || c.badDel > 0 {
				wrong = append(wrong, fmt.Sprintf("%s sees [%s] dupAdd=%d badDel=%d", c.id, strings.Join(v, ","), c.dupAdd, c.badDel))
			}
			c.mu.Unlock()
		}
		emit(map[string]any{"ev": "views", "members": ms, "wrong": wrong, "forced": fmt.Sprintf("%s stopped at %s of %s while %s", sc.who, sc.point, sc.primary, sc.other), "reached": vt.B(reached)})
		emit(map[string]any{"ev": "members", "m": ms})
		for _, id := range ms {
			if cl[id] != nil {
				cl[id].blk = nil
				leave(cl[id])
			}
		}
		flush(tr)
	}
}

// counts goroutines of the code under test that are blocked acquiring a mutex
func mutexBlocked(stacks string) int {
	n := 0
	for _, g := range strings.Split(stacks, "\n\n") {
		if strings.Contains(g, "github.com/jech/galene/") &&
			(strings.Contains(g, "sync.(*Mutex).Lock") || strings.Contains(g, "sync.(*Mutex).lockSlow") ||
				strings.Contains(g, "sync.(*RWMutex).")) {
			n++
		}
	}
	return n
}

// idle groups that are due for expiry (max-history-age of one second, no clients) while
// group.Update runs concurrently with joins to those very groups, statistics and listings
func expiryStorm(tr *vt.Trace, r *rand.Rand) {
	base := newGroup(cfgT{Window: "open"}, "expiry-storm")
	names := []string{}
	for i := 0; i < 4; i++ {
		n := fmt.Sprintf("%s-e%d", base, i)
		names = append(names, n)
		// a negative history age makes an empty group due for expiry at once, so that every pass
		// of Update tries to expire it while clients keep coming and going
		d := map[string]any{"max-history-age": -1,
			"wildcard-user": map[string]any{"password": "p", "permissions": "present"}}
		b, _ := json.Marshal(d)
		os.WriteFile(filepath.Join(dir, n+".json"), b, 0600)
		group.Add(n, nil)
	}
	seeds := []int64{}
	for j := 0; j < 8; j++ {
		seeds = append(seeds, r.Int63())
	}
	yieldOn.Store(true)
	ok := within(20*time.Second, func() {
		var wg sync.WaitGroup
		for i := 0; i < 3; i++ {
			wg.Add(1)
			go func() {
				defer wg.Done()
				for k := 0; k < 40; k++ {
					group.Update()
				}
			}()
		}
		for j := 0; j < 8; j++ {
			wg.Add(1)
			go func(j int) {
				defer wg.Done()
				rr := rand.New(rand.NewSource(seeds[j]))
				for k := 0; k < 150; k++ {
					n := names[rr.Intn(len(names))]
					c := &fake{id: fmt.Sprintf("x%d", j)}
					u := c.id
					cr := pw()
					cr.Username = &u
					if g, err := group.AddClient(n, c, cr); err == nil {
						c.setGroup(g)
						group.DelClient(c)
					}
				}
			}(j)
		}
		wg.Add(1)
		go func() {
			defer wg.Done()
			for i := 0; i < 40; i++ {
				group.GetPublic(nil)
				group.GetSubGroups(base)
				group.GetNames()
			}
		}()
		wg.Wait()
	})
	yieldOn.Store(false)
	res := map[string]any{"ev": "witness", "name": "expiry_storm_Update_vs_joins", "completed": vt.B(ok)}
	if !ok {
		st := allStacks()
		res["mutex_blocked"] = mutexBlocked(st)
		res["close_blocked"], res["add_blocked"] = 0, vt.B(blockedInMutex(st, "group.AddClient") || blockedInMutex(st, "group.add"))
	}
	emit(res)
	flush(tr)
	if !ok {
		tr.Close()
		os.Exit(0)
	}
}

// ------------------------------------------------------------------ C13 witnesses

func allStacks() string {
	buf := make([]byte, 1<<20)
	n := runtime.Stack(buf, true)
	return string(buf[:n])
}

// runs f in a goroutine; reports whether it finished within d
func within(d time.Duration, fs ...func()) bool {
	done := make(chan struct{}, len(fs))
	for _, f := range fs {
		go func(f func()) { f(); done <- struct{}{} }(f)
	}
	t := time.After(d)
	for range fs {
		select {
		case <-done:
		case <-t:
			return false
		}
	}
	return true
}

func blockedInMutex(stacks string, fn string) bool {
	for _, g := range strings.Split(stacks, "\n\n") {
		if strings.Contains(g, fn) && (strings.Contains(g, "sync.(*Mutex).Lock") || strings.Contains(g, "sync.(*Mutex).lockSlow")) {
			return true
		}
	}
	return false
}

func whipMember(name string, id string) *rtpconn.WhipClient {
	g, err := group.Add(name, nil)
	if err != nil {
		panic(err)
	}
	w := rtpconn.NewWhipClient(g, id, "tok", nil)
	u := "w1"
	cr := pw()
	cr.Username = &u
	if _, err := group.AddClient(name, w, cr); err != nil {
		panic(err)
	}
	return w
}

// schedule found by TLC on Locks.tla with Fixed_F4 = FALSE: Close takes the WHIP client's lock;
// AddClient takes the group's lock and asks every member for its permissions; Close goes on
func witnessLockOrder(tr *vt.Trace) {
	name := newGroup(cfgT{Window: "open"}, "witness-lockorder")
	w := whipMember(name, "w1")
	closeAt := make(chan struct{})
	permAt := make(chan struct{}, 4)
	release := make(chan struct{})
	var once sync.Once
	f := func(point string, args ...any) {
		switch point {
		case "whip.Close.locked":
			once.Do(func() { close(closeAt); <-release })
		case "whip.Permissions.before":
			select {
			case permAt <- struct{}{}:
			default:
			}
		}
	}
	gateFn.Store(&f)
	defer gateFn.Store(nil)
	joiner := &fake{id: "u1"}
	ok := within(4*time.Second,
		func() { w.Close() },
		func() {
			<-closeAt
			go func() {
				// wait until AddClient, holding the group's lock, is about to ask the WHIP
				// member for its permissions; then let Close continue
				<-permAt
				time.Sleep(2 * time.Millisecond)
				close(release)
			}()
			join(name, joiner)
		})
	res := map[string]any{"ev": "witness", "name": "lockorder_WhipClose_vs_AddClient", "completed": vt.B(ok)}
	if !ok {
		st := allStacks()
		res["close_blocked"] = vt.B(blockedInMutex(st, "WhipClient).Close"))
		res["add_blocked"] = vt.B(blockedInMutex(st, "group.AddClient"))
	}
	emit(res)
	flush(tr)
}

// group.Shutdown with a WHIP member and a recording... member: kickall holds the group's lock while
// it kicks, and Kick needs that lock
func witnessShutdown(tr *vt.Trace) {
	name := newGroup(cfgT{Window: "open"}, "witness-shutdown")
	whipMember(name, "w2")
	ok := within(4*time.Second, func() { group.Shutdown("bye") })
	res := map[string]any{"ev": "witness", "name": "selfdeadlock_Shutdown_kickall", "completed": vt.B(ok)}
	if !ok {
		st := allStacks()
		res["close_blocked"] = vt.B(blockedInMutex(st, "WhipClient).Close"))
		res["add_blocked"] = 0
	}
	emit(res)
	flush(tr)
}

// Locks.tla, operation "last operator leaves an autokick group": DelClient re-evaluates autolock / autokick inside its critical
// section and the kicks must not run there -- the Kick of a WHIP or recording client calls DelClient itself
func witnessAutokick(tr *vt.Trace) {
	name := newGroup(cfgT{Window: "open", Autokick: true}, "witness-autokick")
	o := &fake{id: "o1"}
	if err := join(name, o); err != nil {
		emit(map[string]any{"ev": "witness", "name": "harness_autokick_operator_could_not_join", "completed": 1})
		flush(tr)
		return
	}
	whipMember(name, "w3")
	g := group.Get(name)
	diskwriter.Directory = filepath.Join(dir, "recordings")
	if g != nil {
		if d, err := diskwriter.New(g); err == nil {
			u := "rec"
			cr := pw()
			cr.Username = &u
			group.AddClient(name, d, group.ClientCredentials{System: true})
		}
	}
	before := len(members(name))
	ok := within(4*time.Second, func() { leave(o) })
	res := map[string]any{"ev": "witness", "name": "selfdeadlock_last_operator_leaves_autokick_group", "completed": vt.B(ok), "members_before": before}
	if !ok {
		st := allStacks()
		res["mutex_blocked"] = mutexBlocked(st)
		res["close_blocked"], res["add_blocked"] = vt.B(blockedInMutex(st, "DelClient")), 0
	} else {
		time.Sleep(300 * time.Millisecond)
		res["members_after"] = len(members(name))
	}
	emit(res)
	flush(tr)
}

// readers of the chat history (what a join replays) against writers that keep a full history moving and clear it
func historyRace(tr *vt.Trace) {
	name := newGroup(cfgT{Window: "open"}, "history-race")
	o := &fake{id: "o1"}
	join(name, o)
	g := group.Get(name)
	if g == nil {
		return
	}
	for i := 0; i < 60; i++ {
		g.AddToChatHistory(fmt.Sprintf("h%d", i), "o1", &o.username, time.Now(), "", fmt.Sprintf("m%d", i))
	}
	var wg sync.WaitGroup
	bad := atomic.Int64{}
	for w := 0; w < 2; w++ {
		wg.Add(1)
		go func(w int) {
			defer wg.Done()
			for i := 0; i < 400; i++ {
				g.AddToChatHistory(fmt.Sprintf("w%d-%d", w, i), "o1", &o.username, time.Now(), "", "x")
				if i%97 == 0 {
					g.ClearChatHistory(fmt.Sprintf("w%d-%d", w, i-1), "o1")
				}
			}
		}(w)
	}
	for rd := 0; rd < 4; rd++ {
		wg.Add(1)
		go func() {
			defer wg.Done()
			for i := 0; i < 300; i++ {
				h := g.GetChatHistory()
				if len(h) > 50 {
					bad.Add(1)
				}
				for _, e := range h {
					if e.Id == "" || e.Value == nil {
						bad.Add(1)
					}
				}
			}
		}()
	}
	wg.Wait()
	emit(map[string]any{"ev": "witness", "name": "chat_history_readers_vs_writers", "completed": 1, "bad_entries": bad.Load()})
	flush(tr)
}

func main() {
	tr := vt.OpenTrace()
	defer tr.Close()
	var err error
	dir, err = os.MkdirTemp("", "verif-groups-")
	if err != nil {
		panic(err)
	}
	defer os.RemoveAll(dir)
	group.Directory = dir
	group.DataDirectory = dir
	sd := int64(vt.EnvInt("VERIF_SEED", 1))
	r := rand.New(rand.NewSource(sd))
	yieldRnd = rand.New(rand.NewSource(sd + 1))
	verifhook.Set(hook)
	var logbuf bytes.Buffer
	_ = logbuf
	switch os.Getenv("VERIF_MODE") {
	case "seq":
		var behs []beh
		vt.Script(&behs)
		windowSchedule(tr, false)
		windowSchedule(tr, true)
		for _, b := range behs {
			runSeq(tr, b, "tlc")
		}
		for i := 0; i < vt.EnvInt("VERIF_N", 50); i++ {
			runSeq(tr, randomSeq(r), "random")
		}
	case "conc":
		if vt.EnvInt("VERIF_STORM", 0) > 0 {
			expiryStorm(tr, r)
		}
		forcedViews(tr)
		for i := 0; i < vt.EnvInt("VERIF_N", 100); i++ {
			i := i
			if !within(30*time.Second, func() { runConc(tr, r, i) }) {
				st := allStacks()
				emit(map[string]any{"ev": "witness", "name": "racing_round_never_finished", "completed": 0,
					"mutex_blocked": mutexBlocked(st), "close_blocked": 0, "add_blocked": vt.B(blockedInMutex(st, "group.AddClient"))})
				flush(tr)
				tr.Close()
				os.Exit(0)
			}
		}
	case "witness":
		// one witness per process: a deadlocked group would block the next one
		if os.Getenv("VERIF_WITNESS") == "shutdown" {
			witnessShutdown(tr)
		} else if os.Getenv("VERIF_WITNESS") == "autokick" {
			witnessAutokick(tr)
		} else if os.Getenv("VERIF_WITNESS") == "history" {
			historyRace(tr)
		} else {
			witnessLockOrder(tr)
		}
	}
}
