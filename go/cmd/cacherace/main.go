// cacherace: one writer and many concurrent readers on the real packetcache.Cache (C05's schedule part).
// Built with -race.  Every lookup must return nothing or exactly the bytes of a packet stored under that
// seqno (content is a function of (seqno, generation), so a mixture of two packets is detected).
package main

import (
	"fmt"
	"os"
	"sync"
	"sync/atomic"

	"github.com/jech/galene/packetcache"

	"verif/vt"
)

func fill(b []byte, seq uint16, gen int) []byte {
	n := 8 + int(seq)%1400 + gen%90
	b = b[:n]
	x := byte(int(seq)*31 + gen*7)
	for i := range b {
		b[i] = x + byte(i)
	}
	b[0], b[1], b[2], b[3] = byte(seq>>8), byte(seq), byte(gen>>8), byte(gen)
	return b
}

func check(seq uint16, got []byte) bool {
	if len(got) == 0 {
		return true
	}
	if len(got) < 8 || uint16(got[0])<<8|uint16(got[1]) != seq {
		return false
	}
	gen := int(got[2])<<8 | int(got[3])
	want := fill(make([]byte, packetcache.BufSize), seq, gen)
	if len(want) != len(got) {
		return false
	}
	for i := range want {
		if want[i] != got[i] {
			return false
		}
	}
	return true
}

func main() {
	rounds := vt.EnvInt("VERIF_ROUNDS", 200000)
	c := packetcache.New(32)
	var newest atomic.Uint32
	var bad atomic.Int64
	var stop atomic.Bool
	var wg sync.WaitGroup
	for r := 0; r < 8; r++ {
		wg.Add(1)
		go func(r int) {
			defer wg.Done()
			buf := make([]byte, packetcache.BufSize)
			for !stop.Load() {
				s := uint16(newest.Load()) - uint16(r*3)
				n := c.Get(s, buf)
				if !check(s, buf[:n]) {
					bad.Add(1)
				}
				n = c.GetAt(s, uint16(r*4), buf)
				if !check(s, buf[:n]) {
					bad.Add(1)
				}
				c.Last()
				c.Keyframe()
				c.GetStats(false)
			}
		}(r)
	}
	b := make([]byte, packetcache.BufSize)
	seq := uint16(65000)
	for i := 0; i < rounds; i++ {
		p := fill(b, seq, i&0x7fff)
		c.Store(seq, uint32(i), i%50 == 0, i%3 == 0, p)
		newest.Store(uint32(seq))
		seq++
		if i%5000 == 4999 {
			c.Resize([]int{16, 32, 64, 8}[(i/5000)%4])
		}
		if i%777 == 0 {
			c.ResizeCond(48)
		}
	}
	stop.Store(true)
	wg.Wait()
	if bad.Load() != 0 {
		fmt.Printf("CORRUPT lookups: %d\n", bad.Load())
		os.Exit(1)
	}
	fmt.Printf("ok rounds=%d readers=8\n", rounds)
}
