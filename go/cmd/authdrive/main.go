// authdrive: materialises every row of the decision tables of Auth.tla (C08 password login, C09 stateful and
// signed tokens) and asks the REAL code: group.Description.GetPermission, token.Parse(...).Check.
package main

import (
	"crypto/ecdsa"
	"crypto/elliptic"
	"crypto/rand"
	"crypto/sha256"
	"encoding/base64"
	"encoding/hex"
	"encoding/json"
	"errors"
	"fmt"
	"os"
	"strings"
	"path/filepath"
	"sort"
	"time"

	"github.com/golang-jwt/jwt/v5"
	"golang.org/x/crypto/bcrypt"
	"golang.org/x/crypto/pbkdf2"

	"github.com/jech/galene/group"
	"github.com/jech/galene/token"

	"verif/vt"
)

type row struct {
	Table  string         `json:"table"`
	Case   map[string]any `json:"case"`
	Expect map[string]any `json:"expect"`
}

func s(x any) string {
	v, _ := x.(string)
	return v
}
func b(x any) bool {
	v, _ := x.(bool)
	return v
}

var bcryptCache = map[string]string{}

func record(kind, pw string) any {
	switch kind {
	case "plain":
		return pw
	case "pbkdf2":
		salt := []byte{1, 2, 3, 4, 5, 6, 7, 8}
		key := pbkdf2.Key([]byte(pw), salt, 3, 32, sha256.New)
		return map[string]any{"type": "pbkdf2", "hash": "sha-256", "key": hex.EncodeToString(key), "salt": hex.EncodeToString(salt), "iterations": 3}
	case "bcrypt":
		if bcryptCache[pw] == "" {
			k, _ := bcrypt.GenerateFromPassword([]byte(pw), 4)
			bcryptCache[pw] = string(k)
		}
		return map[string]any{"type": "bcrypt", "key": bcryptCache[pw]}
	case "wildcard":
		return map[string]any{"type": "wildcard"}
	case "pbkdf2upper":
		salt := []byte{0xa1, 0xb2, 0xc3, 0xd4, 0xe5, 0xf6, 0x7a, 0x8b}
		key := pbkdf2.Key([]byte(pw), salt, 3, 32, sha256.New)
		return map[string]any{"type": "pbkdf2", "hash": "sha-256", "key": strings.ToUpper(hex.EncodeToString(key)), "salt": strings.ToUpper(hex.EncodeToString(salt)), "iterations": 3}
	case "emptykey":
		return map[string]any{"type": "pbkdf2", "hash": "sha-256", "key": "", "salt": "0102", "iterations": 1}
	case "nokey":
		return map[string]any{"type": "plain"}
	case "badhex":
		return map[string]any{"type": "pbkdf2", "hash": "sha-256", "key": "zz", "salt": "00", "iterations": 1}
	case "unknown":
		return map[string]any{"type": "rot13", "key": "x"}
	}
	return nil // "none": no password at all
}

func perms(role string) any {
	if role == "raw" {
		return []string{"present", "op"}
	}
	return role
}

func user(kind, pw, role string) map[string]any {
	u := map[string]any{"permissions": perms(role)}
	if r := record(kind, pw); r != nil {
		u["password"] = r
	}
	return u
}

func sorted(l []string) []string {
	out := append([]string{}, l...)
	sort.Strings(out)
	return out
}

func password(c map[string]any) map[string]any {
	d := map[string]any{}
	if s(c["entry"]) != "absent" {
		d["users"] = map[string]any{"alice": user(s(c["entry"]), "entry-pw", s(c["role"]))}
	}
	if s(c["wild"]) != "absent" {
		d["wildcard-user"] = user(s(c["wild"]), "wild-pw", s(c["wrole"]))
	}
	if b(c["ar"]) {
		d["allow-recording"] = true
	}
	if b(c["ut"]) {
		d["unrestricted-tokens"] = true
	}
	bs, _ := json.Marshal(d)
	var desc group.Description
	if err := json.Unmarshal(bs, &desc); err != nil {
		return map[string]any{"accept": false, "perms": []string{}, "err": "description: " + err.Error()}
	}
	pw := map[string]string{"entrypw": "entry-pw", "wildpw": "wild-pw", "wrong": "nope", "empty": ""}[s(c["cred"])]
	name := "alice"
	u, ps, err := desc.GetPermission("g", group.ClientCredentials{Username: &name, Password: pw})
	if err != nil {
		return map[string]any{"accept": false, "perms": []string{}}
	}
	_ = u
	return map[string]any{"accept": true, "perms": sorted(ps)}
}

var dataDir string

func setConfig(canon string) {
	c := map[string]any{}
	if canon != "" {
		c["canonicalHost"] = canon
	}
	bs, _ := json.Marshal(c)
	// the configuration is cached by (size, mtime): make sure the file visibly changes
	p := filepath.Join(dataDir, "config.json")
	old, _ := os.ReadFile(p)
	if string(old) == string(bs) {
		return
	}
	os.WriteFile(p, bs, 0600)
	t := time.Now().Add(time.Duration(len(bs)) * time.Second)
	os.Chtimes(p, t, t)
}

func when(x string) *time.Time {
	var t time.Time
	switch x {
	case "absent":
		return nil
	case "farpast":
		t = time.Now().Add(-time.Hour)
	case "justpast":
		t = time.Now().Add(-3 * time.Second)
	case "justfuture":
		t = time.Now().Add(3 * time.Second)
	case "farfuture":
		t = time.Now().Add(time.Hour)
	}
	return &t
}

var tokN int

func stateful(c map[string]any) map[string]any {
	setConfig("")
	tokN++
	id := fmt.Sprintf("tok%d", tokN)
	t := &token.Stateful{Token: id, Group: s(c["T"]), IncludeSubgroups: b(c["sub"]), Permissions: []string{"present"},
		Expires: when(s(c["exp"])), NotBefore: when(s(c["nbf"]))}
	if s(c["tuser"]) == "tu" {
		u := "tu"
		t.Username = &u
	} else if s(c["tuser"]) == "empty" {
		u := ""
		t.Username = &u
	}
	if _, err := token.Update(t, ""); err != nil {
		return map[string]any{"accept": false, "user": "", "why": "harness: " + err.Error()}
	}
	defer func() {
		_, tag, _ := token.Get(id)
		token.Delete(id, tag)
	}()
	G := s(c["G"])
	if G == "" {
		// the global-administrator question of webserver/util.go: Check(host, "")
		tk, err := token.Parse(id, nil)
		if err != nil || tk == nil {
			return map[string]any{"accept": false, "user": "", "why": "refused"}
		}
		if s(c["tuser"]) == "absent" && s(c["cuser"]) == "nil" {
			return map[string]any{"accept": false, "user": "", "why": "need-username"}
		}
		_, _, err = tk.Check("", "")
		if err != nil {
			return map[string]any{"accept": false, "user": "", "why": "refused"}
		}
		u := "tu"
		return map[string]any{"accept": true, "user": u, "why": ""}
	}
	var desc group.Description
	json.Unmarshal([]byte(`{"users":{"configured":{"password":"x","permissions":"present"}}}`), &desc)
	creds := group.ClientCredentials{Token: id}
	switch s(c["cuser"]) {
	case "cu":
		u := "cu"
		creds.Username = &u
	case "configured":
		u := "configured"
		creds.Username = &u
	}
	u, ps, err := desc.GetPermission(G, creds)
	if err != nil {
		why := "refused"
		if errors.Is(err, group.ErrUsernameRequired) {
			why = "need-username"
		} else if errors.Is(err, group.ErrDuplicateUsername) {
			why = "duplicate-username"
		}
		return map[string]any{"accept": false, "user": "", "why": why}
	}
	if len(ps) != 1 || ps[0] != "present" {
		return map[string]any{"accept": true, "user": u, "why": "permissions differ from the token's"}
	}
	return map[string]any{"accept": true, "user": u, "why": ""}
}

var (
	secret = map[string][]byte{}
	ecKey  *ecdsa.PrivateKey
)

func b64(x []byte) string { return base64.RawURLEncoding.EncodeToString(x) }

func jwk(k string) map[string]any {
	switch k {
	case "K1":
		return map[string]any{"kty": "oct", "alg": "HS256", "k": b64(secret["K1"]), "kid": "k1"}
	case "K2":
		return map[string]any{"kty": "oct", "alg": "HS256", "k": b64(secret["K2"])}
	case "K5":
		return map[string]any{"kty": "oct", "alg": "HS384", "k": b64(secret["K5"]), "kid": "k5"}
	case "K3":
		return map[string]any{"kty": "EC", "alg": "ES256", "crv": "P-256", "kid": "k3",
			"x": b64(ecKey.PublicKey.X.FillBytes(make([]byte, 32))), "y": b64(ecKey.PublicKey.Y.FillBytes(make([]byte, 32)))}
	}
	return nil
}

func signed(c map[string]any) map[string]any {
	canon := map[string]string{"nocanon": "", "canon-match": "galene.example.org", "canon-other": "other.example.org"}[s(c["host"])]
	setConfig(canon)
	keys := []map[string]any{}
	if l, ok := c["keys"].([]any); ok {
		for _, k := range l {
			keys = append(keys, jwk(s(k)))
		}
	}
	claims := jwt.MapClaims{"sub": "tu", "iat": time.Now().Add(-time.Minute).Unix(), "permissions": []string{"present"}}
	switch s(c["exp"]) {
	case "farpast":
		claims["exp"] = time.Now().Add(-time.Hour).Unix()
	case "farfuture":
		claims["exp"] = time.Now().Add(time.Hour).Unix()
	}
	aud := map[string]string{"exact": "/group/a/", "other": "/group/b/", "parent-sub": "/group/", "parent-nosub": "/group/",
		"noslash": "/group/a", "child": "/group/a/b/"}[s(c["aud"])]
	claims["aud"] = "https://galene.example.org" + aud
	if s(c["aud"]) == "parent-sub" {
		claims["include-subgroups"] = true
	}
	var tk *jwt.Token
	var key any
	switch signer := s(c["signer"]); signer {
	case "K1", "K2", "K4":
		tk, key = jwt.NewWithClaims(jwt.SigningMethodHS256, claims), secret[signer]
	case "K5":
		tk, key = jwt.NewWithClaims(jwt.SigningMethodHS384, claims), secret[signer]
	case "K1as384":
		tk, key = jwt.NewWithClaims(jwt.SigningMethodHS384, claims), secret["K1"]
	case "K1as512":
		tk, key = jwt.NewWithClaims(jwt.SigningMethodHS512, claims), secret["K1"]
	case "K3":
		tk, key = jwt.NewWithClaims(jwt.SigningMethodES256, claims), ecKey
	case "pub3":
		pub := append(ecKey.PublicKey.X.FillBytes(make([]byte, 32)), ecKey.PublicKey.Y.FillBytes(make([]byte, 32))...)
		tk, key = jwt.NewWithClaims(jwt.SigningMethodHS256, claims), pub[:32]
	default:
		tk, key = jwt.NewWithClaims(jwt.SigningMethodNone, claims), jwt.UnsafeAllowNoneSignatureType
	}
	if kid := s(c["kid"]); kid != "" {
		tk.Header["kid"] = kid
	}
	str, err := tk.SignedString(key)
	if err != nil {
		return map[string]any{"accept": false, "err": "harness: " + err.Error()}
	}
	desc := group.Description{AuthKeys: keys}
	u := "cu"
	name, ps, err := desc.GetPermission("a", group.ClientCredentials{Token: str, Username: &u})
	if err != nil {
		return map[string]any{"accept": false}
	}
	if name != "tu" || len(ps) != 1 || ps[0] != "present" {
		return map[string]any{"accept": true, "note": "username or permissions differ from the token's"}
	}
	return map[string]any{"accept": true}
}

func main() {
	tr := vt.OpenTrace()
	defer tr.Close()
	var rows []row
	if !vt.Script(&rows) {
		os.Exit(2)
	}
	base, _ := os.MkdirTemp("", "verif-auth-")
	defer os.RemoveAll(base)
	dataDir = base
	group.DataDirectory = base
	group.Directory = filepath.Join(base, "groups")
	os.MkdirAll(group.Directory, 0700)
	token.SetStatefulFilename(filepath.Join(base, "tokens.jsonl"))
	for _, k := range []string{"K1", "K2", "K4", "K5"} {
		n := 32
		if k == "K5" {
			n = 48
		}
		secret[k] = make([]byte, n)
		rand.Read(secret[k])
	}
	ecKey, _ = ecdsa.GenerateKey(elliptic.P256(), rand.Reader)
	setConfig("")
	tr.Emit(map[string]any{"ev": "New"})
	for _, r := range rows {
		var got map[string]any
		switch r.Table {
		case "password":
			got = password(r.Case)
		case "stateful":
			got = stateful(r.Case)
		case "jwt":
			got = signed(r.Case)
		default:
			continue
		}
		tr.Emit(map[string]any{"ev": "case", "table": r.Table, "case": r.Case, "expect": r.Expect, "got": got})
	}
}
