//go:build verif

// storedrive: drives the REAL stateful token store (token package) for C16: sequential behaviours
// (TLC-generated and seeded) with external edits and restarts, a crash at every named point of
// add()/rewrite() (the operation runs in a child process that exits at the point), and parallel
// read-tag / conditional-write editors.  After every operation the file is read back by an
// independent JSONL reader and every token id is looked up through the library.
package main

import (
	"bufio"
	"encoding/json"
	"errors"
	"fmt"
	"math/rand"
	"os"
	"os/exec"
	"path/filepath"
	"sort"
	"strings"
	"sync"
	"sync/atomic"
	"syscall"
	"time"
	"unsafe"

	"github.com/jech/galene/token"
	"github.com/jech/galene/verifhook"

	"verif/vt"
)

type beh struct {
	Ops [][]any `json:"ops"`
}

var (
	dir, fname string
	ids        = []string{"t1", "t2", "t3"}
)

func expiryOf(v int) time.Time {
	if v == 2 {
		return time.Now().Add(-8 * 24 * time.Hour).Truncate(time.Second)
	}
	return time.Now().Add(time.Duration(v+1) * time.Hour).Truncate(time.Second)
}

func mk(t string, v int) *token.Stateful {
	e := expiryOf(v)
	u := fmt.Sprintf("user-v%d", v)
	return &token.Stateful{Token: t, Group: "g", Username: &u, Permissions: []string{"present"}, Expires: &e}
}

func valOf(t *token.Stateful) int {
	if t == nil || t.Username == nil {
		return -1
	}
	var v int
	fmt.Sscanf(*t.Username, "user-v%d", &v)
	return v
}

// independent reader: every line must be a complete JSON object
func readDisk() (map[string]int, bool, bool) {
	f, err := os.Open(fname)
	if err != nil {
		return map[string]int{}, true, false
	}
	defer f.Close()
	out := map[string]int{}
	parses := true
	sc := bufio.NewScanner(f)
	sc.Buffer(make([]byte, 1<<20), 1<<20)
	for sc.Scan() {
		line := strings.TrimSpace(sc.Text())
		if line == "" {
			continue
		}
		var t token.Stateful
		if err := json.Unmarshal([]byte(line), &t); err != nil || t.Token == "" {
			parses = false
			continue
		}
		out[t.Token] = valOf(&t)
	}
	// a file that does not end in a newline holds a partial line
	if b, err := os.ReadFile(fname); err == nil && len(b) > 0 && b[len(b)-1] != '\n' {
		parses = false
	}
	return out, parses, true
}

func fileTag() string {
	fi, err := os.Stat(fname)
	if err != nil {
		return ""
	}
	return fmt.Sprintf("\"%v-%v\"", fi.Size(), fi.ModTime().UnixNano())
}

func honoured() map[string]int {
	out := map[string]int{}
	for _, id := range ids {
		t, _, err := token.Get(id)
		if err == nil && t != nil {
			out[id] = valOf(t)
		}
	}
	return out
}

// successive versions must differ in size or mtime (the property's assumption): wait for the
// file-system clock to tick
func tick() {
	p := filepath.Join(dir, "probe")
	os.WriteFile(p, []byte("a"), 0600)
	fi, _ := os.Stat(p)
	t0 := fi.ModTime()
	for i := 0; i < 2000; i++ {
		time.Sleep(500 * time.Microsecond)
		os.WriteFile(p, []byte("a"), 0600)
		fi, _ = os.Stat(p)
		if !fi.ModTime().Equal(t0) {
			return
		}
	}
}

func errClass(err error) string {
	switch {
	case err == nil:
		return ""
	case errors.Is(err, token.ErrTagMismatch):
		return "mismatch"
	case errors.Is(err, os.ErrNotExist):
		return "notexist"
	default:
		return "other:" + err.Error()
	}
}

func writeExternal(m map[string]int) {
	tmp := fname + ".ext"
	f, _ := os.Create(tmp)
	keys := []string{}
	for k := range m {
		keys = append(keys, k)
	}
	sort.Strings(keys)
	enc := json.NewEncoder(f)
	for _, k := range keys {
		enc.Encode(mk(k, m[k]))
	}
	f.Close()
	os.Rename(tmp, fname)
}

// sets are logged as sorted lists of [id, value] pairs
type snap struct {
	Tag    string  `json:"tag"`
	Disk   [][]any `json:"disk"`
	Parses int     `json:"parses"`
	Exists int     `json:"exists"`
	Hon    [][]any `json:"hon"`
}

func pairs(m map[string]int) [][]any {
	keys := []string{}
	for k := range m {
		keys = append(keys, k)
	}
	sort.Strings(keys)
	out := [][]any{}
	for _, k := range keys {
		out = append(out, []any{k, m[k]})
	}
	return out
}

func snapshot(withHon bool) snap {
	d, p, ex := readDisk()
	s := snap{Tag: fileTag(), Disk: pairs(d), Parses: vt.B(p), Exists: vt.B(ex), Hon: [][]any{}}
	if withHon {
		s.Hon = pairs(honoured())
	}
	return s
}

// performs one mutating library call; used in-process and in the crashing child
func perform(kind, t string, v int, etag string) error {
	switch kind {
	case "create":
		_, err := token.Update(mk(t, v), "")
		return err
	case "update":
		_, err := token.Update(mk(t, v), etag)
		return err
	case "delete":
		return token.Delete(t, etag)
	case "expire":
		return token.Expire()
	}
	return errors.New("unknown op")
}

func child() {
	fname = os.Getenv("VERIF_FILE")
	token.SetStatefulFilename(fname)
	at := os.Getenv("VERIF_CRASH_AT")
	n := vt.EnvInt("VERIF_CRASH_N", 1)
	var count atomic.Int32
	verifhook.Set(func(point string, args ...any) {
		if point == at && int(count.Add(1)) == n {
			os.Exit(3)
		}
	})
	err := perform(os.Getenv("VERIF_OP"), os.Getenv("VERIF_T"), vt.EnvInt("VERIF_V", 1), os.Getenv("VERIF_ETAG"))
	if err != nil {
		fmt.Println("ERR", errClass(err))
		os.Exit(4)
	}
	os.Exit(0)
}

// fsWatch observes the directory of the token file through inotify: every instant at which the file name does not
// exist is a possible crash state, whether or not a hook sits there.  Events are queued by the kernel inside the
// system call that causes them, so after an operation has returned all of its events can be read.
type fsWatch struct{ fd int }

func newWatch(d string) *fsWatch {
	fd, err := syscall.InotifyInit1(syscall.IN_NONBLOCK | syscall.IN_CLOEXEC)
	if err != nil {
		return nil
	}
	if _, err := syscall.InotifyAddWatch(fd, d, syscall.IN_DELETE|syscall.IN_MOVED_FROM|syscall.IN_MOVED_TO|syscall.IN_CREATE); err != nil {
		syscall.Close(fd)
		return nil
	}
	return &fsWatch{fd}
}

func (w *fsWatch) close() {
	if w != nil {
		syscall.Close(w.fd)
	}
}

// drain returns how often the name `base` was unlinked or renamed away since the last call (-1: not observable)
func (w *fsWatch) drain(base string) int {
	if w == nil {
		return -1
	}
	n := 0
	buf := make([]byte, 64*1024)
	for {
		k, err := syscall.Read(w.fd, buf)
		if k <= 0 || err != nil {
			return n
		}
		for off := 0; off+syscall.SizeofInotifyEvent <= k; {
			e := (*syscall.InotifyEvent)(unsafe.Pointer(&buf[off]))
			name := strings.TrimRight(string(buf[off+syscall.SizeofInotifyEvent:off+syscall.SizeofInotifyEvent+int(e.Len)]), "\x00")
			if name == base && e.Mask&(syscall.IN_DELETE|syscall.IN_MOVED_FROM) != 0 {
				n++
			}
			off += syscall.SizeofInotifyEvent + int(e.Len)
		}
	}
}

func runBeh(tr *vt.Trace, b beh, kind string, n int) {
	os.RemoveAll(dir)
	os.MkdirAll(dir, 0700)
	watch := newWatch(dir)
	defer watch.close()
	base := filepath.Base(fname)
	token.SetStatefulFilename(fname)
	tr.Emit(map[string]any{"ev": "New", "kind": kind, "id": n})
	etags := map[string]string{}
	num := func(x any) int { return int(x.(float64)) }
	for _, op := range b.Ops {
		k := op[0].(string)
		before := snapshot(false)
		ev := map[string]any{"ev": "op", "op": k, "before": before}
		switch k {
		case "read":
			e := op[1].(string)
			_, tag, err := token.List("g")
			if err != nil {
				tag = ""
			}
			etags[e] = tag
			ev["e"], ev["tag"] = e, tag
		case "create", "update", "delete":
			e, t := op[1].(string), op[2].(string)
			v := 0
			if k != "delete" {
				v = num(op[3])
			}
			used := etags[e]
			if k == "create" {
				used = ""
			}
			tick()
			watch.drain(base)
			err := perform(k, t, v, used)
			ev["unlinked"] = watch.drain(base)
			ev["e"], ev["t"], ev["v"], ev["used"], ev["err"] = e, t, v, used, errClass(err)
		case "expire":
			tick()
			watch.drain(base)
			err := perform("expire", "", 0, "")
			ev["unlinked"] = watch.drain(base)
			ev["err"] = errClass(err)
		case "external":
			m := map[string]int{}
			// (TLC prints a function with an empty domain as [], not {})
			if obj, ok := op[1].(map[string]any); ok {
				for kk, vv := range obj {
					m[kk] = num(vv)
				}
			}
			tick()
			writeExternal(m)
			ev["set"] = pairs(m)
		case "restart":
			token.SetStatefulFilename(fname)
		case "crash":
			// ["crash", kind, e, t, v, point, n]
			ck, e, t, v, point, cn := op[1].(string), op[2].(string), op[3].(string), num(op[4]), op[5].(string), num(op[6])
			used := etags[e]
			if ck == "create" {
				used = ""
			}
			tick()
			cmd := exec.Command(os.Args[0])
			cmd.Env = append(os.Environ(), "VERIF_CHILD=1", "VERIF_FILE="+fname, "VERIF_OP="+ck, "VERIF_T="+t,
				fmt.Sprint("VERIF_V=", v), "VERIF_ETAG="+used, "VERIF_CRASH_AT="+point, fmt.Sprint("VERIF_CRASH_N=", cn))
			out, err := cmd.CombinedOutput()
			code := 0
			if ee, ok := err.(*exec.ExitError); ok {
				code = ee.ExitCode()
			}
			ev["cop"], ev["e"], ev["t"], ev["v"], ev["used"], ev["point"], ev["exit"] = ck, e, t, v, used, point, code
			ev["childerr"] = strings.TrimSpace(string(out))
			// the restarted server
			token.SetStatefulFilename(fname)
		}
		ev["after"] = snapshot(true)
		tr.Emit(ev)
	}
}

func randomBeh(r *rand.Rand) beh {
	var ops [][]any
	es := []string{"e1", "e2"}
	points := []string{"token.add.opened", "token.add.written", "token.rewrite.created", "token.rewrite.encoded", "token.rewrite.closed", "token.rewrite.renamed"}
	for i := 0; i < 25; i++ {
		e, t := es[r.Intn(2)], ids[r.Intn(len(ids))]
		switch r.Intn(12) {
		case 0, 1:
			ops = append(ops, []any{"read", e})
		case 2, 3, 4:
			ops = append(ops, []any{"create", e, t, float64(1 + r.Intn(3))})
		case 5, 6:
			ops = append(ops, []any{"update", e, t, float64(1 + r.Intn(3))})
		case 7:
			ops = append(ops, []any{"delete", e, t})
		case 8:
			ops = append(ops, []any{"expire"})
		case 9:
			m := map[string]any{}
			for _, id := range ids {
				if r.Intn(2) == 0 {
					m[id] = float64(1 + r.Intn(3))
				}
			}
			ops = append(ops, []any{"external", m})
		case 10:
			ops = append(ops, []any{"restart"})
		case 11:
			ck := []string{"create", "update", "delete"}[r.Intn(3)]
			ops = append(ops, []any{"read", e})
			ops = append(ops, []any{"crash", ck, e, t, float64(1 + r.Intn(3)), points[r.Intn(len(points))], float64(1 + r.Intn(2))})
		}
	}
	return beh{Ops: ops}
}

// parallel editors incrementing a counter kept in one token through read-tag / conditional-write
func parallel(tr *vt.Trace, workers, rounds int) {
	os.RemoveAll(dir)
	os.MkdirAll(dir, 0700)
	token.SetStatefulFilename(fname)
	tr.Emit(map[string]any{"ev": "New", "kind": "parallel", "id": 0})
	set := func(n int) *token.Stateful {
		t := mk("ctr", 1)
		// successive versions must differ in size or mtime (the property's assumption): the
		// size of the record changes with every value
		u := fmt.Sprintf("user-v%d-%s", n, strings.Repeat("x", n%97))
		t.Username = &u
		return t
	}
	token.Update(set(0), "")
	var acks atomic.Int64
	var wg sync.WaitGroup
	for w := 0; w < workers; w++ {
		wg.Add(1)
		go func() {
			defer wg.Done()
			for i := 0; i < rounds; i++ {
				t, tag, err := token.Get("ctr")
				if err != nil {
					continue
				}
				n := valOf(t)
				time.Sleep(time.Duration(rand.Intn(300)) * time.Microsecond)
				_, err = token.Update(set(n+1), tag)
				if err == nil {
					acks.Add(1)
				}
			}
		}()
	}
	wg.Wait()
	t, _, _ := token.Get("ctr")
	tr.Emit(map[string]any{"ev": "par", "acks": acks.Load(), "final": valOf(t), "workers": workers})
}

func main() {
	if os.Getenv("VERIF_CHILD") == "1" {
		child()
		return
	}
	tr := vt.OpenTrace()
	defer tr.Close()
	base, err := os.MkdirTemp("", "verif-tokens-")
	if err != nil {
		panic(err)
	}
	defer os.RemoveAll(base)
	dir = filepath.Join(base, "data")
	fname = filepath.Join(dir, "tokens.jsonl")
	r := rand.New(rand.NewSource(int64(vt.EnvInt("VERIF_SEED", 1))))
	var behs []beh
	vt.Script(&behs)
	for i, b := range behs {
		runBeh(tr, b, "tlc", i)
	}
	for i := 0; i < vt.EnvInt("VERIF_N", 20); i++ {
		runBeh(tr, randomBeh(r), "random", i)
	}
	if vt.EnvInt("VERIF_PAR", 1) > 0 {
		parallel(tr, 4, vt.EnvInt("VERIF_PAR_ROUNDS", 15))
	}
}
