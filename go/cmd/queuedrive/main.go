//go:build verif

// queuedrive: forces every TLC-enumerated interleaving of producers and the consumer on the REAL
// unbounded.Channel (C13, action-queue part).  Producers are real goroutines calling the real Put;
// the hook between Unlock and the conditional send is the gate at which they are parked.  The
// consumer's steps (receive from Ch, Get) are this program's own calls.  One NDJSON event per step.
package main

import (
	"fmt"
	"time"

	"github.com/jech/galene/unbounded"
	"github.com/jech/galene/verifhook"

	"verif/vt"
)

type beh struct {
	Sched [][]any `json:"sched"`
}

type producer struct {
	cmd     chan int // item to put
	atGate  chan struct{}
	release chan struct{}
	done    chan struct{}
}

var active *producer

func run(tr *vt.Trace, b beh, nprod int, id int) {
	ch := unbounded.New[int]()
	ps := make([]*producer, nprod+1)
	for i := 1; i <= nprod; i++ {
		p := &producer{cmd: make(chan int), atGate: make(chan struct{}), release: make(chan struct{}), done: make(chan struct{})}
		ps[i] = p
		go func() {
			for v := range p.cmd {
				ch.Put(v)
				p.done <- struct{}{}
			}
		}()
	}
	verifhook.Set(func(point string, args ...any) {
		if point != "unbounded.Put.unlocked" {
			return
		}
		p := active
		p.atGate <- struct{}{}
		<-p.release
	})
	defer verifhook.Set(nil)
	tr.Emit(map[string]any{"ev": "New", "id": id, "nprod": nprod})
	count := make([]int, nprod+1)
	timeout := func(what string) bool {
		tr.Emit(map[string]any{"ev": "stuck", "what": what})
		return false
	}
	ok := true
	for _, st := range b.Sched {
		if !ok {
			break
		}
		kind := st[0].(string)
		p := int(st[1].(float64))
		switch kind {
		case "put":
			count[p]++
			active = ps[p]
			ps[p].cmd <- p*100 + count[p]
			select {
			case <-ps[p].atGate:
			case <-time.After(5 * time.Second):
				ok = timeout("producer did not reach the gate")
			}
			tr.Emit(map[string]any{"ev": "put", "p": p, "k": count[p]})
		case "sig":
			ps[p].release <- struct{}{}
			select {
			case <-ps[p].done:
			case <-time.After(5 * time.Second):
				ok = timeout("Put did not return after the gate (blocking send?)")
			}
			tr.Emit(map[string]any{"ev": "sig", "p": p})
		case "wait":
			select {
			case <-ch.Ch:
				tr.Emit(map[string]any{"ev": "wait", "ok": 1})
			default:
				tr.Emit(map[string]any{"ev": "wait", "ok": 0})
				ok = false
			}
		case "get", "unsol":
			items := ch.Get()
			if items == nil {
				items = []int{}
			}
			tr.Emit(map[string]any{"ev": kind, "items": items})
		}
	}
	// quiescence: release every parked producer, then look at what is left
	for i := 1; i <= nprod; i++ {
		select {
		case ps[i].release <- struct{}{}:
			<-ps[i].done
		default:
		}
		close(ps[i].cmd)
	}
	token := 0
	select {
	case <-ch.Ch:
		token = 1
	default:
	}
	left := ch.Get()
	if left == nil {
		left = []int{}
	}
	tr.Emit(map[string]any{"ev": "end", "token": token, "left": left, "completed": vt.B(ok)})
}

func main() {
	tr := vt.OpenTrace()
	defer tr.Close()
	var behs []beh
	if !vt.Script(&behs) {
		fmt.Println("no schedules")
		return
	}
	nprod := vt.EnvInt("VERIF_NPROD", 2)
	for i, b := range behs {
		run(tr, b, nprod, i)
	}
}
