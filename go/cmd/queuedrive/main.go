//go:build verif

// queuedrive: forces every TLC-enumerated interleaving of producers and the consumer on the REAL
// unbounded.Channel (C13, action-queue part).  Producers are real goroutines calling the real Put;
// the hook between Unlock and the conditional send is the gate at which they are parked.  The
// consumer's steps (receive from Ch, Get) are this program's own calls.  One NDJSON event per step.
package main

import (
	"fmt"
	"os"
	"sync"
	"time"

	"github.com/jech/galene/unbounded"
	"github.com/jech/galene/verifhook"

	"verif/vt"
)

type beh struct {
	Sched [][]any `json:"sched"`
}

type producer struct {
	cmd     chan int // item to put
	atGate  chan struct{}
	release chan struct{}
	done    chan struct{}
}

var active *producer

func run(tr *vt.Trace, b beh, nprod int, id int) {
	ch := unbounded.New[int]()
	ps := make([]*producer, nprod+1)
	for i := 1; i <= nprod; i++ {
		p := &producer{cmd: make(chan int), atGate: make(chan struct{}), release: make(chan struct{}), done: make(chan struct{})}
		ps[i] = p
		go func() {
			for v := range p.cmd {
				ch.Put(v)
				p.done <- struct{}{}
			}
		}()
	}
	verifhook.Set(func(point string, args ...any) {
		if point != "unbounded.Put.unlocked" {
			return
		}
		p := active
		p.atGate <- struct{}{}
		<-p.release
	})
	defer verifhook.Set(nil)
	tr.Emit(map[string]any{"ev": "New", "id": id, "nprod": nprod})
	count := make([]int, nprod+1)
	timeout := func(what string) bool {
		tr.Emit(map[string]any{"ev": "stuck", "what": what})
		return false
	}
	ok := true
	for _, st := range b.Sched {
		if !ok {
			break
		}
		kind := st[0].(string)
		p := int(st[1].(float64))
		switch kind {
		case "put":
			count[p]++
			active = ps[p]
			ps[p].cmd <- p*100 + count[p]
			select {
			case <-ps[p].atGate:
			case <-time.After(5 * time.Second):
				ok = timeout("producer did not reach the gate")
			}
			tr.Emit(map[string]any{"ev": "put", "p": p, "k": count[p]})
		case "sig":
			ps[p].release <- struct{}{}
			select {
			case <-ps[p].done:
			case <-time.After(5 * time.Second):
				ok = timeout("Put did not return after the gate (blocking send?)")
			}
			tr.Emit(map[string]any{"ev": "sig", "p": p})
		case "wait":
			select {
			case <-ch.Ch:
				tr.Emit(map[string]any{"ev": "wait", "ok": 1})
			default:
				tr.Emit(map[string]any{"ev": "wait", "ok": 0})
				ok = false
			}
		case "get", "unsol":
			items := ch.Get()
			if items == nil {
				items = []int{}
			}
			tr.Emit(map[string]any{"ev": kind, "items": items})
		}
	}
	// quiescence: release every parked producer, then look at what is left
	for i := 1; i <= nprod; i++ {
		select {
		case ps[i].release <- struct{}{}:
			<-ps[i].done
		default:
		}
		close(ps[i].cmd)
	}
	token := 0
	select {
	case <-ch.Ch:
		token = 1
	default:
	}
	left := ch.Get()
	if left == nil {
		left = []int{}
	}
	tr.Emit(map[string]any{"ev": "end", "token": token, "left": left, "completed": vt.B(ok)})
}

// free-running stress in the pattern of the client loop: many producers, one consumer that waits
// on Ch and then calls Get.  The verdict is taken in the QUIESCENT state after all producers have
// returned: if no wake-up token is available although items are still queued, the wake-up was lost
// (no timing is involved in that judgement; the idle timeout only ends the consumer's wait).
func stress(tr *vt.Trace, rounds, nprod, nitems int) {
	for r := 0; r < rounds; r++ {
		ch := unbounded.New[int]()
		var wg sync.WaitGroup
		for p := 0; p < nprod; p++ {
			wg.Add(1)
			go func(p int) {
				defer wg.Done()
				for k := 0; k < nitems; k++ {
					ch.Put(p*100000 + k)
				}
			}(p)
		}
		got := 0
		prodDone := make(chan struct{})
		go func() { wg.Wait(); close(prodDone) }()
		finished := false
		for !finished {
			select {
			case <-ch.Ch:
				got += len(ch.Get())
			case <-prodDone:
				finished = true
			}
		}
		// producers are done; drain whatever wake-ups are pending
		for {
			select {
			case <-ch.Ch:
				got += len(ch.Get())
				continue
			default:
			}
			break
		}
		left := ch.Get()
		tr.Emit(map[string]any{"ev": "New", "id": r, "nprod": nprod})
		tr.Emit(map[string]any{"ev": "stress", "got": got, "left": len(left), "total": nprod * nitems})
	}
}

func main() {
	tr := vt.OpenTrace()
	defer tr.Close()
	if os.Getenv("VERIF_MODE") == "stress" {
		verifhook.Set(nil)
		stress(tr, vt.EnvInt("VERIF_N", 300), 12, 40)
		return
	}
	var behs []beh
	if !vt.Script(&behs) {
		fmt.Println("no schedules")
		return
	}
	nprod := vt.EnvInt("VERIF_NPROD", 2)
	for i, b := range behs {
		run(tr, b, nprod, i)
	}
}
