//go:build verif

// srvdrive: black-box driver for the REAL server (webserver.Serve + websocket signalling + HTTP API),
// run as a child process so that a crash of the server does not take the driver down.
//
//	srvdrive            reads $VERIF_IN (list of behaviours: fixture + steps), writes $VERIF_OUT (NDJSON)
//	VERIF_SERVE=1       child mode: serve from $VERIF_ROOT on 127.0.0.1:$VERIF_PORT
//
// Steps (JSON arrays):
//
//	["ws", c]                       open a websocket and send the handshake with client id c
//	["send", c, {message}]          send a signalling message
//	["raw", c, "text"]              send raw text
//	["closews", c]                  drop the connection
//	["settle"]                      barrier: ping every socket, wait until the server is quiet
//	["http", name, method, path, {headers}, body, user, password]
//	["publish", c, id, label, naudio, nvideo]   real pion publisher: offer, answer, ICE, RTP on every track
//	["unpublish", c, id]            stop sending and send close
//	["files"]                       digest of the groups dir, token file and sentinel files
//	["restart"]                     restart the server child
//	["sleep", ms]
package main

import (
	"bufio"
	"bytes"
	"crypto/sha256"
	"encoding/base64"
	"encoding/hex"
	"encoding/json"
	"fmt"
	"io"
	"net"
	"net/http"
	"os"
	"os/exec"
	"os/signal"
	"path/filepath"
	"sort"
	"strings"
	"sync"
	"sync/atomic"
	"syscall"
	"time"

	"github.com/gorilla/websocket"
	"github.com/pion/interceptor"
	"github.com/pion/rtcp"
	"github.com/pion/rtp"
	"github.com/pion/sdp/v3"
	"github.com/pion/webrtc/v4"

	"github.com/jech/galene/diskwriter"
	"github.com/jech/galene/group"
	"github.com/jech/galene/packetcache"
	"github.com/jech/galene/token"
	"github.com/jech/galene/verifhook"
	"github.com/jech/galene/webserver"

	"verif/vt"
)

// ------------------------------------------------------------------ child: the server

func serve() {
	root := os.Getenv("VERIF_ROOT")
	// a crash in the middle of a write: with a file-size limit the kernel kills the process (SIGXFSZ) at the write
	// that would take a regular file beyond it -- no hook needed, whatever path the code takes to the file
	if n := vt.EnvInt("VERIF_FSIZE", 0); n > 0 {
		syscall.Setrlimit(syscall.RLIMIT_FSIZE, &syscall.Rlimit{Cur: uint64(n), Max: uint64(n)})
		if os.Getenv("VERIF_FSIZE_KILL") != "" {
			// die at that write (the Go runtime otherwise turns the signal into an EFBIG error of the write)
			c := make(chan os.Signal, 1)
			signal.Notify(c, syscall.SIGXFSZ)
			go func() { <-c; os.Exit(3) }()
		}
	}
	group.Directory = filepath.Join(root, "groups")
	group.DataDirectory = filepath.Join(root, "data")
	diskwriter.Directory = filepath.Join(root, "recordings")
	webserver.StaticRoot = filepath.Join(root, "static")
	webserver.Insecure = true
	token.SetStatefulFilename(filepath.Join(root, "data", "var", "tokens.jsonl"))
	at := os.Getenv("VERIF_CRASH_AT")
	n := int32(vt.EnvInt("VERIF_CRASH_N", 1))
	var cnt atomic.Int32
	var hmu sync.Mutex
	var hlog *os.File
	if p := os.Getenv("VERIF_HOOKLOG"); p != "" {
		hlog, _ = os.OpenFile(p, os.O_CREATE|os.O_WRONLY|os.O_APPEND, 0600)
	}
	// a forced schedule by delay: "point:k:ms" makes the k-th arrival at point wait ms (the goroutine that gets there is
	// overtaken by whatever comes after it)
	delayAt, delayK, delayMs := "", int32(0), 0
	if f := strings.Split(os.Getenv("VERIF_DELAY"), ":"); len(f) == 3 {
		delayAt = f[0]
		fmt.Sscan(f[1], &delayK)
		fmt.Sscan(f[2], &delayMs)
	}
	var dcnt atomic.Int32
	verifhook.Set(func(point string, args ...any) {
		if at != "" && point == at && cnt.Add(1) == n {
			os.Exit(3)
		}
		if delayAt != "" && point == delayAt && dcnt.Add(1) == delayK {
			time.Sleep(time.Duration(delayMs) * time.Millisecond)
		}
		// C06 at the linearisation point: what the cache holds at the instant a NACK goes upstream
		if hlog != nil && (point == "rtpconn.sendNACK" || point == "rtpconn.sendNACKs") && len(args) >= 2 {
			cache, _ := args[0].(*packetcache.Cache)
			if cache == nil {
				return
			}
			seqs := []uint16{}
			if point == "rtpconn.sendNACKs" {
				l, _ := args[1].([]uint16)
				seqs = append(seqs, l...)
			} else if len(args) >= 3 {
				first, _ := args[1].(uint16)
				bitmap, _ := args[2].(uint16)
				seqs = append(seqs, first)
				for i := 0; i < 16; i++ {
					if bitmap&(1<<i) != 0 {
						seqs = append(seqs, first+uint16(i)+1)
					}
				}
			}
			last, ok := cache.Last()
			out := [][]int{}
			for _, sq := range seqs {
				in := 0
				if cache.Get(sq, nil) > 0 {
					in = 1
				}
				beyond := 0
				if ok && ((sq-last)&0x8000) == 0 {
					beyond = 1
				}
				out = append(out, []int{int(sq), in, beyond})
			}
			b, _ := json.Marshal(map[string]any{"point": point, "seqs": out, "last": int(last)})
			hmu.Lock()
			hlog.Write(append(b, '\n'))
			hmu.Unlock()
		}
	})
	go group.Update()
	err := webserver.Serve("127.0.0.1:"+os.Getenv("VERIF_PORT"), group.DataDirectory)
	if err != nil {
		fmt.Println("SERVE-ERROR", err)
		os.Exit(5)
	}
	fmt.Println("READY")
	select {}
}

// ------------------------------------------------------------------ parent side

type server struct {
	root  string
	port  int
	cmd   *exec.Cmd
	done  chan struct{}
	log   *bytes.Buffer
	crash string
	delay string
	fsize int // file-size limit of the NEXT start only
	fkill bool
}

func freePort() int {
	l, err := net.Listen("tcp", "127.0.0.1:0")
	if err != nil {
		panic(err)
	}
	defer l.Close()
	return l.Addr().(*net.TCPAddr).Port
}

func (s *server) start() error {
	s.port = freePort()
	s.cmd = exec.Command(os.Args[0])
	s.cmd.Env = append(os.Environ(), "VERIF_SERVE=1", "VERIF_ROOT="+s.root, fmt.Sprint("VERIF_PORT=", s.port))
	if s.crash != "" {
		s.cmd.Env = append(s.cmd.Env, "VERIF_CRASH_AT="+s.crash)
	}
	if s.delay != "" {
		s.cmd.Env = append(s.cmd.Env, "VERIF_DELAY="+s.delay)
	}
	if s.fsize > 0 {
		s.cmd.Env = append(s.cmd.Env, fmt.Sprint("VERIF_FSIZE=", s.fsize))
		if s.fkill {
			s.cmd.Env = append(s.cmd.Env, "VERIF_FSIZE_KILL=1")
		}
		s.fsize = 0
	}
	os.Remove(s.root + ".hooks")
	s.cmd.Env = append(s.cmd.Env, "VERIF_HOOKLOG="+s.root+".hooks")
	s.log = &bytes.Buffer{}
	s.cmd.Stdout = s.log
	s.cmd.Stderr = s.log
	if err := s.cmd.Start(); err != nil {
		return err
	}
	s.done = make(chan struct{})
	go func(c *exec.Cmd, d chan struct{}) { c.Wait(); close(d) }(s.cmd, s.done)
	for i := 0; i < 400; i++ {
		c, err := net.DialTimeout("tcp", fmt.Sprint("127.0.0.1:", s.port), 100*time.Millisecond)
		if err == nil {
			c.Close()
			return nil
		}
		select {
		case <-s.done:
			return fmt.Errorf("server exited during start: %s", s.log.String())
		default:
		}
		time.Sleep(10 * time.Millisecond)
	}
	return fmt.Errorf("server did not come up")
}

func (s *server) alive() bool {
	select {
	case <-s.done:
		return false
	default:
		return true
	}
}

func (s *server) stop() {
	if s.cmd != nil && s.cmd.Process != nil {
		s.cmd.Process.Kill()
		<-s.done
	}
}

func (s *server) panicLine() string {
	for _, l := range strings.Split(s.log.String(), "\n") {
		if strings.HasPrefix(l, "panic:") || strings.HasPrefix(l, "fatal error:") {
			return l
		}
	}
	return ""
}

// first stack frame in the server's own code after a panic
func (s *server) panicFrame() string {
	lines := strings.Split(s.log.String(), "\n")
	seen := false
	for _, l := range lines {
		if strings.HasPrefix(l, "panic:") || strings.HasPrefix(l, "fatal error:") {
			seen = true
		}
		if seen && strings.HasPrefix(l, "github.com/jech/galene/") {
			if i := strings.Index(l, "("); i > 0 {
				return l[:i]
			}
			return l
		}
	}
	return ""
}

// ------------------------------------------------------------------ websocket clients

type pub struct {
	pc     *webrtc.PeerConnection
	tracks []*webrtc.TrackLocalStaticRTP
	stop   chan struct{}
	script [][]any       // scripted RTP (C06 end to end): ["p", seq, wait_ms] | ["n", subscriber, [seqs], wait_ms]
	done   chan struct{} // closed when the script has run
}

type client struct {
	name   string
	ws     *websocket.Conn
	wmu    sync.Mutex
	closed atomic.Bool
	pong   chan struct{}
	gone   chan struct{} // closed when the reader has seen the end of the connection
	pubs   map[string]*pub
	subs   map[string]*webrtc.PeerConnection
	ssrc   map[string]uint32 // stream id -> SSRC of the (first) track received on it
	pmu    sync.Mutex
	answer bool
}

type driver struct {
	tr      *vt.Trace
	srv     *server
	clients map[string]*client
	emu     sync.Mutex
	sent    []string // sentinel strings planted in the fixture
	etags   map[string]string
	whips   map[string]string // name -> resource URL path
	roots   bool              // add the digests of every directory of the scratch tree to http events
}

func (d *driver) waitTracks(id string, n, ms int) {
	deadline := time.Now().Add(time.Duration(ms) * time.Millisecond)
	var count func(x any) int
	count = func(x any) int {
		switch v := x.(type) {
		case map[string]any:
			if str(v["id"]) == id {
				if ts, ok := v["tracks"].([]any); ok {
					return len(ts)
				}
			}
			best := -1
			for _, y := range v {
				if c := count(y); c > best {
					best = c
				}
			}
			return best
		case []any:
			best := -1
			for _, y := range v {
				if c := count(y); c > best {
					best = c
				}
			}
			return best
		}
		return -1
	}
	// who holds what, as the server's statistics tell it
	shape := func(v any) string {
		out := []string{}
		gs, _ := v.([]any)
		for _, g := range gs {
			gm, _ := g.(map[string]any)
			cs, _ := gm["clients"].([]any)
			for _, c := range cs {
				cm, _ := c.(map[string]any)
				for _, dir := range []string{"up", "down"} {
					conns, _ := cm[dir].([]any)
					for _, cn := range conns {
						cnm, _ := cn.(map[string]any)
						ts, _ := cnm["tracks"].([]any)
						out = append(out, fmt.Sprintf("%s/%s/%s/%s/%d", str(gm["name"]), str(cm["id"]), dir, str(cnm["id"]), len(ts)))
					}
				}
			}
		}
		sort.Strings(out)
		return strings.Join(out, " ")
	}
	got, stable, prev, same := -1, 0, "?", 0
	var since time.Time
	for time.Now().Before(deadline) {
		r := d.doHTTP("", "GET", "/galene-api/v0/.stats", nil, "", "root", "rootpw", false)
		var v any
		if json.Unmarshal([]byte(str(r["rawbody"])), &v) == nil {
			got = count(v)
			sh := shape(v)
			if got >= n {
				if since.IsZero() {
					since = time.Now()
				}
				if sh == prev {
					same++
				} else {
					same = 0
				}
				// complete for 700 ms (the server pushes a connection 200 ms after its last track arrived; the margin is for a
				// loaded machine) and nothing moved for 400 ms
				if time.Since(since) > 700*time.Millisecond && same >= 4 {
					stable = 1
					break
				}
			}
			prev = sh
		}
		time.Sleep(100 * time.Millisecond)
	}
	d.emit(map[string]any{"ev": "waited", "id": id, "want": n, "got": got, "stable": stable})
}

// digests of the directories the server is configured with, and of what lies next to them
func (d *driver) rootDigests() map[string]any {
	r := d.srv.root
	top := []string{}
	if es, err := os.ReadDir(r); err == nil {
		for _, e := range es {
			top = append(top, e.Name())
		}
	}
	return map[string]any{"outside": digest(filepath.Join(r, "outside")), "static": digest(filepath.Join(r, "static")), "data": digest(filepath.Join(r, "data")),
		"recordings": digest(filepath.Join(r, "recordings")), "groups": digest(filepath.Join(r, "groups")), "top": strings.Join(top, ","), "reclist": listing(filepath.Join(r, "recordings"))}
}

// a request written byte for byte (no client-side path cleaning or escaping)
func (d *driver) rawhttp(name, method, target string, headers map[string]any, body string, user, pass string) {
	ev := map[string]any{"ev": "http", "name": name, "method": method, "path": target, "status": -1, "etag": "", "body": "", "leaks": []string{}, "ctype": "", "allow": "", "members": [][]string{}, "raw": 1}
	defer func() {
		ev["digest"], ev["parts"] = d.stateDigest(), d.parts()
		if d.roots {
			ev["roots"] = d.rootDigests()
		}
		d.emit(ev)
	}()
	c, err := net.DialTimeout("tcp", fmt.Sprint("127.0.0.1:", d.srv.port), 2*time.Second)
	if err != nil {
		ev["body"] = err.Error()
		return
	}
	defer c.Close()
	c.SetDeadline(time.Now().Add(5 * time.Second))
	var b bytes.Buffer
	fmt.Fprintf(&b, "%s %s HTTP/1.1\r\nHost: 127.0.0.1:%d\r\nConnection: close\r\n", method, target, d.srv.port)
	for k, v := range headers {
		fmt.Fprintf(&b, "%s: %s\r\n", k, str(v))
	}
	if user != "" || pass != "" {
		fmt.Fprintf(&b, "Authorization: Basic %s\r\n", base64.StdEncoding.EncodeToString([]byte(user+":"+pass)))
	}
	fmt.Fprintf(&b, "Content-Length: %d\r\n\r\n%s", len(body), body)
	c.Write(b.Bytes())
	resp, err := http.ReadResponse(bufio.NewReader(c), nil)
	if err != nil {
		ev["body"] = err.Error()
		return
	}
	defer resp.Body.Close()
	rb, _ := io.ReadAll(io.LimitReader(resp.Body, 1<<20))
	all := string(rb)
	for k, vs := range resp.Header {
		all += "\n" + k + ": " + strings.Join(vs, ",")
	}
	leaks := []string{}
	for _, s := range d.sent {
		if strings.Contains(all, s) {
			leaks = append(leaks, s)
		}
	}
	bs := string(rb)
	if len(bs) > 300 {
		bs = bs[:300]
	}
	ev["status"], ev["body"], ev["leaks"], ev["location"], ev["ctype"] = resp.StatusCode, bs, leaks, resp.Header.Get("Location"), resp.Header.Get("Content-Type")
}

// wall time of the driver process in ms: lets the monitor bound the age of a chat (C15: history age)
var procStart = time.Now()

func (d *driver) emit(ev map[string]any) {
	d.emu.Lock()
	if _, ok := ev["wt"]; !ok {
		ev["wt"] = time.Since(procStart).Milliseconds()
	}
	d.tr.Emit(ev)
	d.emu.Unlock()
}

func str(x any) string {
	switch v := x.(type) {
	case nil:
		return ""
	case string:
		return v
	default:
		b, _ := json.Marshal(v)
		return string(b)
	}
}

func strs(x any) []string {
	out := []string{}
	if l, ok := x.([]any); ok {
		for _, e := range l {
			out = append(out, str(e))
		}
	}
	sort.Strings(out)
	return out
}

func b01(x any) int {
	if v, ok := x.(bool); ok && v {
		return 1
	}
	return 0
}

// tracks offered in an SDP: one entry per m-line [kind, direction, msid-track-id]
func sdpTracks(s string) [][]string {
	var sd sdp.SessionDescription
	out := [][]string{}
	if s == "" || sd.Unmarshal([]byte(s)) != nil {
		return out
	}
	for _, m := range sd.MediaDescriptions {
		dir, tid := "sendrecv", ""
		for _, a := range m.Attributes {
			switch a.Key {
			case "sendonly", "recvonly", "inactive", "sendrecv":
				dir = a.Key
			case "msid":
				f := strings.Fields(a.Value)
				if len(f) > 1 {
					tid = f[1]
				}
			}
		}
		out = append(out, []string{m.MediaName.Media, dir, tid})
	}
	return out
}

func seqno(id string) int {
	var n int
	if _, err := fmt.Sscanf(id, "h%d", &n); err == nil && fmt.Sprintf("h%d", n) == id {
		return n
	}
	return -1
}

// every message is logged with the same fixed set of fields
func normalise(m map[string]any) map[string]any {
	_, hasUser := m["username"]
	clear := map[string]any{"user": "", "id": ""}
	if str(m["type"]) == "groupaction" && str(m["kind"]) == "clearchat" {
		if v, ok := m["value"].(map[string]any); ok {
			clear = map[string]any{"user": str(v["userId"]), "id": str(v["id"])}
		}
	}
	// groups of the tokens that a token / tokenlist reply reveals
	tgroups := []string{}
	if str(m["type"]) == "usermessage" && (str(m["kind"]) == "token" || str(m["kind"]) == "tokenlist") {
		seen := map[string]bool{}
		add := func(x any) {
			if v, ok := x.(map[string]any); ok {
				g := str(v["group"])
				if !seen[g] {
					seen[g] = true
					tgroups = append(tgroups, g)
				}
			}
		}
		add(m["value"])
		if l, ok := m["value"].([]any); ok {
			for _, x := range l {
				add(x)
			}
		}
		sort.Strings(tgroups)
	}
	tok := map[string]any{"g": "", "perms": []string{}, "exp": 0, "sub": 0, "user": ""}
	if (str(m["type"]) == "groupaction" && (str(m["kind"]) == "maketoken" || str(m["kind"]) == "edittoken")) ||
		(str(m["type"]) == "usermessage" && str(m["kind"]) == "token") {
		if v, ok := m["value"].(map[string]any); ok {
			_, hasExp := v["expires"]
			tok = map[string]any{"g": str(v["group"]), "perms": strs(v["permissions"]), "exp": vt.B(hasExp),
				"sub": b01(v["includeSubgroups"]), "user": str(v["username"])}
		}
	}
	val := str(m["value"])
	if len(val) > 600 {
		val = val[:600]
	}
	return map[string]any{
		"type": str(m["type"]), "kind": str(m["kind"]), "id": str(m["id"]), "source": str(m["source"]),
		"dest": str(m["dest"]), "username": str(m["username"]), "hasuser": vt.B(hasUser),
		"privileged": b01(m["privileged"]), "group": str(m["group"]), "perms": strs(m["permissions"]),
		"value": val, "error": str(m["error"]), "noecho": b01(m["noecho"]), "label": str(m["label"]),
		"replace": str(m["replace"]), "tracks": sdpTracks(str(m["sdp"])), "data": str(m["data"]),
		"request": str(m["request"]), "tok": tok, "clear": clear, "tgroups": tgroups, "seqno": seqno(str(m["id"])),
	}
}

func (d *driver) connect(name string) {
	if old := d.clients[name]; old != nil {
		old.close()
	}
	c := &client{name: name, pong: make(chan struct{}, 64), gone: make(chan struct{}), pubs: map[string]*pub{}, subs: map[string]*webrtc.PeerConnection{}, answer: true}
	ws, _, err := websocket.DefaultDialer.Dial(fmt.Sprintf("ws://127.0.0.1:%d/ws", d.srv.port), nil)
	if err != nil {
		d.emit(map[string]any{"ev": "wsfail", "c": name, "err": err.Error()})
		c.closed.Store(true)
		d.clients[name] = c
		return
	}
	c.ws = ws
	d.clients[name] = c
	d.emit(map[string]any{"ev": "wsopen", "c": name})
	go d.reader(c)
	d.send(c, map[string]any{"type": "handshake", "version": []string{"2"}, "id": name}, false)
}

func (c *client) close() {
	if c.ws != nil && !c.closed.Swap(true) {
		c.ws.Close()
	}
	c.pmu.Lock()
	for _, p := range c.pubs {
		close(p.stop)
		p.pc.Close()
	}
	c.pubs = map[string]*pub{}
	for _, pc := range c.subs {
		pc.Close()
	}
	c.subs = map[string]*webrtc.PeerConnection{}
	c.pmu.Unlock()
}

func (d *driver) send(c *client, m map[string]any, log bool) {
	if c == nil || c.ws == nil || c.closed.Load() {
		return
	}
	if log {
		d.emit(map[string]any{"ev": "sent", "c": c.name, "m": normalise(m)})
	}
	c.wmu.Lock()
	c.ws.SetWriteDeadline(time.Now().Add(2 * time.Second))
	err := c.ws.WriteJSON(m)
	c.wmu.Unlock()
	if err != nil {
		c.closed.Store(true)
	}
}

func (d *driver) reader(c *client) {
	defer close(c.gone)
	for {
		_, data, err := c.ws.ReadMessage()
		if err != nil {
			code := 0
			if ce, ok := err.(*websocket.CloseError); ok {
				code = ce.Code
			}
			if !c.closed.Swap(true) {
				d.emit(map[string]any{"ev": "wsclosed", "c": c.name, "code": code})
			}
			return
		}
		var m map[string]any
		if json.Unmarshal(data, &m) != nil {
			continue
		}
		switch str(m["type"]) {
		case "pong":
			select {
			case c.pong <- struct{}{}:
			default:
			}
			continue
		case "ping":
			d.send(c, map[string]any{"type": "pong"}, false)
			continue
		case "handshake":
			continue
		case "ice":
			d.gotICE(c, m)
			continue
		case "answer":
			d.emit(map[string]any{"ev": "answered", "c": c.name, "id": str(m["id"])})
			d.gotAnswer(c, m)
			continue
		case "offer":
			d.emit(map[string]any{"ev": "recv", "c": c.name, "m": normalise(m)})
			d.gotOffer(c, m)
			continue
		case "close":
			c.pmu.Lock()
			if pc := c.subs[str(m["id"])]; pc != nil {
				pc.Close()
				delete(c.subs, str(m["id"]))
			}
			c.pmu.Unlock()
		}
		d.emit(map[string]any{"ev": "recv", "c": c.name, "m": normalise(m)})
	}
}

// one round trip on a socket: everything the server queued for it before has been read
func (d *driver) ping(c *client) bool {
	if c == nil || c.ws == nil || c.closed.Load() {
		return false
	}
	for len(c.pong) > 0 {
		<-c.pong
	}
	d.send(c, map[string]any{"type": "ping"}, false)
	select {
	case <-c.pong:
		return true
	case <-c.gone:
		return false
	case <-time.After(3 * time.Second):
		pingLate.Add(1)
		return false
	}
}

// pings that were not answered in time since the last barrier: such a barrier proves nothing about what the server has handled
var pingLate atomic.Int64

func (d *driver) settle() {
	names := []string{}
	for n := range d.clients {
		names = append(names, n)
	}
	sort.Strings(names)
	for round := 0; round < 3; round++ {
		for _, n := range names {
			d.ping(d.clients[n])
		}
		time.Sleep(12 * time.Millisecond)
	}
	d.emit(map[string]any{"ev": "settled", "alive": vt.B(d.srv.alive()), "late": pingLate.Swap(0)})
}

// ------------------------------------------------------------------ media (pion)

func newPC() (*webrtc.PeerConnection, error) {
	m := &webrtc.MediaEngine{}
	if err := m.RegisterDefaultCodecs(); err != nil {
		return nil, err
	}
	// no interceptors: the driver's peers send no NACKs or reports of their own
	api := webrtc.NewAPI(webrtc.WithMediaEngine(m), webrtc.WithInterceptorRegistry(&interceptor.Registry{}))
	return api.NewPeerConnection(webrtc.Configuration{})
}

// what the server child logged at its NACK hooks since the last call
func (d *driver) hooklog() {
	p := d.srv.root + ".hooks"
	b, err := os.ReadFile(p)
	if err != nil {
		return
	}
	os.Truncate(p, 0)
	for _, line := range strings.Split(string(b), "\n") {
		var m map[string]any
		if line != "" && json.Unmarshal([]byte(line), &m) == nil {
			m["ev"] = "srvnack"
			d.emit(m)
		}
	}
}

// scripted RTP on the single video track of a publication, with every NACK the server sends upstream logged
func (d *driver) runScript(c *client, id string, p *pub) {
	defer close(p.done)
	for i := 0; i < 500 && p.pc.ConnectionState() != webrtc.PeerConnectionStateConnected; i++ {
		time.Sleep(10 * time.Millisecond)
	}
	if p.pc.ConnectionState() != webrtc.PeerConnectionStateConnected || len(p.tracks) == 0 {
		d.emit(map[string]any{"ev": "rtpdone", "c": c.name, "id": id, "sent": [][]int{}, "connected": 0})
		return
	}
	start := time.Now()
	ms := func() int { return int(time.Since(start) / time.Millisecond) }
	var mu sync.Mutex
	sentAt := map[uint16]int{}
	maxSent := -1
	for _, snd := range p.pc.GetSenders() {
		go func(snd *webrtc.RTPSender) {
			for {
				pkts, _, err := snd.ReadRTCP()
				if err != nil {
					return
				}
				for _, pk := range pkts {
					if n, ok := pk.(*rtcp.TransportLayerNack); ok {
						now := ms()
						seqs := [][]int{}
						mu.Lock()
						for _, np := range n.Nacks {
							for _, sq := range np.PacketList() {
								at, ok := sentAt[sq]
								age := -1
								if ok {
									age = now - at
								}
								seqs = append(seqs, []int{int(sq), age, maxSent})
							}
						}
						mu.Unlock()
						d.emit(map[string]any{"ev": "upnack", "c": c.name, "id": id, "t": now, "seqs": seqs})
					}
				}
			}
		}(snd)
	}
	sent := [][]int{}
	n := 0
	for _, it := range p.script {
		select {
		case <-p.stop:
			return
		default:
		}
		if len(it) < 3 {
			continue
		}
		switch str(it[0]) {
		case "p":
			time.Sleep(time.Duration(num(it[2])) * time.Millisecond)
			sq := uint16(num(it[1]))
			n++
			pl := []byte{0x10, 0x11, 0, 0, 1, 2, 3, 4, byte(n)}
			if n == 1 {
				pl = []byte{0x10, 0x10, 0, 0, 0x9d, 0x01, 0x2a, 0x80, 0x02, 0xe0, 0x01, 0, 0}
			}
			mu.Lock()
			if _, dup := sentAt[sq]; !dup {
				sentAt[sq] = ms()
			}
			if int(sq) > maxSent {
				maxSent = int(sq)
			}
			mu.Unlock()
			p.tracks[0].WriteRTP(&rtp.Packet{Header: rtp.Header{Version: 2, SequenceNumber: sq, Timestamp: uint32(n) * 3000, Marker: true}, Payload: pl})
			sent = append(sent, []int{int(sq), ms()})
		case "n":
			if len(it) > 3 {
				time.Sleep(time.Duration(num(it[3])) * time.Millisecond)
			}
			sc := d.clients[str(it[1])]
			l, _ := it[2].([]any)
			seqs := []uint16{}
			for _, x := range l {
				seqs = append(seqs, uint16(num(x)))
			}
			if sc != nil {
				sc.pmu.Lock()
				pc, ssrc := sc.subs[id], sc.ssrc[id]
				sc.pmu.Unlock()
				if pc != nil && ssrc != 0 {
					pc.WriteRTCP([]rtcp.Packet{&rtcp.TransportLayerNack{SenderSSRC: 1, MediaSSRC: ssrc, Nacks: rtcp.NackPairsFromSequenceNumbers(seqs)}})
					d.emit(map[string]any{"ev": "subnack", "c": sc.name, "id": id, "t": ms(), "seqs": seqs})
				} else {
					d.emit(map[string]any{"ev": "subnack-skipped", "c": str(it[1]), "id": id})
				}
			}
		}
	}
	time.Sleep(400 * time.Millisecond) // let the last NACKs come in
	d.emit(map[string]any{"ev": "rtpdone", "c": c.name, "id": id, "sent": sent, "connected": 1})
}

func (d *driver) publish(c *client, id, label string, naudio, nvideo int, replace string) {
	d.publishScript(c, id, label, naudio, nvideo, replace, nil)
}

func (d *driver) publishScript(c *client, id, label string, naudio, nvideo int, replace string, script [][]any) {
	pc, err := newPC()
	if err != nil {
		d.emit(map[string]any{"ev": "puberr", "c": c.name, "err": err.Error()})
		return
	}
	p := &pub{pc: pc, stop: make(chan struct{})}
	add := func(mime, kind string, i int) {
		t, err := webrtc.NewTrackLocalStaticRTP(webrtc.RTPCodecCapability{MimeType: mime, ClockRate: map[string]uint32{"audio": 48000, "video": 90000}[kind]},
			fmt.Sprintf("%s-%s-%s%d", c.name, id, kind, i), "s-"+id)
		if err != nil {
			return
		}
		if _, err := pc.AddTransceiverFromTrack(t, webrtc.RTPTransceiverInit{Direction: webrtc.RTPTransceiverDirectionSendonly}); err != nil {
			return
		}
		p.tracks = append(p.tracks, t)
	}
	for i := 0; i < naudio; i++ {
		add(webrtc.MimeTypeOpus, "audio", i)
	}
	for i := 0; i < nvideo; i++ {
		add(webrtc.MimeTypeVP8, "video", i)
	}
	pc.OnICECandidate(func(cand *webrtc.ICECandidate) {
		if cand != nil {
			d.send(c, map[string]any{"type": "ice", "id": id, "candidate": cand.ToJSON()}, false)
		}
	})
	offer, err := pc.CreateOffer(nil)
	if err == nil {
		err = pc.SetLocalDescription(offer)
	}
	if err != nil {
		d.emit(map[string]any{"ev": "puberr", "c": c.name, "err": err.Error()})
		pc.Close()
		return
	}
	c.pmu.Lock()
	c.pubs[id] = p
	c.pmu.Unlock()
	if script != nil {
		p.script, p.done = script, make(chan struct{})
		go d.runScript(c, id, p)
		m := map[string]any{"type": "offer", "id": id, "label": label, "source": c.name, "sdp": pc.LocalDescription().SDP}
		d.send(c, m, true)
		return
	}
	// RTP on every track, tracks started one after the other so that the order in which the
	// server sees them is the order in which they were added
	go func() {
		// nothing is sent before the connection is up: otherwise every track is "started" by then, their first packets leave
		// together and the server discovers the tracks in an arbitrary order
		for i := 0; i < 500 && pc.ConnectionState() != webrtc.PeerConnectionStateConnected; i++ {
			select {
			case <-p.stop:
				return
			case <-time.After(10 * time.Millisecond):
			}
		}
		seq := uint16(1)
		started := 0
		tick := time.NewTicker(15 * time.Millisecond)
		defer tick.Stop()
		n := 0
		for {
			select {
			case <-p.stop:
				return
			case <-tick.C:
			}
			n++
			if n%5 == 1 && started < len(p.tracks) {
				started++
			}
			for i := 0; i < started; i++ {
				pl := []byte{0x90, 0x80, byte(n), 0x00, 1, 2, 3, 4}
				if p.tracks[i].Kind() == webrtc.RTPCodecTypeAudio {
					pl = []byte{0xfc, 0xff, 0xfe}
				}
				p.tracks[i].WriteRTP(&rtp.Packet{Header: rtp.Header{Version: 2, SequenceNumber: seq, Timestamp: uint32(n) * 960, Marker: true}, Payload: pl})
			}
			seq++
		}
	}()
	m := map[string]any{"type": "offer", "id": id, "label": label, "source": c.name, "sdp": pc.LocalDescription().SDP}
	if replace != "" {
		m["replace"] = replace
	}
	d.send(c, m, true)
}

func (d *driver) gotAnswer(c *client, m map[string]any) {
	c.pmu.Lock()
	p := c.pubs[str(m["id"])]
	c.pmu.Unlock()
	if p != nil {
		p.pc.SetRemoteDescription(webrtc.SessionDescription{Type: webrtc.SDPTypeAnswer, SDP: str(m["sdp"])})
	}
}

func (d *driver) gotICE(c *client, m map[string]any) {
	var ci webrtc.ICECandidateInit
	b, _ := json.Marshal(m["candidate"])
	if json.Unmarshal(b, &ci) != nil {
		return
	}
	id := str(m["id"])
	c.pmu.Lock()
	defer c.pmu.Unlock()
	if p := c.pubs[id]; p != nil {
		p.pc.AddICECandidate(ci)
	} else if pc := c.subs[id]; pc != nil {
		pc.AddICECandidate(ci)
	}
}

// a subscriber answers every offer with a real recvonly PeerConnection
func (d *driver) gotOffer(c *client, m map[string]any) {
	if !c.answer {
		return
	}
	id := str(m["id"])
	c.pmu.Lock()
	pc := c.subs[id]
	c.pmu.Unlock()
	if pc == nil {
		var err error
		pc, err = newPC()
		if err != nil {
			return
		}
		pc.OnICECandidate(func(cand *webrtc.ICECandidate) {
			if cand != nil {
				d.send(c, map[string]any{"type": "ice", "id": id, "candidate": cand.ToJSON()}, false)
			}
		})
		pc.OnTrack(func(tr *webrtc.TrackRemote, _ *webrtc.RTPReceiver) {
			c.pmu.Lock()
			if c.ssrc == nil {
				c.ssrc = map[string]uint32{}
			}
			if _, ok := c.ssrc[id]; !ok {
				c.ssrc[id] = uint32(tr.SSRC())
			}
			c.pmu.Unlock()
			buf := make([]byte, 1600)
			for {
				if _, _, err := tr.Read(buf); err != nil {
					return
				}
			}
		})
		c.pmu.Lock()
		c.subs[id] = pc
		c.pmu.Unlock()
	}
	if err := pc.SetRemoteDescription(webrtc.SessionDescription{Type: webrtc.SDPTypeOffer, SDP: str(m["sdp"])}); err != nil {
		return
	}
	ans, err := pc.CreateAnswer(nil)
	if err == nil {
		err = pc.SetLocalDescription(ans)
	}
	if err != nil {
		return
	}
	d.send(c, map[string]any{"type": "answer", "id": id, "sdp": pc.LocalDescription().SDP}, false)
}

// ------------------------------------------------------------------ HTTP and files

func (d *driver) http(name, method, path string, headers map[string]any, body string, user, pass string) {
	ev := d.doHTTP(name, method, path, headers, body, user, pass, true)
	delete(ev, "rawbody")
	ev["digest"], ev["parts"] = d.stateDigest(), d.parts()
	if d.roots {
		ev["roots"] = d.rootDigests()
	}
	d.emit(ev)
}

// several requests fired at the same moment (racing conditional writers); one event with every status
func (d *driver) httprace(name string, reqs []any) {
	res := make([]map[string]any, len(reqs))
	var wg sync.WaitGroup
	start := make(chan struct{})
	for i, r := range reqs {
		a, _ := r.([]any)
		if len(a) < 8 {
			continue
		}
		hd, _ := a[4].(map[string]any)
		wg.Add(1)
		go func(i int, a []any, hd map[string]any) {
			defer wg.Done()
			<-start
			res[i] = d.doHTTP(str(a[1]), str(a[2]), str(a[3]), hd, str(a[5]), str(a[6]), str(a[7]), false)
		}(i, a, hd)
	}
	close(start)
	wg.Wait()
	statuses, leaks, oks := []int{}, []string{}, 0
	for _, r := range res {
		if r == nil {
			continue
		}
		st, _ := r["status"].(int)
		statuses = append(statuses, st)
		if st >= 200 && st < 300 {
			oks++
		}
		if l, ok := r["leaks"].([]string); ok {
			leaks = append(leaks, l...)
		}
	}
	d.emit(map[string]any{"ev": "httprace", "name": name, "statuses": statuses, "oks": oks, "leaks": leaks, "digest": d.stateDigest(), "parts": d.parts()})
}

// lock-free readers against one writer: every (tag, body) pair any reader was served
func (d *driver) readrace(name string, rd []any, writes []any, nreaders int) {
	if len(rd) < 8 {
		return
	}
	type pair struct{ etag, body string }
	var mu sync.Mutex
	seen := map[pair]int{}
	var stop atomic.Bool
	var wg sync.WaitGroup
	reads := atomic.Int64{}
	noresp := atomic.Int64{}
	hd, _ := rd[4].(map[string]any)
	for i := 0; i < nreaders; i++ {
		wg.Add(1)
		go func() {
			defer wg.Done()
			for !stop.Load() {
				r := d.doHTTP("", str(rd[2]), str(rd[3]), hd, "", str(rd[6]), str(rd[7]), false)
				st, _ := r["status"].(int)
				reads.Add(1)
				if st == -1 {
					noresp.Add(1)
				}
				if st == 200 {
					mu.Lock()
					seen[pair{str(r["etag"]), str(r["rawbody"])}]++
					mu.Unlock()
				}
			}
		}()
	}
	acked := 0
	for _, wr := range writes {
		a, _ := wr.([]any)
		if len(a) < 8 {
			continue
		}
		h, _ := a[4].(map[string]any)
		r := d.doHTTP("", str(a[2]), str(a[3]), h, str(a[5]), str(a[6]), str(a[7]), false)
		if st, _ := r["status"].(int); st >= 200 && st < 300 {
			acked++
		}
	}
	stop.Store(true)
	wg.Wait()
	bodies := map[string]map[string]bool{}
	partial := 0
	for p := range seen {
		if bodies[p.etag] == nil {
			bodies[p.etag] = map[string]bool{}
		}
		bodies[p.etag][p.body] = true
		var v any
		if json.Unmarshal([]byte(p.body), &v) != nil {
			partial++
		}
	}
	conflicts := [][]string{}
	for t, bs := range bodies {
		if len(bs) > 1 {
			l := []string{t}
			for b := range bs {
				l = append(l, b)
			}
			conflicts = append(conflicts, l)
		}
	}
	d.emit(map[string]any{"ev": "readrace", "name": name, "reads": reads.Load(), "noresp": noresp.Load(), "acked": acked, "versions": len(bodies), "conflicts": conflicts, "partial": partial,
		"digest": d.stateDigest(), "parts": d.parts()})
}

func (d *driver) doHTTP(name, method, path string, headers map[string]any, body string, user, pass string, capture bool) map[string]any {
	req, err := http.NewRequest(method, fmt.Sprintf("http://127.0.0.1:%d%s", d.srv.port, path), strings.NewReader(body))
	if err != nil {
		return map[string]any{"ev": "http", "name": name, "method": method, "path": path, "status": -2, "etag": "", "body": err.Error(), "leaks": []string{}, "ctype": "", "allow": "", "members": [][]string{}}
	}
	for k, v := range headers {
		val := str(v)
		// "$etag:NAME" -> the ETag last served to request NAME, and variations on it
		for _, form := range []string{"$etag:", "$weak:", "$list:", "$listnot:"} {
			if strings.HasPrefix(val, form) {
				t := d.etags[val[len(form):]]
				if t == "" {
					t = "\"no-such-tag\""
				}
				switch form {
				case "$etag:":
					val = t
				case "$weak:":
					val = "W/" + t
				case "$list:":
					val = "\"bogus-1\", " + t + ", \"bogus-2\""
				case "$listnot:":
					val = "\"bogus-1\", \"bogus-2\""
				}
			}
		}
		req.Header.Set(k, val)
	}
	if user != "" || pass != "" {
		req.SetBasicAuth(user, pass)
	}
	cl := &http.Client{Timeout: 5 * time.Second, CheckRedirect: func(*http.Request, []*http.Request) error { return http.ErrUseLastResponse }}
	resp, err := cl.Do(req)
	if err != nil {
		// no HTTP response at all (a handler panic closes the connection)
		return map[string]any{"ev": "http", "name": name, "method": method, "path": path, "status": -1, "etag": "", "body": err.Error(), "leaks": []string{}, "ctype": "", "allow": "", "members": [][]string{}}
	}
	defer resp.Body.Close()
	b, _ := io.ReadAll(io.LimitReader(resp.Body, 1<<20))
	leaks := []string{}
	all := string(b)
	for k, vs := range resp.Header {
		all += "\n" + k + ": " + strings.Join(vs, ",")
	}
	for _, s := range d.sent {
		if strings.Contains(all, s) {
			leaks = append(leaks, s)
		}
	}
	bs := string(b)
	if len(bs) > 400 {
		bs = bs[:400]
	}
	if et := resp.Header.Get("ETag"); et != "" && capture {
		d.etags[name] = et
	}
	members := [][]string{}
	if name == "stats" && resp.StatusCode == 200 {
		var gs []struct {
			Name    string `json:"name"`
			Clients []struct {
				Id string `json:"id"`
			} `json:"clients"`
		}
		if json.Unmarshal(b, &gs) == nil {
			for _, g := range gs {
				for _, c := range g.Clients {
					members = append(members, []string{g.Name, c.Id})
				}
			}
		}
	}
	return map[string]any{"ev": "http", "name": name, "method": method, "path": path, "status": resp.StatusCode, "etag": resp.Header.Get("ETag"), "members": members,
		"body": bs, "leaks": leaks, "ctype": resp.Header.Get("Content-Type"), "allow": resp.Header.Get("Allow"),
		"location": resp.Header.Get("Location"), "rawbody": string(b)}
}

// digest of everything the administrative API may change
func (d *driver) stateDigest() string {
	return digest(filepath.Join(d.srv.root, "groups")) + "/" + digest(filepath.Join(d.srv.root, "data", "var"))
}

func hsh(x any) string {
	b, _ := json.Marshal(x)
	h := sha256.Sum256(b)
	return hex.EncodeToString(h[:6])
}

// the stored definition of every group split into separately addressable parts: [key, hash] pairs
// "g:user:alice:perm", "g:user:alice:pw", "g:wild:perm", "g:wild:pw", "g:keys", "g:rest", and "g:parses"
func (d *driver) parts() [][]string {
	out := [][]string{}
	dir := filepath.Join(d.srv.root, "groups")
	for _, f := range listing(dir) {
		if !strings.HasSuffix(f, ".json") {
			out = append(out, []string{"stray:" + f, "x"})
			continue
		}
		g := strings.TrimSuffix(f, ".json")
		b, _ := os.ReadFile(filepath.Join(dir, f))
		var m map[string]any
		if json.Unmarshal(b, &m) != nil {
			out = append(out, []string{g + ":parses", "no"})
			continue
		}
		out = append(out, []string{g + ":parses", "yes"})
		if fi, err := os.Stat(filepath.Join(dir, f)); err == nil {
			out = append(out, []string{g + ":stat", fmt.Sprintf("%d-%d", fi.Size(), fi.ModTime().UnixNano())})
		}
		if us, ok := m["users"].(map[string]any); ok {
			for name, u := range us {
				um, _ := u.(map[string]any)
				out = append(out, []string{g + ":user:" + name + ":perm", hsh(um["permissions"])})
				out = append(out, []string{g + ":user:" + name + ":pw", hsh(um["password"])})
			}
		}
		if w, ok := m["wildcard-user"].(map[string]any); ok {
			out = append(out, []string{g + ":wild:perm", hsh(w["permissions"])}, []string{g + ":wild:pw", hsh(w["password"])})
		}
		out = append(out, []string{g + ":keys", hsh(m["authKeys"])})
		delete(m, "users")
		delete(m, "wildcard-user")
		delete(m, "authKeys")
		out = append(out, []string{g + ":rest", hsh(m)})
	}
	sort.Slice(out, func(i, j int) bool { return out[i][0] < out[j][0] })
	return out
}

// WHIP: a real SDP offer POSTed to the group's .whip endpoint; the session's resource URL is remembered
func (d *driver) whip(name, grp, bearer, user, pass string) {
	pc, err := newPC()
	if err != nil {
		return
	}
	defer pc.Close()
	t, _ := webrtc.NewTrackLocalStaticRTP(webrtc.RTPCodecCapability{MimeType: webrtc.MimeTypeOpus, ClockRate: 48000}, "a", "s")
	pc.AddTransceiverFromTrack(t, webrtc.RTPTransceiverInit{Direction: webrtc.RTPTransceiverDirectionSendonly})
	offer, err := pc.CreateOffer(nil)
	if err == nil {
		err = pc.SetLocalDescription(offer)
	}
	if err != nil {
		return
	}
	req, _ := http.NewRequest("POST", fmt.Sprintf("http://127.0.0.1:%d/group/%s/.whip", d.srv.port, grp), strings.NewReader(pc.LocalDescription().SDP))
	req.Header.Set("Content-Type", "application/sdp")
	if bearer != "" {
		req.Header.Set("Authorization", "Bearer "+bearer)
	} else if user != "" {
		req.SetBasicAuth(user, pass)
	}
	cl := &http.Client{Timeout: 5 * time.Second}
	resp, err := cl.Do(req)
	if err != nil {
		d.emit(map[string]any{"ev": "whip", "name": name, "status": -1, "location": "", "bearer": bearer})
		return
	}
	io.Copy(io.Discard, resp.Body)
	resp.Body.Close()
	if d.whips == nil {
		d.whips = map[string]string{}
	}
	loc := resp.Header.Get("Location")
	if resp.StatusCode == 201 {
		d.whips[name] = loc
	}
	d.emit(map[string]any{"ev": "whip", "name": name, "status": resp.StatusCode, "location": vt.B(loc != ""), "bearer": bearer, "creds": vt.B(bearer != "" || user != "")})
}

// a later request on a WHIP session: how = "same" | "none" | "wrong" bearer
func (d *driver) whipreq(name, method, how, bearer string) {
	loc := d.whips[name]
	if loc == "" {
		d.emit(map[string]any{"ev": "whipreq", "name": name, "method": method, "how": how, "status": -3, "gone": 0})
		return
	}
	body := ""
	if method == "PATCH" {
		body = "a=ice-ufrag:x\r\na=ice-pwd:yyyyyyyyyyyyyyyyyyyyyy\r\n"
	}
	req, _ := http.NewRequest(method, fmt.Sprintf("http://127.0.0.1:%d%s", d.srv.port, loc), strings.NewReader(body))
	if method == "PATCH" {
		req.Header.Set("Content-Type", "application/trickle-ice-sdpfrag")
	}
	switch how {
	case "same":
		req.Header.Set("Authorization", "Bearer "+bearer)
	case "wrong":
		req.Header.Set("Authorization", "Bearer not-"+bearer)
	}
	cl := &http.Client{Timeout: 5 * time.Second}
	resp, err := cl.Do(req)
	st := -1
	if err == nil {
		st = resp.StatusCode
		io.Copy(io.Discard, resp.Body)
		resp.Body.Close()
	}
	if st == 200 && method == "DELETE" {
		delete(d.whips, name)
	}
	d.emit(map[string]any{"ev": "whipreq", "name": name, "method": method, "how": how, "status": st})
}

func digest(root string) string {
	h := sha256.New()
	filepath.Walk(root, func(p string, fi os.FileInfo, err error) error {
		if err != nil || fi.IsDir() {
			return nil
		}
		rel, _ := filepath.Rel(root, p)
		b, _ := os.ReadFile(p)
		fmt.Fprintf(h, "%s:%d:", rel, len(b))
		h.Write(b)
		return nil
	})
	return hex.EncodeToString(h.Sum(nil))[:16]
}

func listing(root string) []string {
	out := []string{}
	filepath.Walk(root, func(p string, fi os.FileInfo, err error) error {
		if err != nil || fi.IsDir() {
			return nil
		}
		rel, _ := filepath.Rel(root, p)
		out = append(out, rel)
		return nil
	})
	sort.Strings(out)
	return out
}

func (d *driver) files() {
	r := d.srv.root
	d.emit(map[string]any{"ev": "files", "digest": d.stateDigest(), "parts": d.parts(), "groups": digest(filepath.Join(r, "groups")), "data": digest(filepath.Join(r, "data")),
		"outside": digest(filepath.Join(r, "outside")), "recordings": listing(filepath.Join(r, "recordings")),
		"grouplist": listing(filepath.Join(r, "groups")), "rootlist": listing(r), "roots": d.rootDigests()})
}

// fixture: {"files": {"groups/g.json": "...", ...}, "sentinels": ["..."]}
func (d *driver) fixture(fx map[string]any) {
	r := d.srv.root
	os.RemoveAll(r)
	for _, sub := range []string{"groups", "data/var", "static", "recordings", "outside"} {
		os.MkdirAll(filepath.Join(r, sub), 0700)
	}
	if fs, ok := fx["files"].(map[string]any); ok {
		for name, content := range fs {
			p := filepath.Join(r, name)
			os.MkdirAll(filepath.Dir(p), 0700)
			os.WriteFile(p, []byte(str(content)), 0600)
		}
	}
	d.sent = nil
	if ss, ok := fx["sentinels"].([]any); ok {
		for _, s := range ss {
			d.sent = append(d.sent, str(s))
		}
	}
}

// ------------------------------------------------------------------ interpreter

type beh struct {
	Name    string         `json:"name"`
	Fixture map[string]any `json:"fixture"`
	Steps   [][]any        `json:"steps"`
	Crash   string         `json:"crash"`
	Roots   bool           `json:"roots"`
	Delay   string         `json:"delay"`
	Fsize   int            `json:"fsize"`
	Fkill   bool           `json:"fkill"`
}

func num(x any) int {
	if f, ok := x.(float64); ok {
		return int(f)
	}
	return 0
}

func (d *driver) runBeh(b beh, idx int) {
	d.srv.stop()
	d.fixture(b.Fixture)
	d.srv.crash = b.Crash
	d.srv.delay = b.Delay
	d.srv.fsize = b.Fsize
	d.srv.fkill = b.Fkill
	d.roots = b.Roots
	if err := d.srv.start(); err != nil {
		d.emit(map[string]any{"ev": "New", "name": b.Name, "idx": idx})
		d.emit(map[string]any{"ev": "startfail", "err": err.Error()})
		return
	}
	d.clients = map[string]*client{}
	d.etags = map[string]string{}
	d.whips = map[string]string{}
	d.emit(map[string]any{"ev": "New", "name": b.Name, "idx": idx})
	for si, st := range b.Steps {
		if len(st) == 0 {
			continue
		}
		op := str(st[0])
		if os.Getenv("VERIF_TIMING") != "" {
			defer func(t0 time.Time, si int) {}(time.Now(), si)
			fmt.Fprintf(os.Stderr, "%s step %d %v\n", time.Now().Format("15:04:05.000"), si, st)
		}
		if !d.srv.alive() && op != "restart" && op != "files" {
			d.emit(map[string]any{"ev": "dead", "step": si, "panic": d.srv.panicLine(), "frame": d.srv.panicFrame()})
			// restart so that the remaining steps are still exercised
			d.srv.start()
			d.clients = map[string]*client{}
			d.emit(map[string]any{"ev": "restarted"})
		}
		switch op {
		case "ws":
			d.connect(str(st[1]))
		case "send":
			if m, ok := st[2].(map[string]any); ok {
				d.send(d.clients[str(st[1])], m, true)
			}
		case "raw":
			c := d.clients[str(st[1])]
			if c != nil && c.ws != nil && !c.closed.Load() {
				d.emit(map[string]any{"ev": "sentraw", "c": c.name, "text": str(st[2])})
				c.wmu.Lock()
				c.ws.WriteMessage(websocket.TextMessage, []byte(str(st[2])))
				c.wmu.Unlock()
			}
		case "closews":
			if c := d.clients[str(st[1])]; c != nil {
				d.emit(map[string]any{"ev": "closews", "c": c.name})
				c.close()
			}
		case "noanswer":
			if c := d.clients[str(st[1])]; c != nil {
				c.answer = false
				d.emit(map[string]any{"ev": "noanswer", "c": c.name})
			}
		case "waittracks":
			// until the server's statistics show stream st[1] with st[2] tracks (the publication is complete), at most st[3] ms
			d.waitTracks(str(st[1]), num(st[2]), num(st[3]))
		case "settle":
			d.settle()
		case "rawhttp":
			h, _ := st[4].(map[string]any)
			d.rawhttp(str(st[1]), str(st[2]), str(st[3]), h, str(st[5]), str(st[6]), str(st[7]))
		case "readrace":
			rd, _ := st[2].([]any)
			ws, _ := st[3].([]any)
			d.readrace(str(st[1]), rd, ws, num(st[4]))
		case "httprace":
			rs, _ := st[2].([]any)
			d.httprace(str(st[1]), rs)
		case "http":
			h, _ := st[4].(map[string]any)
			d.http(str(st[1]), str(st[2]), str(st[3]), h, str(st[5]), str(st[6]), str(st[7]))
		case "publish":
			if c := d.clients[str(st[1])]; c != nil && c.ws != nil {
				rep := ""
				if len(st) > 6 {
					rep = str(st[6])
				}
				d.publish(c, str(st[2]), str(st[3]), num(st[4]), num(st[5]), rep)
			}
		case "rtpscript":
			// ["rtpscript", client, id, label, script]: one video track whose packets follow the script
			if c := d.clients[str(st[1])]; c != nil {
				sc := [][]any{}
				if l, ok := st[4].([]any); ok {
					for _, x := range l {
						if a, ok := x.([]any); ok {
							sc = append(sc, a)
						}
					}
				}
				d.publishScript(c, str(st[2]), str(st[3]), 0, 1, "", sc)
			}
		case "hooklog":
			d.hooklog()
		case "rtpwait":
			if c := d.clients[str(st[1])]; c != nil {
				c.pmu.Lock()
				p := c.pubs[str(st[2])]
				c.pmu.Unlock()
				if p != nil && p.done != nil {
					select {
					case <-p.done:
					case <-time.After(time.Duration(num(st[3])) * time.Millisecond):
						d.emit(map[string]any{"ev": "rtptimeout", "c": c.name, "id": str(st[2])})
					}
				}
			}
		case "unpublish":
			if c := d.clients[str(st[1])]; c != nil {
				c.pmu.Lock()
				if p := c.pubs[str(st[2])]; p != nil {
					close(p.stop)
					p.pc.Close()
					delete(c.pubs, str(st[2]))
				}
				c.pmu.Unlock()
				d.send(c, map[string]any{"type": "close", "id": str(st[2])}, true)
			}
		case "whip":
			d.whip(str(st[1]), str(st[2]), str(st[3]), str(st[4]), str(st[5]))
		case "whipreq":
			d.whipreq(str(st[1]), str(st[2]), str(st[3]), str(st[4]))
		case "files":
			d.files()
		case "restart":
			d.srv.stop()
			d.srv.start()
			d.clients = map[string]*client{}
			d.emit(map[string]any{"ev": "restarted"})
		case "sleep":
			time.Sleep(time.Duration(num(st[1])) * time.Millisecond)
		}
	}
	if !d.srv.alive() {
		d.emit(map[string]any{"ev": "dead", "step": len(b.Steps), "panic": d.srv.panicLine(), "frame": d.srv.panicFrame()})
	}
	// the final judgement (views, liveness) is made before the driver drops its connections
	d.settle()
	d.emit(map[string]any{"ev": "End", "alive": vt.B(d.srv.alive())})
	for _, c := range d.clients {
		c.close()
	}
	time.Sleep(5 * time.Millisecond)
}

func main() {
	if os.Getenv("VERIF_SERVE") == "1" {
		serve()
		return
	}
	tr := vt.OpenTrace()
	defer tr.Close()
	var behs []beh
	if !vt.Script(&behs) {
		fmt.Println("no script")
		os.Exit(2)
	}
	base, err := os.MkdirTemp("", "verif-srv-")
	if err != nil {
		panic(err)
	}
	defer os.RemoveAll(base)
	d := &driver{tr: tr, srv: &server{root: filepath.Join(base, "root")}, clients: map[string]*client{}}
	for i, b := range behs {
		d.runBeh(b, i)
	}
	d.srv.stop()
}
