// cachedrive: drives the real packetcache.Cache through its public API (C05, C06) and records one
// NDJSON event per call.  Packet bytes, length, timestamp and marker are derived from a content
// id; lookups are mapped back to an id (0 = nothing, -1 = bytes that match no stored packet).
package main

import (
	"bytes"
	"math/rand"

	"github.com/jech/galene/packetcache"

	"verif/vt"
)

type beh struct {
	Start int     `json:"start"`
	Cap   int     `json:"cap"`
	Ops   [][]int `json:"ops"` // [kind, a, b, c]
}

const (
	opArrive = iota // off, id?, kf, pk
	opGet           // seq offset back from newest
	opGetAt
	opResize
	opResizeCond
	opStats
)

type rig struct {
	tr      *vt.Trace
	c       *packetcache.Cache
	sh      uint16 // seqno of highest position
	hi      int
	started bool
	nextID  int
	byID    map[int][]byte
	under   map[uint16][]int // ids stored under a seqno
	recent  []struct {
		s   uint16
		idx uint16
	}
}

func content(id int) []byte {
	r := rand.New(rand.NewSource(int64(id)*7919 + 13))
	var n int
	switch id % 7 {
	case 0:
		n = 1504
	case 1:
		n = 1 + id%7
	case 2:
		n = 1503
	default:
		n = 8 + r.Intn(1400)
	}
	b := make([]byte, n)
	r.Read(b)
	if n >= 8 {
		b[0], b[1], b[2], b[3] = byte(id>>24), byte(id>>16), byte(id>>8), byte(id)
	}
	return b
}

func (r *rig) identify(s uint16, got []byte) int {
	if len(got) == 0 {
		return 0
	}
	for _, id := range r.under[s] {
		if bytes.Equal(r.byID[id], got) {
			return id
		}
	}
	for id, b := range r.byID {
		if bytes.Equal(b, got) {
			return id
		}
	}
	return -1
}

func newRig(tr *vt.Trace, start, cap int, kind string) *rig {
	tr.Emit(map[string]any{"ev": "New", "start": start, "cap": cap, "kind": kind})
	return &rig{tr: tr, c: packetcache.New(cap), sh: uint16(start - 1), hi: -1, nextID: 1,
		byID: map[int][]byte{}, under: map[uint16][]int{}}
}

func seqsOf(first, bitmap uint16) []int {
	out := []int{int(first)}
	for k := 0; k < 16; k++ {
		if bitmap&(1<<k) != 0 {
			out = append(out, int(first+1+uint16(k)))
		}
	}
	return out
}

// one arrival followed by the NACK decision of rtpconn/rtpreader.go's readLoop
func (r *rig) arrive(off int, kf bool, pk int) {
	if !r.started {
		off = 1
	}
	s := r.sh + uint16(off)
	id := r.nextID
	r.nextID++
	b := content(id)
	r.byID[id] = b
	r.under[s] = append(r.under[s], id)
	first, idx := r.c.Store(s, uint32(id*90), kf, id%2 == 1, b)
	ev := map[string]any{"ev": "S", "off": off, "s": int(s), "id": id, "kf": vt.B(kf), "first": int(first),
		"idx": int(idx), "pk": pk, "asked": 0, "next": 0, "nk": []int{}}
	delta := s - first
	if delta&0x8000 != 0 {
		delta = 0
	}
	un := 4
	if un > pk {
		un = pk
	}
	if int(delta) > pk {
		next := s - uint16(un)
		found, f, bm := r.c.BitmapGet(next)
		ev["asked"], ev["next"] = 1, int(next)
		if found {
			nk := seqsOf(f, bm)
			ev["nk"] = nk
			r.c.Expect(len(nk))
		}
	}
	if off >= 1 || (r.started && off < -256) {
		r.sh = s
		r.hi += off
	}
	r.started = true
	r.recent = append(r.recent, struct{ s, idx uint16 }{s, idx})
	if len(r.recent) > 64 {
		r.recent = r.recent[1:]
	}
	r.tr.Emit(ev)
}

func (r *rig) get(s uint16) {
	buf := make([]byte, packetcache.BufSize)
	n := r.c.Get(s, buf)
	n0 := r.c.Get(s, nil)
	rid := r.identify(s, buf[:n])
	if n0 != n {
		rid = -1
	}
	r.tr.Emit(map[string]any{"ev": "G", "s": int(s), "rid": rid, "n": int(n)})
}

func (r *rig) getAt(s, idx uint16) {
	buf := make([]byte, packetcache.BufSize)
	n := r.c.GetAt(s, idx, buf)
	r.tr.Emit(map[string]any{"ev": "A", "s": int(s), "idx": int(idx), "rid": r.identify(s, buf[:n]), "n": int(n)})
}

func (r *rig) stats(reset bool) {
	st := r.c.GetStats(reset)
	last, okl := r.c.Last()
	kf, okk := r.c.Keyframe()
	r.tr.Emit(map[string]any{"ev": "ST", "reset": vt.B(reset),
		"st": map[string]any{"received": int(st.Received), "totalReceived": int(st.TotalReceived),
			"expected": int(st.Expected), "totalExpected": int(st.TotalExpected), "eseqno": int(st.ESeqno)},
		"last": int(last), "lastok": vt.B(okl), "kfs": int(kf), "kfok": vt.B(okk)})
}

func (r *rig) probe(rnd *rand.Rand) {
	// look at recent packets (must be retrievable), older ones and random seqnos
	if len(r.recent) == 0 {
		return
	}
	k := rnd.Intn(len(r.recent))
	x := r.recent[k]
	switch rnd.Intn(6) {
	case 0:
		r.get(r.recent[len(r.recent)-1].s)
	case 1:
		r.get(x.s)
	case 2:
		r.getAt(x.s, x.idx)
	case 3:
		r.getAt(x.s, uint16(rnd.Intn(70)))
	case 4:
		r.get(uint16(rnd.Intn(65536)))
	case 5:
		y := r.recent[rnd.Intn(len(r.recent))]
		r.getAt(x.s, y.idx)
	}
}

func toBitmap(tr *vt.Trace, rnd *rand.Rand) {
	n := 1 + rnd.Intn(12)
	base := uint16([]int{0, 65530, 65535, 100, rnd.Intn(65536)}[rnd.Intn(5)])
	var in []uint16
	s := base
	for i := 0; i < n; i++ {
		in = append(in, s)
		s += uint16(1 + []int{0, 0, 1, 3, 14, 15, 16, 17, 40}[rnd.Intn(9)])
	}
	orig := make([]int, len(in))
	for i, x := range in {
		orig[i] = int(x)
	}
	f, bm, rem := packetcache.ToBitmap(in)
	bits := []int{}
	for k := 0; k < 16; k++ {
		if bm&(1<<k) != 0 {
			bits = append(bits, k)
		}
	}
	remain := make([]int, len(rem))
	for i, x := range rem {
		remain[i] = int(x)
	}
	tr.Emit(map[string]any{"ev": "TB", "in": orig, "first": int(f), "bits": bits, "remain": remain})
}

func randomBeh(tr *vt.Trace, rnd *rand.Rand, length int) {
	start := []int{0, 1, 65535, 65530, 32768, 300, rnd.Intn(65536)}[rnd.Intn(7)]
	cap := []int{1, 2, 3, 5, 8, 16, 24, 128, 1024, 65535}[rnd.Intn(10)]
	r := newRig(tr, start, cap, "random")
	pLoss := rnd.Intn(4) * 3
	pLate := rnd.Intn(3) * 3
	pRes := rnd.Intn(3)
	steady := rnd.Intn(3) == 0
	for i := 0; i < length; i++ {
		pk := []int{2, 3, 4, 24, 24, 24, 10}[rnd.Intn(7)]
		x := rnd.Intn(100)
		switch {
		case steady:
			off := 1
			if rnd.Intn(12) == 0 {
				off = 2
			}
			r.arrive(off, rnd.Intn(40) == 0, pk)
		case x < pLoss:
			r.arrive([]int{2, 2, 3, 5, 17, 18, 32, 33, 34, 100, 257, 300}[rnd.Intn(12)], false, pk)
		case x < pLoss+pLate:
			r.arrive(-[]int{0, 0, 1, 2, 3, 16, 31, 32, 33, 255, 256}[rnd.Intn(11)], false, pk)
		case x == 99 && rnd.Intn(3) == 0:
			r.arrive(-[]int{257, 258, 280, 288, 289, 300, 1000, 30000}[rnd.Intn(8)], false, pk)
		default:
			r.arrive(1, rnd.Intn(40) == 0, pk)
		}
		if rnd.Intn(3) == 0 {
			r.probe(rnd)
		}
		if !steady && rnd.Intn(100) < pRes {
			ncap := []int{1, 2, 3, 4, 7, 8, 16, 32, 100, 1024}[rnd.Intn(10)]
			if rnd.Intn(2) == 0 {
				r.c.Resize(ncap)
				r.tr.Emit(map[string]any{"ev": "R", "cap": ncap})
			} else {
				ok := r.c.ResizeCond(ncap)
				r.tr.Emit(map[string]any{"ev": "RC", "cap": ncap, "ok": vt.B(ok)})
			}
			for j := 0; j < 4; j++ {
				r.probe(rnd)
			}
		}
		if rnd.Intn(30) == 0 {
			r.stats(rnd.Intn(2) == 0)
		}
	}
	r.stats(true)
}

func main() {
	tr := vt.OpenTrace()
	defer tr.Close()
	rnd := rand.New(rand.NewSource(int64(vt.EnvInt("VERIF_SEED", 1))))
	var behs []beh
	if vt.Script(&behs) {
		for _, b := range behs {
			r := newRig(tr, b.Start, b.Cap, "tlc")
			for _, op := range b.Ops {
				switch op[0] {
				case opArrive:
					r.arrive(op[1], op[2] != 0, op[3])
					// after every step look up everything recent, as the model's invariant does
					for _, x := range r.recent {
						r.get(x.s)
						r.getAt(x.s, x.idx)
					}
				case opResize:
					r.c.Resize(op[1])
					r.tr.Emit(map[string]any{"ev": "R", "cap": op[1]})
					for _, x := range r.recent {
						r.get(x.s)
						r.getAt(x.s, x.idx)
					}
				case opResizeCond:
					ok := r.c.ResizeCond(op[1])
					r.tr.Emit(map[string]any{"ev": "RC", "cap": op[1], "ok": vt.B(ok)})
					for _, x := range r.recent {
						r.get(x.s)
					}
				case opStats:
					r.stats(op[1] != 0)
				}
			}
		}
	}
	n := vt.EnvInt("VERIF_N", 20)
	l := vt.EnvInt("VERIF_LEN", 300)
	for i := 0; i < n; i++ {
		randomBeh(tr, rnd, l)
	}
	for i := 0; i < vt.EnvInt("VERIF_TB", 200); i++ {
		toBitmap(tr, rnd)
	}
}
