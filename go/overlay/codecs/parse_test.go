package codecs

// C12-R4 / C02: the packet classifiers and the rewriter on enumerated packet shapes and on seeded random bytes, under
// every codec name, inside recover().  A panic, a changed length, or -- for RewritePacket -- a change outside seqno /
// marker / VP8 picture id is reported.  Shapes come from Rewrite.tla's table (VERIF_IN) plus exhaustive short payloads.

import (
	"bytes"
	"fmt"
	"math/rand"
	"testing"

	"github.com/pion/rtp"
)

var vCodecs = []string{"video/vp8", "video/VP9", "video/av1", "video/h264", "audio/opus", "video/h265", ""}

type vShape struct {
	CC      int `json:"cc"`
	X       int `json:"x"`
	ExtLen  int `json:"extlen"`
	VX      int `json:"vx"`
	VI      int `json:"vi"`
	VM      int `json:"vm"`
	Trunc   int `json:"trunc"` // bytes cut from the end (-1: the full packet)
	Delta   int `json:"delta"`
	Marker  int `json:"marker"`
	Expect  string `json:"expect"` // "rewritten" | "unchanged" | "error"
}

func vBuildShape(s vShape) ([]byte, int, int) {
	b := []byte{0x80 | byte(s.CC), 96, 0x12, 0x34, 0, 0, 0, 1, 0, 0, 0, 2}
	if s.X != 0 {
		b[0] |= 0x10
	}
	for i := 0; i < s.CC; i++ {
		b = append(b, 0xC0, 0, 0, byte(i))
	}
	if s.X != 0 {
		b = append(b, 0xBE, 0xDE, 0, byte(s.ExtLen))
		for i := 0; i < s.ExtLen*4; i++ {
			b = append(b, byte(0x10+i))
		}
	}
	pidOff, pidLen := -1, 0
	d0 := byte(0x10)
	if s.VX != 0 {
		d0 |= 0x80
	}
	b = append(b, d0)
	if s.VX != 0 {
		x := byte(0x20) // T
		if s.VI != 0 {
			x |= 0x80
		}
		b = append(b, x)
		if s.VI != 0 {
			pidOff = len(b)
			if s.VM != 0 {
				b = append(b, 0x80|0x12, 0x34)
				pidLen = 2
			} else {
				b = append(b, 0x45)
				pidLen = 1
			}
		}
		b = append(b, 0x40)
	}
	b = append(b, 0x01, 9, 8, 7, 6, 5, 4, 3, 2, 1)
	return b, pidOff, pidLen
}

type vCall struct {
	Ev     string `json:"ev"`
	Kind   string `json:"kind"`
	Codec  string `json:"codec"`
	Hex    string `json:"hex"`
	Panic  string `json:"panic"`
	LenChg int    `json:"lenchg"`
	Other  int    `json:"other"` // bytes outside seqno/marker/pid changed
	Got    string `json:"got"`
	Expect string `json:"expect"`
}

func vTry(f func()) (p string) {
	defer func() {
		if r := recover(); r != nil {
			p = fmt.Sprint(r)
		}
	}()
	f()
	return ""
}

func vClassify(tr *vTrace, codec string, data []byte, kind string) {
	c := vCall{Ev: "parse", Kind: kind, Codec: codec}
	orig := bytes.Clone(data)
	c.Panic = vTry(func() {
		var p rtp.Packet
		if err := p.Unmarshal(data); err == nil {
			Keyframe(codec, &p)
			KeyframeDimensions(codec, &p)
		}
		PacketFlags(codec, data)
	})
	if !bytes.Equal(orig, data) {
		c.Other = 1
	}
	if c.Panic != "" || c.Other != 0 {
		c.Hex = fmt.Sprintf("%x", orig)
	}
	tr.Emit(c)
}

// Keyframe is also reached with payloads that pion has already split off the header
func vClassifyPayload(tr *vTrace, codec string, payload []byte) {
	c := vCall{Ev: "parse", Kind: "payload", Codec: codec}
	c.Panic = vTry(func() {
		p := rtp.Packet{Header: rtp.Header{Version: 2}, Payload: payload}
		Keyframe(codec, &p)
		KeyframeDimensions(codec, &p)
	})
	if c.Panic != "" {
		c.Hex = fmt.Sprintf("%x", payload)
	}
	tr.Emit(c)
}

func vRewrite(tr *vTrace, kind string, codec string, data []byte, marker bool, seqno, delta uint16, pidOff, pidLen int, expect string) {
	c := vCall{Ev: "rewrite", Kind: kind, Codec: codec, Expect: expect}
	orig := bytes.Clone(data)
	var err error
	c.Panic = vTry(func() { err = RewritePacket(codec, data, marker, seqno, delta) })
	c.LenChg = len(data) - len(orig)
	changedPid := false
	for i := range orig {
		if i >= len(data) || orig[i] == data[i] {
			continue
		}
		switch {
		case i == 2 || i == 3:
		case i == 1 && (orig[i]^data[i]) == 0x80 && marker:
		case pidOff >= 0 && i >= pidOff && i < pidOff+pidLen && codec == "video/vp8":
			changedPid = true
		case kind == "random" && i >= 12:
			// where the picture id of random bytes lies is not known to the harness: only the fixed header is judged
		default:
			c.Other = 1
		}
	}
	switch {
	case err != nil:
		c.Got = "error"
	case changedPid:
		c.Got = "rewritten"
	default:
		c.Got = "unchanged"
	}
	if c.Panic != "" || c.Other != 0 || c.LenChg != 0 || (expect != "" && c.Got != expect) {
		c.Hex = fmt.Sprintf("%x", orig)
	}
	tr.Emit(c)
}

func TestVerifParsers(t *testing.T) {
	tr := vOpenTrace()
	defer tr.Close()
	tr.Emit(map[string]any{"ev": "New"})
	var shapes []vShape
	vScript(&shapes)
	for _, s := range shapes {
		full, pidOff, pidLen := vBuildShape(s)
		data := full
		if s.Trunc >= 0 && s.Trunc <= len(full) {
			data = full[:len(full)-s.Trunc]
		}
		if pidOff >= 0 && pidOff+pidLen > len(data) {
			pidLen = max(0, len(data)-pidOff)
		}
		vRewrite(tr, "shape", "video/vp8", bytes.Clone(data), s.Marker != 0, 0x4242, uint16(s.Delta), pidOff, pidLen, s.Expect)
		for _, codec := range vCodecs {
			vClassify(tr, codec, bytes.Clone(data), "shape")
			if codec != "video/vp8" {
				vRewrite(tr, "shape", codec, bytes.Clone(data), s.Marker != 0, 7, uint16(s.Delta), -1, 0, "")
			}
		}
	}
	// every payload of up to 3 bytes over an alphabet of structurally meaningful octets, and of 4 bytes over a smaller one
	alpha := []byte{0x00, 0x01, 0x02, 0x03, 0x04, 0x05, 0x07, 0x08, 0x10, 0x18, 0x19, 0x1a, 0x1b, 0x1c, 0x1d, 0x20, 0x30, 0x3f, 0x40, 0x7c, 0x7f, 0x80, 0x81, 0x88, 0x90, 0xa0, 0xc0, 0xe0, 0xf0, 0xfe, 0xff}
	var gen func(prefix []byte, n int, al []byte)
	gen = func(prefix []byte, n int, al []byte) {
		for _, codec := range vCodecs[:4] {
			vClassifyPayload(tr, codec, bytes.Clone(prefix))
		}
		if n == 0 {
			return
		}
		for _, a := range al {
			gen(append(bytes.Clone(prefix), a), n-1, al)
		}
	}
	gen(nil, 3, alpha)
	gen(nil, 4, []byte{0x00, 0x01, 0x03, 0x04, 0x18, 0x1b, 0x80, 0xff})
	// seeded random packets and payloads
	r := rand.New(rand.NewSource(int64(vEnvInt("VERIF_SEED", 1))))
	n := vEnvInt("VERIF_N", 20000)
	for i := 0; i < n; i++ {
		l := r.Intn(64)
		if r.Intn(10) == 0 {
			l = r.Intn(1500)
		}
		b := make([]byte, l)
		r.Read(b)
		if l > 0 && r.Intn(2) == 0 {
			b[0] = 0x80 | byte(r.Intn(3)) | byte(r.Intn(2))<<4
		}
		codec := vCodecs[r.Intn(len(vCodecs))]
		vClassify(tr, codec, bytes.Clone(b), "random")
		vClassifyPayload(tr, codec, bytes.Clone(b))
		vRewrite(tr, "random", codec, bytes.Clone(b), r.Intn(2) == 0, uint16(r.Intn(65536)), uint16(r.Intn(4)*r.Intn(40000)), -1, 0, "")
	}
}
