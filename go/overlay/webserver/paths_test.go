package webserver

// C19: the URL-to-group parser and the path splitter on Paths.tla's table and seeded hostile strings.

import (
	"fmt"
	"math/rand"
	"strings"
	"testing"
)

func vHostile(r *rand.Rand) string {
	al := []string{"a", "b", "g", ".", "..", "/", "/", "\\", "%", "%2e", "%2f", "\x00", "é", "日", " ", "..", "~", ".h", ".users", "*"}
	n := 1 + r.Intn(6)
	s := ""
	for i := 0; i < n; i++ {
		s += al[r.Intn(len(al))]
	}
	return s
}

func TestVerifPaths(t *testing.T) {
	var sc struct {
		Cases []struct {
			Name  string `json:"name"`
			Parse string `json:"parse"`
		} `json:"cases"`
	}
	vScript(&sc)
	tr := vOpenTrace()
	defer tr.Close()
	type nm struct {
		name   string
		hasExp bool
		parse  string
	}
	names := []nm{}
	for _, c := range sc.Cases {
		names = append(names, nm{c.Name, true, c.Parse})
	}
	for _, s := range []string{"a\\b", "a/b\\c", "\\", "..\\x", "a/..\\..\\x", "a/.h", ".h/a", "a//", "//a", "a/./b/", "a/../..", "a\x00b"} {
		names = append(names, nm{name: s})
	}
	r := rand.New(rand.NewSource(int64(vEnvInt("VERIF_SEED", 1))))
	for i := 0; i < vEnvInt("VERIF_N", 300); i++ {
		names = append(names, nm{name: vHostile(r)})
	}
	for _, n := range names {
		for _, prefix := range []string{"/group/", ""} {
			func() {
				ev := map[string]any{"ev": "parse", "prefix": prefix, "name": n.name, "hasexp": vB(n.hasExp && prefix != ""), "exp": n.parse, "panic": ""}
				defer func() {
					if p := recover(); p != nil {
						ev["panic"] = fmt.Sprint(p)
						ev["out"], ev["out_comps"], ev["out_bs"] = "", []string{""}, 0
						tr.Emit(ev)
					}
				}()
				out := parseGroupName(prefix, prefix+n.name)
				ev["out"], ev["out_comps"], ev["out_bs"] = out, strings.Split(out, "/"), vB(strings.Contains(out, "\\"))
				tr.Emit(ev)
			}()
		}
		func() {
			defer func() { recover() }()
			a, b, c := splitPath("/" + n.name)
			// splitPath is a pure partition of its input
			tr.Emit(map[string]any{"ev": "split", "name": n.name, "whole": vB(a+func() string {
				if b == "" && c == "" && !strings.Contains("/"+n.name, "/.") {
					return ""
				}
				return "/" + b
			}()+c == "/"+n.name), "first": a, "kind": b, "rest": c})
		}()
	}
}
