package diskwriter

// C20: the recorder on scripted delivery histories.  A fake publisher (conn.Up / conn.UpTrack with its own packet cache) feeds the
// real diskwriter.Client through PushConn; the history (direct deliveries, packets only in the cache, late arrivals, duplicates, losses,
// sender reports, stop / departure) comes from Recorder.tla or a seeded generator; the files that result are parsed back with ebml-go
// and every sample is reported with a hash, next to the hashes of the frames that were sent.

import (
	"crypto/sha256"
	"encoding/binary"
	"encoding/hex"
	"fmt"
	"math/rand"
	"os"
	"path/filepath"
	"sort"
	"sync"
	"testing"
	"time"

	"github.com/at-wat/ebml-go"
	"github.com/at-wat/ebml-go/webm"
	"github.com/pion/rtp"
	"github.com/pion/webrtc/v4"

	"github.com/jech/galene/conn"
	"github.com/jech/galene/group"
	"github.com/jech/galene/rtptime"
)

type rcTrack struct {
	mu     sync.Mutex
	kind   webrtc.RTPCodecType
	mime   string
	clock  uint32
	label  string
	cache  map[uint16][]byte
	local  conn.DownTrack
	kfreqs int
	fetch  []uint16
}

func (t *rcTrack) AddLocal(d conn.DownTrack) error { t.local = d; return nil }
func (t *rcTrack) DelLocal(d conn.DownTrack) bool  { t.local = nil; return true }
func (t *rcTrack) Kind() webrtc.RTPCodecType        { return t.kind }
func (t *rcTrack) Label() string                    { return t.label }
func (t *rcTrack) Codec() webrtc.RTPCodecCapability {
	ch := uint16(0)
	if t.kind == webrtc.RTPCodecTypeAudio {
		ch = 2
	}
	return webrtc.RTPCodecCapability{MimeType: t.mime, ClockRate: t.clock, Channels: ch}
}
func (t *rcTrack) GetPacket(seqno uint16, result []byte, nack bool) uint16 {
	t.mu.Lock()
	defer t.mu.Unlock()
	t.fetch = append(t.fetch, seqno)
	b, ok := t.cache[seqno]
	if !ok {
		return 0
	}
	return uint16(copy(result, b))
}
func (t *rcTrack) RequestKeyframe() error { t.kfreqs++; return nil }

type rcUp struct {
	id, user string
	down     conn.Down
}

func (u *rcUp) AddLocal(d conn.Down) error { u.down = d; return nil }
func (u *rcUp) DelLocal(d conn.Down) bool  { u.down = nil; return true }
func (u *rcUp) Id() string                 { return u.id }
func (u *rcUp) Label() string              { return "camera" }
func (u *rcUp) User() (string, string)     { return "pubid", u.user }

type rcFrameSpec struct {
	N    int `json:"n"`    // packets
	KF   int `json:"kf"`   // keyframe
	Size int `json:"size"` // bytes of frame data
	Dim  int `json:"dim"`  // keyframes: 0 = 640x480, 1 = 320x240 (a change of dimensions starts a new file)
}
type rcTrackSpec struct {
	Kind   string        `json:"kind"` // "video" | "audio"
	Codec  string        `json:"codec"`
	Seq0   int           `json:"seq0"`
	TS0    uint32        `json:"ts0"`
	Frames []rcFrameSpec `json:"frames"`
}
type rcOp struct {
	Op string `json:"op"` // D deliver | S cache only | H hold | L release a held packet | U duplicate | X lose | SR | sleep | close
	T  int    `json:"t"`
	P  int    `json:"p"` // packet index within the track (0-based)
	A  string `json:"a"` // close: "leave" | "stop"; SR: ""
	Ms int    `json:"ms"`
}
type rcBeh struct {
	Name   string        `json:"name"`
	Tracks []rcTrackSpec `json:"tracks"`
	Ops    []rcOp        `json:"ops"`
}

type rcPkt struct {
	frame int
	raw   []byte
	seq   uint16
	ts    uint32
}

func rcHash(b []byte) string {
	h := sha256.Sum256(b)
	return hex.EncodeToString(h[:8])
}

type rcFrameData struct {
	data   []byte
	bounds []int // end offset of every packet's share
}

var rcFrames [][]rcFrameData // per track of the current behaviour

func rcBuildTrack(r *rand.Rand, sp rcTrackSpec) ([]rcPkt, []map[string]any) {
	fds := []rcFrameData{}
	defer func() { rcFrames = append(rcFrames, fds) }()
	pkts := []rcPkt{}
	frames := []map[string]any{}
	seq := uint16(sp.Seq0)
	ts := sp.TS0
	step := uint32(3000)
	if sp.Kind == "audio" {
		step = 960
	}
	for fi, f := range sp.Frames {
		size := f.Size
		if size < 12 {
			size = 12
		}
		data := make([]byte, size)
		r.Read(data)
		if sp.Kind == "video" {
			switch sp.Codec {
			case "vp8":
				if f.KF != 0 {
					data[0] = 0x10
					copy(data[3:], []byte{0x9d, 0x01, 0x2a, 0x80, 0x02, 0xe0, 0x01}) // 640x480
					if f.Dim == 1 {
						copy(data[6:], []byte{0x40, 0x01, 0xf0, 0x00}) // 320x240
					}
				} else {
					data[0] = 0x11
				}
			}
		}
		n := f.N
		if n < 1 || sp.Kind == "audio" {
			n = 1
		}
		if n > size/4 {
			n = 1
		}
		// no packet above the MTU: the frame shrinks rather than the packet count changing (the history is per packet)
		if size > n*1100 {
			size = n * 1100
			data = data[:size]
		}
		fd := rcFrameData{data: data}
		for i := 0; i < n; i++ {
			fd.bounds = append(fd.bounds, (i+1)*size/n)
		}
		fds = append(fds, fd)
		for i := 0; i < n; i++ {
			lo, hi := i*size/n, (i+1)*size/n
			var payload []byte
			if sp.Kind == "video" {
				d := byte(0x00)
				if i == 0 {
					d = 0x10
				}
				payload = append([]byte{d}, data[lo:hi]...)
			} else {
				payload = data[lo:hi]
			}
			p := rtp.Packet{Header: rtp.Header{Version: 2, PayloadType: 96, SequenceNumber: seq, Timestamp: ts, SSRC: 0x1234, Marker: i == n-1}, Payload: payload}
			raw, _ := p.Marshal()
			pkts = append(pkts, rcPkt{frame: fi, raw: raw, seq: seq, ts: ts})
			seq++
		}
		frames = append(frames, map[string]any{"idx": fi, "kf": f.KF, "ts": ts, "len": len(data), "hash": rcHash(data), "npkts": n, "rel": int64(int32(ts - sp.TS0))})
		ts += step
	}
	return pkts, frames
}

type rcDoc struct {
	Header  webm.EBMLHeader `ebml:"EBML"`
	Segment struct {
		Info    webm.Info   `ebml:"Info"`
		Tracks  webm.Tracks `ebml:"Tracks"`
		Cluster []struct {
			Timecode    uint64       `ebml:"Timecode"`
			SimpleBlock []ebml.Block `ebml:"SimpleBlock"`
		} `ebml:"Cluster,size=unknown"`
	} `ebml:"Segment,size=unknown"`
}

func rcParse(path string) map[string]any {
	out := map[string]any{"file": filepath.Base(path), "err": "", "doctype": "", "tracks": []map[string]any{}, "samples": []map[string]any{}}
	f, err := os.Open(path)
	if err != nil {
		out["err"] = err.Error()
		return out
	}
	defer f.Close()
	var doc rcDoc
	if err := ebml.Unmarshal(f, &doc, ebml.WithIgnoreUnknown(true)); err != nil {
		out["err"] = err.Error()
	}
	out["doctype"] = doc.Header.DocType
	tr := []map[string]any{}
	for _, t := range doc.Segment.Tracks.TrackEntry {
		tr = append(tr, map[string]any{"num": t.TrackNumber, "codec": t.CodecID, "type": t.TrackType})
	}
	out["tracks"] = tr
	ss := []map[string]any{}
	for _, c := range doc.Segment.Cluster {
		for _, b := range c.SimpleBlock {
			for _, d := range b.Data {
				// is it a whole-packets proper prefix of a frame that was sent ?  (1-based frame number, packets covered)
				pf, pk := 0, 0
				for _, fds := range rcFrames {
					for fi, fd := range fds {
						for bi, e := range fd.bounds[:len(fd.bounds)-1] {
							if e == len(d) && string(fd.data[:e]) == string(d) {
								pf, pk = fi+1, bi+1
							}
						}
					}
				}
				ss = append(ss, map[string]any{"track": b.TrackNumber, "tc": int64(c.Timecode) + int64(b.Timecode), "kf": vB(b.Keyframe), "len": len(d), "hash": rcHash(d),
					"prefix_of": pf, "prefix_pkts": pk})
			}
		}
	}
	out["samples"] = ss
	return out
}

func rcRun(tr *vTrace, r *rand.Rand, b rcBeh, g *group.Group, dir string) {
	// a fresh recordings directory per behaviour
	os.RemoveAll(filepath.Join(Directory, g.Name()))
	client, err := New(g)
	if err != nil {
		tr.Emit(map[string]any{"ev": "New", "name": b.Name})
		tr.Emit(map[string]any{"ev": "harness-error", "err": err.Error()})
		return
	}
	tr.Emit(map[string]any{"ev": "New", "name": b.Name})
	rcFrames = nil
	tracks := []*rcTrack{}
	pk := [][]rcPkt{}
	ups := []conn.UpTrack{}
	for ti, sp := range b.Tracks {
		t := &rcTrack{cache: map[uint16][]byte{}, label: ""}
		if sp.Kind == "audio" {
			t.kind, t.mime, t.clock = webrtc.RTPCodecTypeAudio, "audio/opus", 48000
		} else {
			t.kind, t.mime, t.clock = webrtc.RTPCodecTypeVideo, "video/"+sp.Codec, 90000
		}
		p, frames := rcBuildTrack(r, sp)
		tracks = append(tracks, t)
		pk = append(pk, p)
		ups = append(ups, t)
		fo := []int{}
		for _, q := range p {
			fo = append(fo, q.frame+1)
		}
		tr.Emit(map[string]any{"ev": "track", "t": ti, "frameof": fo, "kind": sp.Kind, "codec": sp.Codec, "clock": t.clock, "seq0": sp.Seq0, "ts0": sp.TS0, "frames": frames, "npkts": len(p)})
	}
	up := &rcUp{id: "up1", user: "alice"}
	if err := client.PushConn(g, up.id, up, ups, ""); err != nil {
		tr.Emit(map[string]any{"ev": "harness-error", "err": "PushConn: " + err.Error()})
		return
	}
	// the capture clock: both tracks start at the same instant T0
	t0 := time.Now().Add(-time.Second)
	closed := ""
	func() {
		defer func() {
			if p := recover(); p != nil {
				tr.Emit(map[string]any{"ev": "panic", "what": fmt.Sprint(p)})
			}
		}()
		for _, op := range b.Ops {
			if op.T < 0 || op.T >= len(tracks) {
				continue
			}
			t := tracks[op.T]
			var p *rcPkt
			if op.P >= 0 && op.P < len(pk[op.T]) {
				p = &pk[op.T][op.P]
			}
			if op.Op != "sleep" {
				tr.Emit(map[string]any{"ev": "op", "op": op.Op, "t": op.T, "p": op.P + 1, "a": op.A})
			}
			switch op.Op {
			case "D", "L", "U":
				if p == nil || t.local == nil {
					continue
				}
				t.mu.Lock()
				t.cache[p.seq] = p.raw
				t.mu.Unlock()
				buf := make([]byte, len(p.raw))
				copy(buf, p.raw)
				t.local.Write(buf)
			case "S":
				if p != nil {
					t.mu.Lock()
					t.cache[p.seq] = p.raw
					t.mu.Unlock()
				}
			case "H", "X":
			case "SR":
				// a sender report: the RTP time of packet P was captured at T0 + its offset
				if p != nil && t.local != nil {
					first := pk[op.T][0].ts
					at := t0.Add(rtptime.ToDuration(int64(int32(p.ts-first)), t.clock))
					t.local.SetTimeOffset(rtptime.TimeToNTP(at), p.ts)
				}
			case "sleep":
				time.Sleep(time.Duration(op.Ms) * time.Millisecond)
			case "close":
				closed = op.A
				if op.A == "stop" {
					client.Close()
				} else {
					client.PushConn(g, up.id, nil, nil, "")
				}
			}
		}
	}()
	if closed == "" {
		client.Close()
		closed = "stop"
	} else {
		client.Close()
	}
	// what is on disk
	files, _ := filepath.Glob(filepath.Join(Directory, g.Name(), "*"))
	sort.Strings(files)
	parsed := []map[string]any{}
	for _, f := range files {
		parsed = append(parsed, rcParse(f))
	}
	fetched := [][]uint16{}
	kfr := []int{}
	for _, t := range tracks {
		fetched = append(fetched, t.fetch)
		kfr = append(kfr, t.kfreqs)
	}
	tr.Emit(map[string]any{"ev": "files", "closed": closed, "files": parsed, "fetched": fetched, "kfreqs": kfr, "locals_left": vB(tracks[0].local != nil)})
}

func TestVerifRecorder(t *testing.T) {
	var behs []rcBeh
	vScript(&behs)
	tr := vOpenTrace()
	defer tr.Close()
	tmp := t.TempDir()
	group.Directory = filepath.Join(tmp, "groups")
	group.DataDirectory = filepath.Join(tmp, "data")
	os.MkdirAll(group.Directory, 0700)
	Directory = filepath.Join(tmp, "recordings")
	g, err := group.Add("rec", &group.Description{})
	if err != nil {
		t.Fatal(err)
	}
	r := rand.New(rand.NewSource(int64(vEnvInt("VERIF_SEED", 1))))
	_ = binary.BigEndian
	for _, b := range behs {
		rcRun(tr, r, b, g, tmp)
	}
}
