package diskwriter

// C19: recording file names.  openDiskFile is called on an os.Root of <tmp>/recordings/g with usernames from Paths.tla's table and
// hostile strings; the scratch tree is listed before / after.

import (
	"io/fs"
	"math/rand"
	"os"
	"path/filepath"
	"sort"
	"strings"
	"testing"
)

func vList(root string) map[string]bool {
	m := map[string]bool{}
	filepath.WalkDir(root, func(p string, d fs.DirEntry, err error) error {
		if err == nil {
			rel, _ := filepath.Rel(root, p)
			m[rel] = true
		}
		return nil
	})
	return m
}

func TestVerifPaths(t *testing.T) {
	var sc struct {
		Cases []struct {
			Name string `json:"name"`
		} `json:"cases"`
	}
	vScript(&sc)
	tr := vOpenTrace()
	defer tr.Close()
	tmp := t.TempDir()
	gdir := filepath.Join(tmp, "recordings", "g")
	os.MkdirAll(gdir, 0700)
	os.MkdirAll(filepath.Join(tmp, "recordings", "h"), 0700)
	os.MkdirAll(filepath.Join(tmp, "outside"), 0700)
	root, err := os.OpenRoot(gdir)
	if err != nil {
		t.Fatal(err)
	}
	defer root.Close()
	names := []string{}
	for _, c := range sc.Cases {
		names = append(names, c.Name)
	}
	names = append(names, "../h/x", "../../outside/x", "..\\..\\outside\\x", tmp+"/outside/x", "a/b", "a\\b", "..", ".", "", "a\x00b", "/abs", "%2e%2e/x", "x/../../y")
	al := []string{"a", "..", "/", "\\", ".", "%2f", "\x00", "é", " ", "outside", "h"}
	r := rand.New(rand.NewSource(int64(vEnvInt("VERIF_SEED", 1))))
	for i := 0; i < vEnvInt("VERIF_N", 300); i++ {
		s := ""
		for j := 0; j < 1+r.Intn(6); j++ {
			s += al[r.Intn(len(al))]
		}
		names = append(names, s)
	}
	before := vList(tmp)
	for _, u := range names {
		f, err := openDiskFile(root, u, "webm")
		if f != nil {
			f.Close()
		}
		after := vList(tmp)
		created := []string{}
		for k := range after {
			if !before[k] {
				created = append(created, k)
			}
		}
		sort.Strings(created)
		cc := [][]string{}
		for _, c := range created {
			cc = append(cc, strings.Split(c, "/"))
		}
		gone := 0
		for k := range before {
			if !after[k] {
				gone++
			}
		}
		tr.Emit(map[string]any{"ev": "diskfile", "username": u, "ok": vB(err == nil), "created": cc, "gone": gone, "sanitised": sanitise(u),
			"san_clean": vB(!strings.ContainsAny(sanitise(u), "/\\"))})
		before = after
	}
}
