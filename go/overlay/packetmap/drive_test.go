package packetmap

// C01/C03 driver at the packetmap API: executes arrival histories (TLC-generated behaviours of
// SeqMap.tla and seeded boundary-biased random ones) on the real Map exactly as
// rtpDownTrack.Write uses it (Drop if the path wants to withhold, else Map) and records one
// NDJSON event per call with the observable result and a projection of the internal state.

import (
	"math/rand"
	"testing"
)

const vW = 8192

type vBeh struct {
	Start int     `json:"start"`
	Ops   [][]int `json:"ops"` // [off, wd]
}

type vSt struct {
	Next  int `json:"next"`
	Delta int `json:"delta"`
	PidD  int `json:"pidDelta"`
	N     int `json:"n"`
	Last  int `json:"last"`
	LF    int `json:"lf"`
	LC    int `json:"lc"`
	LD    int `json:"ld"`
}

func vProject(m *Map) vSt {
	st := vSt{Next: int(m.next), Delta: int(m.delta), PidD: int(m.pidDelta),
		N: len(m.entries), Last: int(m.lastEntry)}
	if len(m.entries) > 0 {
		e := m.entries[m.lastEntry]
		st.LF, st.LC, st.LD = int(e.first), int(e.count), int(e.delta)
	}
	return st
}

type vEvA struct {
	Ev  string `json:"ev"`
	Off int    `json:"off"`
	S   int    `json:"s"`
	Pid int    `json:"pid"`
	Wd  int    `json:"wd"`
	Res string `json:"res"`
	Out int    `json:"out"`
	Pd  int    `json:"pd"`
	St  vSt    `json:"st"`
}

type vEvR struct {
	Ev  string `json:"ev"`
	O   int    `json:"o"`
	Ok  int    `json:"ok"`
	Src int    `json:"src"`
	Pd  int    `json:"pd"`
}

type vEvNew struct {
	Ev    string `json:"ev"`
	Start int    `json:"start"`
	Kind  string `json:"kind"`
}

// one stream: tracks the true next seqno and the absolute position
type vStream struct {
	m   Map
	tn  uint16
	pos int // hi
	tr  *vTrace
}

func vPid(pos int) uint16 {
	// three packets per frame, 15-bit picture ids starting near the wrap
	p := pos
	if p < 0 {
		p -= 2
	}
	return uint16((32760 + p/3) & 0x7FFF)
}

func (s *vStream) arrive(off int, wd bool) {
	seq := s.tn + uint16(off-1)
	pos := s.pos + off
	pid := vPid(pos)
	ev := vEvA{Ev: "A", Off: off, S: int(seq), Pid: int(pid), Wd: vB(wd)}
	dropped := false
	if wd {
		dropped = s.m.Drop(seq, pid)
	}
	if dropped {
		ev.Res = "D"
	} else {
		ok, out, pd := s.m.Map(seq, pid)
		if ok {
			ev.Res, ev.Out, ev.Pd = "F", int(out), int(pd)
		} else {
			ev.Res = "X"
		}
	}
	if off >= 1 {
		s.tn = seq + 1
		s.pos = pos
	}
	ev.St = vProject(&s.m)
	s.tr.Emit(ev)
}

func (s *vStream) reverse(o uint16) {
	ok, src, pd := s.m.Reverse(o)
	s.tr.Emit(vEvR{Ev: "R", O: int(o), Ok: vB(ok), Src: int(src), Pd: int(pd)})
}

func vStarts(r *rand.Rand) int {
	edge := []int{0, 1, 65535, 65534, 57344, 57343, 57345, 32768, 32767, 8192, 8191, 60000, 65000}
	if r.Intn(3) == 0 {
		return r.Intn(65536)
	}
	return edge[r.Intn(len(edge))]
}

func vOff(r *rand.Rand, late bool) int {
	// boundary-biased offsets inside the window
	if late {
		switch r.Intn(6) {
		case 0:
			return 1 - vW
		case 1:
			return 2 - vW
		case 2:
			return -r.Intn(vW)
		case 3:
			return 0
		default:
			return -r.Intn(40)
		}
	}
	switch r.Intn(8) {
	case 0:
		return vW + 1
	case 1:
		return vW
	case 2:
		return 2 + r.Intn(vW)
	default:
		return 2 + r.Intn(6)
	}
}

func vRandom(r *rand.Rand, tr *vTrace, length int) {
	start := vStarts(r)
	tr.Emit(vEvNew{Ev: "New", Start: start, Kind: "random"})
	s := &vStream{tn: uint16(start), pos: -1, tr: tr}
	period := 1 + r.Intn(4)   // temporal-layer-like drop period
	pLate := r.Intn(4) * 2    // percent
	pGap := r.Intn(4)         // percent
	pRev := r.Intn(3) * 5     // percent
	burst := 0
	mode := r.Intn(4)
	first := true
	for i := 0; i < length; i++ {
		if first {
			s.arrive(1, r.Intn(4) == 0)
			first = false
			continue
		}
		if r.Intn(400) == 0 {
			mode = r.Intn(4)
			period = 1 + r.Intn(4)
		}
		x := r.Intn(100)
		switch {
		case x < pLate:
			s.arrive(vOff(r, true), r.Intn(2) == 0)
		case x < pLate+pGap:
			s.arrive(vOff(r, false), r.Intn(2) == 0)
		default:
			wd := false
			switch mode {
			case 0:
				wd = false
			case 1:
				wd = (s.pos+1)%(period+1) != 0
			case 2:
				if burst > 0 {
					burst--
					wd = true
				} else if r.Intn(50) == 0 {
					burst = r.Intn(30)
				}
			case 3:
				wd = r.Intn(2) == 0
			}
			s.arrive(1, wd)
		}
		if r.Intn(100) < pRev {
			// ask for a recently used outgoing number, or a random one
			if r.Intn(4) == 0 {
				s.reverse(uint16(r.Intn(65536)))
			} else {
				s.reverse(s.tn + s.m.delta - uint16(r.Intn(64)))
			}
		}
	}
}

// long undropped / long dropped runs: the regime where stale intervals alias modulo 2^16
func vLongRun(r *rand.Rand, tr *vTrace, total int) {
	start := vStarts(r)
	tr.Emit(vEvNew{Ev: "New", Start: start, Kind: "longrun"})
	s := &vStream{tn: uint16(start), pos: -1, tr: tr}
	s.arrive(1, false)
	n := 1
	big := []int{24576, 32767, 32768, 40000, 57343, 57344, 57400, 60000, 65535, 65536, 65537}
	small := []int{100, 8191, 8192, 8193, 16384, 16385}
	first := true
	for n < total {
		// a few drops, then a long run of one kind with late packets during and after it
		for k := 1 + r.Intn(3); k > 0; k-- {
			s.arrive(1, true)
			n++
		}
		run := small[r.Intn(len(small))]
		if first || r.Intn(3) == 0 {
			run = big[r.Intn(len(big))]
		}
		first = false
		wd := r.Intn(4) == 0
		for k := 0; k < run; k++ {
			s.arrive(1, wd)
			n++
			if k%4999 == 4998 || k == run-1 {
				s.arrive(vOff(r, true), r.Intn(2) == 0)
				s.arrive(-1-r.Intn(40), false)
				s.reverse(s.tn + s.m.delta - uint16(1+r.Intn(64)))
				n += 2
			}
		}
	}
}

func TestVerifDrive(t *testing.T) {
	tr := vOpenTrace()
	defer tr.Close()
	var behs []vBeh
	if vScript(&behs) {
		for _, b := range behs {
			tr.Emit(vEvNew{Ev: "New", Start: b.Start, Kind: "tlc"})
			s := &vStream{tn: uint16(b.Start), pos: -1, tr: tr}
			for _, op := range b.Ops {
				s.arrive(op[0], op[1] != 0)
			}
		}
	}
	r := rand.New(rand.NewSource(int64(vEnvInt("VERIF_SEED", 1))))
	n := vEnvInt("VERIF_N", 20)
	l := vEnvInt("VERIF_LEN", 400)
	for i := 0; i < n; i++ {
		vRandom(r, tr, l)
	}
	for i := vEnvInt("VERIF_LONG", 0); i > 0; i-- {
		vLongRun(r, tr, vEnvInt("VERIF_LONGLEN", 70000))
	}
}
