package group

// C18-X3 at library level: lock-free readers (GetSanitisedDescription, GetDescription, GetUsers) spin while one writer replaces the
// definition (UpdateDescription / SetUserPassword with the current tag); every version has a unique size and carries its own number
// in displayName, so a reader can tell which version's content it was given and which version's tag came with it.

import (
	"fmt"
	"os"
	"path/filepath"
	"strings"
	"sync"
	"sync/atomic"
	"testing"
	"time"
)

func TestVerifDefsRace(t *testing.T) {
	tr := vOpenTrace()
	defer tr.Close()
	root := t.TempDir()
	// a memory-backed directory when there is one: fsync is free there, so the rename follows the lock acquisition closely
	if shm, err := os.MkdirTemp("/dev/shm", "verif-defsrace-"); err == nil {
		defer os.RemoveAll(shm)
		root = shm
	}
	Directory = filepath.Join(root, "groups")
	DataDirectory = filepath.Join(root, "data")
	os.MkdirAll(Directory, 0700)
	os.MkdirAll(DataDirectory, 0700)
	os.WriteFile(filepath.Join(DataDirectory, "config.json"), []byte(`{"writableGroups":true}`), 0600)
	os.WriteFile(filepath.Join(Directory, "r.json"), []byte(`{"displayName":"v0","users":{"u":{"password":"p","permissions":"present"}}}`), 0600)
	budget := time.Duration(vEnvInt("VERIF_RACE_MS", 1500)) * time.Millisecond
	tr.Emit(map[string]any{"ev": "New", "name": "library-reader-race"})

	var mu sync.Mutex
	tagOf := map[string]string{} // version name -> tag it was written under (as read back by the writer, under no race)
	conflicts := [][]string{}
	var stop atomic.Bool
	var reads atomic.Int64
	var wg sync.WaitGroup
	type obs struct{ name, tag string }
	seen := make([]map[obs]bool, 8)
	for i := range seen {
		seen[i] = map[obs]bool{}
		wg.Add(1)
		go func(m map[obs]bool, i int) {
			defer wg.Done()
			for !stop.Load() {
				var name, tag string
				if i%2 == 0 {
					d, tg, err := GetSanitisedDescription("r")
					if err != nil {
						continue
					}
					name, tag = d.DisplayName, tg
				} else {
					d, err := GetDescription("r")
					if err != nil {
						continue
					}
					name, tag = d.DisplayName, makeETag(d.fileSize, d.modTime)
				}
				reads.Add(1)
				m[obs{name, tag}] = true
			}
		}(seen[i], i)
	}
	start := time.Now()
	acked := 0
	for k := 1; time.Since(start) < budget; k++ {
		tag, err := GetDescriptionTag("r")
		if err != nil {
			continue
		}
		name := fmt.Sprintf("v%d", k)
		err = UpdateDescription("r", tag, &Description{DisplayName: name, Description: strings.Repeat("y", k%4000)})
		if err != nil {
			continue
		}
		acked++
		ntag, err := GetDescriptionTag("r")
		if err == nil {
			mu.Lock()
			tagOf[name] = ntag
			mu.Unlock()
		}
	}
	stop.Store(true)
	wg.Wait()
	versions := map[string]bool{}
	for _, m := range seen {
		for o := range m {
			versions[o.name] = true
			if want, ok := tagOf[o.name]; ok && want != o.tag {
				conflicts = append(conflicts, []string{o.name, o.tag, want})
			}
		}
	}
	if len(conflicts) > 5 {
		conflicts = conflicts[:5]
	}
	tr.Emit(map[string]any{"ev": "readrace", "name": "library-reader-race", "reads": reads.Load(), "noresp": 0, "acked": acked, "versions": len(versions),
		"conflicts": conflicts, "partial": 0, "digest": "", "parts": [][]string{}})
}
