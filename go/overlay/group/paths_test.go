package group

// C19: the group layer on every name of Paths.tla's table plus seeded strings over a hostile alphabet.  For each name the real
// validators are called, and the real description functions (GetDescription, UpdateDescription, DeleteDescription, Add) run inside
// a scratch tree whose groups directory has sentinel files next to it; the whole tree is compared before / after every call.

import (
	"crypto/sha256"
	"encoding/hex"
	"fmt"
	"io/fs"
	"math/rand"
	"os"
	"path/filepath"
	"sort"
	"strings"
	"testing"
)

const vSentinel = "SENT-OUTSIDE-DESCRIPTION"

func vSnap(root string) map[string]string {
	m := map[string]string{}
	filepath.WalkDir(root, func(p string, d fs.DirEntry, err error) error {
		if err != nil {
			return nil
		}
		rel, _ := filepath.Rel(root, p)
		if d.IsDir() {
			m[rel] = "dir"
			return nil
		}
		b, _ := os.ReadFile(p)
		h := sha256.Sum256(b)
		m[rel] = hex.EncodeToString(h[:8])
		return nil
	})
	return m
}

// differences between two snapshots, as relative paths
func vDiff(a, b map[string]string) []string {
	out := []string{}
	for k, v := range b {
		if a[k] != v {
			out = append(out, k)
		}
	}
	for k := range a {
		if _, ok := b[k]; !ok {
			out = append(out, k)
		}
	}
	sort.Strings(out)
	return out
}

func vHostile(r *rand.Rand) string {
	al := []string{"a", "b", "g", ".", "..", "/", "/", "\\", "%", "%2e", "%2f", "\x00", "é", "日", " ", "..", "~", "outside", "secret", ".json", "*", "?"}
	n := 1 + r.Intn(6)
	s := ""
	for i := 0; i < n; i++ {
		s += al[r.Intn(len(al))]
	}
	return s
}

func TestVerifPaths(t *testing.T) {
	var sc struct {
		Cases []struct {
			Name  string `json:"name"`
			Valid bool   `json:"valid"`
			User  bool   `json:"user"`
			File  string `json:"file"`
		} `json:"cases"`
	}
	vScript(&sc)
	tr := vOpenTrace()
	defer tr.Close()
	root := t.TempDir()
	gdir := filepath.Join(root, "groups")
	build := func() {
		os.RemoveAll(root)
		os.MkdirAll(filepath.Join(gdir, "a"), 0700)
		os.MkdirAll(filepath.Join(root, "outside"), 0700)
		os.MkdirAll(filepath.Join(root, "data"), 0700)
		sent := []byte(`{"displayName":"` + vSentinel + `"}`)
		os.WriteFile(filepath.Join(root, "outside", "secret.json"), sent, 0600)
		os.WriteFile(filepath.Join(root, "secret.json"), sent, 0600)
		os.WriteFile(filepath.Join(root, "groups.json"), sent, 0600)
		os.WriteFile(filepath.Join(root, "a.json"), sent, 0600)
		os.WriteFile(filepath.Join(root, "data", "config.json"), []byte(`{"writableGroups":true}`), 0600)
		os.WriteFile(filepath.Join(gdir, "a.json"), []byte(`{"displayName":"inside a"}`), 0600)
		os.WriteFile(filepath.Join(gdir, "a", "b.json"), []byte(`{"displayName":"inside a/b"}`), 0600)
	}
	build()
	Directory = gdir
	DataDirectory = filepath.Join(root, "data")

	type nm struct {
		name               string
		hasExp, valid, usr bool
		file               string
	}
	names := []nm{}
	for _, c := range sc.Cases {
		names = append(names, nm{c.Name, true, c.Valid, c.User, c.File})
	}
	// absolute paths to the sentinels, relative climbs of every depth, encodings
	for _, s := range []string{root + "/outside/secret", root + "/secret", "../secret", "../outside/secret", "a/../../secret", "a/b/../../../outside/secret",
		"..\\secret", "..\\outside\\secret", "a/..\\..\\secret", "%2e%2e/secret", "..%2fsecret", "../groups", "../a", "./a", "a/.", "a//b", "a/", "/a", "a\x00/../../secret",
		"....//secret", ".../secret", "..;/secret", "a/../..", "..", ".", "/", "//", "\\", "a\\b", "C:\\x", "../groups/a", "outside/../../outside/secret"} {
		names = append(names, nm{name: s})
	}
	r := rand.New(rand.NewSource(int64(vEnvInt("VERIF_SEED", 1))))
	for i := 0; i < vEnvInt("VERIF_N", 300); i++ {
		names = append(names, nm{name: vHostile(r)})
	}

	base := vSnap(root)
	for _, n := range names {
		func() {
			ev := map[string]any{"ev": "name", "name": n.name, "comps": strings.Split(n.name, "/"), "bs": vB(strings.Contains(n.name, "\\")),
				"hasexp": vB(n.hasExp), "expvalid": vB(n.valid), "expuser": vB(n.usr), "expfile": n.file, "panic": ""}
			defer func() {
				if p := recover(); p != nil {
					ev["panic"] = fmt.Sprint(p)
					tr.Emit(ev)
					build()
				}
			}()
			ev["valid"] = vB(validGroupName(n.name))
			ev["user"] = vB(validUsername(n.name))
			served := false
			if d, err := GetDescription(n.name); err == nil && d != nil && d.DisplayName == vSentinel {
				served = true
			}
			if d, _, err := GetSanitisedDescription(n.name); err == nil && d != nil && d.DisplayName == vSentinel {
				served = true
			}
			// conditional delete armed with the tag of every sentinel file
			for _, f := range []string{"outside/secret.json", "secret.json", "groups.json", "a.json"} {
				if fi, err := os.Stat(filepath.Join(root, f)); err == nil {
					DeleteDescription(n.name, makeETag(fi.Size(), fi.ModTime()))
				}
			}
			s1 := vSnap(root)
			d1 := vDiff(base, s1)
			// creation / overwrite
			tag, err := GetDescriptionTag(n.name)
			if err != nil {
				tag = ""
			}
			uerr := UpdateDescription(n.name, tag, &Description{DisplayName: "written by the harness"})
			SetUserPassword(n.name, "nobody", false, Password{})
			SetKeys(n.name, nil)
			s2 := vSnap(root)
			d2 := vDiff(s1, s2)
			ev["update_ok"] = vB(uerr == nil)
			if uerr != nil {
				ev["update_err"] = uerr.Error()
			}
			// instantiate the group
			g, aerr := Add(n.name, &Description{})
			ev["add"] = vB(aerr == nil && g != nil)
			if aerr == nil {
				Delete(n.name)
			}
			s3 := vSnap(root)
			d3 := vDiff(s2, s3)
			all := append(append(d1, d2...), d3...)
			outside := []string{}
			for _, p := range all {
				if p != "groups" && !strings.HasPrefix(p, "groups/") {
					outside = append(outside, p)
				}
			}
			ev["served_outside"] = vB(served)
			ev["outside_changed"] = outside
			ev["changed"] = all
			tr.Emit(ev)
			if len(all) > 0 {
				build()
			}
		}()
	}
}
