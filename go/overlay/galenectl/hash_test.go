package main

// C08, hash round trip: every row of Auth.tla's "hash" table -- the administration tool's makePassword with each
// algorithm / parameter class -- serialised as the tool writes it, re-read as the server reads it, must verify for
// that password and for no other.

import (
	"encoding/json"
	"strings"
	"testing"

	"github.com/jech/galene/group"
)

type vRow struct {
	Table  string         `json:"table"`
	Case   map[string]any `json:"case"`
	Expect map[string]any `json:"expect"`
}

func TestVerifHash(t *testing.T) {
	tr := vOpenTrace()
	defer tr.Close()
	var rows []vRow
	if !vScript(&rows) {
		return
	}
	tr.Emit(map[string]any{"ev": "New"})
	pws := map[string]string{"empty": "", "ascii": "correct horse", "multibyte": "pässwörd-密码-🔑", "long72": strings.Repeat("x", 72)}
	for _, r := range rows {
		if r.Table != "hash" {
			continue
		}
		c := r.Case
		alg := c["alg"].(string)
		pw := pws[c["pw"].(string)]
		other := pw + "x"
		if len(other) > 72 {
			other = "y" + pw[1:]
		}
		if alg == "wildcard" {
			pw = ""
		}
		got := map[string]any{"right": false, "other": false}
		p, err := makePassword(pw, alg, int(c["iter"].(float64)), int(c["len"].(float64)), int(c["saltlen"].(float64)), int(c["cost"].(float64)))
		if err == nil {
			bs, _ := json.Marshal(p)
			var q group.Password
			if json.Unmarshal(bs, &q) == nil {
				a, e1 := q.Match(pw)
				b, e2 := q.Match(other)
				got = map[string]any{"right": a && e1 == nil, "other": b && e2 == nil}
			}
		} else {
			got["err"] = err.Error()
		}
		tr.Emit(map[string]any{"ev": "case", "table": "hash", "case": c, "expect": r.Expect, "got": got})
	}
}
