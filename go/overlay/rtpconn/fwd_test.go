package rtpconn

// Write-level driver for C01-C04: real rtpDownTrack.Write / gotNACK / adjustLayer / updateRate /
// replaceTracks, a real rtpUpTrack.GetPacket over a real packetcache.Cache, real
// codecs.PacketFlags / RewritePacket.  Only pion's transport is replaced: the down track's
// TrackLocalStaticRTP is bound to a TrackLocalContext whose write stream records what pion would
// send.  Packets are built here from ground truth (never with the code under test) and the output
// is parsed with pion's own VP8/VP9 depacketisers.

import (
	"bytes"
	"encoding/binary"
	"math/rand"
	"reflect"
	"sync/atomic"
	"testing"
	"time"
	"unsafe"

	"github.com/pion/interceptor"
	"github.com/pion/rtcp"
	"github.com/pion/rtp"
	pcodecs "github.com/pion/rtp/codecs"
	"github.com/pion/webrtc/v4"

	"github.com/jech/galene/conn"
	"github.com/jech/galene/estimator"
	"github.com/jech/galene/jitter"
	"github.com/jech/galene/packetcache"
	"github.com/jech/galene/rtptime"
	"github.com/jech/galene/unbounded"
	"github.com/jech/galene/verifhook"
)

// ---------------------------------------------------------------- fake transport

type fwOut struct {
	h       rtp.Header
	payload []byte
}

type fwWriter struct{ out []fwOut }

func (w *fwWriter) WriteRTP(h *rtp.Header, payload []byte) (int, error) {
	w.out = append(w.out, fwOut{h: h.Clone(), payload: bytes.Clone(payload)})
	return len(payload), nil
}
func (w *fwWriter) Write(b []byte) (int, error) { return len(b), nil }

type fwCtx struct {
	w     *fwWriter
	codec webrtc.RTPCodecParameters
}

func (c *fwCtx) CodecParameters() []webrtc.RTPCodecParameters {
	return []webrtc.RTPCodecParameters{c.codec}
}
func (c *fwCtx) HeaderExtensions() []webrtc.RTPHeaderExtensionParameter { return nil }
func (c *fwCtx) SSRC() webrtc.SSRC                                      { return 0xABCD }
func (c *fwCtx) SSRCRetransmission() webrtc.SSRC                        { return 0 }
func (c *fwCtx) SSRCForwardErrorCorrection() webrtc.SSRC                { return 0 }
func (c *fwCtx) WriteStream() webrtc.TrackLocalWriter                   { return c.w }
func (c *fwCtx) ID() string                                             { return "verif" }
func (c *fwCtx) RTCPReader() interceptor.RTCPReader                     { return nil }

func fwSetField(obj any, name string, val any) {
	f := reflect.ValueOf(obj).Elem().FieldByName(name)
	reflect.NewAt(f.Type(), unsafe.Pointer(f.UnsafeAddr())).Elem().Set(reflect.ValueOf(val))
}

// ---------------------------------------------------------------- ground truth

type fwTruth struct {
	Pid    int `json:"pid"`
	Tid    int `json:"tid"`
	Sid    int `json:"sid"`
	Start  int `json:"start"`
	End    int `json:"end"`
	Kf     int `json:"kf"`
	Tidup  int `json:"tidup"`
	Nonref int `json:"nonref"`
	Marker int `json:"marker"`
}

type fwLayer struct {
	Sid  int `json:"sid"`
	WSid int `json:"wantedSid"`
	MSid int `json:"maxSid"`
	Tid  int `json:"tid"`
	WTid int `json:"wantedTid"`
	MTid int `json:"maxTid"`
	Lim  int `json:"limitSid"`
}

func fwLayerOf(d *rtpDownTrack) fwLayer {
	l := d.getLayerInfo()
	return fwLayer{int(l.sid), int(l.wantedSid), int(l.maxSid), int(l.tid), int(l.wantedTid), int(l.maxTid), vB(l.limitSid)}
}

type fwPkt struct {
	pos   int
	seq   uint16
	truth fwTruth
	buf   []byte
	ts    uint32
	// first transmission to the receiver
	sent              bool
	fo, fp            int
	fm                int
	fbytes            []byte
	withheld, arrived bool
	fsid              int
}

type fwStreamCfg struct {
	codec string // "vp8" | "vp9"
	pidm  int    // 128 | 32768
	csrc  int
}

// builds one RTP packet for (pos, truth)
func fwBuild(cfg fwStreamCfg, pos int, seq uint16, ts uint32, t fwTruth, size int) []byte {
	var pl []byte
	id := make([]byte, 8)
	binary.BigEndian.PutUint32(id, 0x56455249) // "VERI"
	binary.BigEndian.PutUint32(id[4:], uint32(pos+0x10000000))
	if cfg.codec == "vp8" {
		b0 := byte(0x80) // X
		if t.Start != 0 {
			b0 |= 0x10 // S, partition 0
		} else {
			b0 |= 0x01 // partition index 1: not a start
		}
		if t.Nonref != 0 {
			b0 |= 0x20 // N
		}
		pl = append(pl, b0, 0x80|0x20) // I, T
		if cfg.pidm == 32768 {
			pl = append(pl, 0x80|byte(t.Pid>>8), byte(t.Pid))
		} else {
			pl = append(pl, byte(t.Pid&0x7F))
		}
		y := byte(0)
		if t.Tidup != 0 && t.Kf == 0 {
			y = 0x20
		}
		pl = append(pl, byte(t.Tid<<6)|y)
		hdr := byte(0x01) // P=1: interframe
		if t.Kf != 0 {
			hdr = 0x00
		}
		pl = append(pl, hdr)
	} else {
		b0 := byte(0x80 | 0x20) // I, L ; non-flexible
		if t.Kf == 0 {
			b0 |= 0x40 // P
		}
		if t.Start != 0 {
			b0 |= 0x08
		}
		if t.End != 0 {
			b0 |= 0x04
		}
		if t.Nonref != 0 {
			b0 |= 0x01
		}
		pl = append(pl, b0)
		if cfg.pidm == 32768 {
			pl = append(pl, 0x80|byte(t.Pid>>8), byte(t.Pid))
		} else {
			pl = append(pl, byte(t.Pid&0x7F))
		}
		u := byte(0)
		if t.Tidup != 0 && t.Kf == 0 {
			u = 0x10
		}
		pl = append(pl, byte(t.Tid<<5)|u|byte(t.Sid<<1), 0 /* TL0PICIDX */)
		hdr := byte(0x84)
		if t.Kf != 0 {
			hdr = 0x80
		}
		pl = append(pl, hdr)
	}
	pl = append(pl, id...)
	for len(pl) < size {
		pl = append(pl, byte(pos*7+len(pl)))
	}
	p := rtp.Packet{Header: rtp.Header{Version: 2, Marker: t.Marker != 0, PayloadType: 100,
		SequenceNumber: seq, Timestamp: ts, SSRC: 0x1234}, Payload: pl}
	for i := 0; i < cfg.csrc; i++ {
		p.Header.CSRC = append(p.Header.CSRC, uint32(0xC0000000+i))
	}
	b, err := p.Marshal()
	if err != nil {
		panic(err)
	}
	return b
}

func fwPosOf(payload []byte) (int, bool) {
	i := bytes.Index(payload, []byte{0x56, 0x45, 0x52, 0x49})
	if i < 0 || len(payload) < i+8 {
		return 0, false
	}
	return int(binary.BigEndian.Uint32(payload[i+4:])) - 0x10000000, true
}

// ---------------------------------------------------------------- the receiver under test

type fwRig struct {
	cfg   fwStreamCfg
	up    *rtpUpTrack
	down  *rtpDownTrack
	dconn *rtpDownConnection
	w     *fwWriter
	tr    *vTrace
	held  []any // events held back (pair mode) until flush
	hold  bool
	pk    map[int]*fwPkt
	tn    uint16 // seqno of position hi+1
	lastOut int
	hi    int
	start int
}

func fwNewRig(tr *vTrace, cfg fwStreamCfg, start int, cachesz int, kind string) *fwRig {
	mime := webrtc.MimeTypeVP8
	if cfg.codec == "vp9" {
		mime = webrtc.MimeTypeVP9
	}
	cap := webrtc.RTPCodecCapability{MimeType: mime, ClockRate: 90000}
	params := webrtc.RTPCodecParameters{RTPCodecCapability: cap, PayloadType: 96}
	remote := &webrtc.TrackRemote{}
	fwSetField(remote, "codec", params)
	fwSetField(remote, "kind", webrtc.RTPCodecTypeVideo)
	up := &rtpUpTrack{
		track:      remote,
		cache:      packetcache.New(cachesz),
		rate:       estimator.New(time.Second),
		jitter:     jitter.New(90000),
		actions:    unbounded.New[trackAction](),
		readerDone: make(chan struct{}),
	}
	local, err := webrtc.NewTrackLocalStaticRTP(cap, "v", "s")
	if err != nil {
		panic(err)
	}
	w := &fwWriter{}
	if _, err := local.Bind(&fwCtx{w: w, codec: params}); err != nil {
		panic(err)
	}
	down := &rtpDownTrack{
		track:          local,
		remote:         up,
		maxBitrate:     new(bitrate),
		maxREMBBitrate: new(bitrate),
		stats:          new(receiverStats),
		rate:           estimator.New(time.Millisecond),
		atomics:        &downTrackAtomics{},
	}
	dconn := &rtpDownConnection{id: "d", tracks: []*rtpDownTrack{down}}
	down.conn = dconn
	r := &fwRig{cfg: cfg, up: up, down: down, dconn: dconn, w: w, tr: tr, pk: map[int]*fwPkt{},
		tn: uint16(start), hi: -1, start: start}
	r.hold = kind == "pair-second"
	r.emit(map[string]any{"ev": "New", "start": start, "codec": cfg.codec, "pidm": cfg.pidm, "kind": kind,
		"cache": cachesz})
	return r
}

func (r *fwRig) emit(ev any) {
	if r.hold {
		r.held = append(r.held, ev)
		return
	}
	r.tr.Emit(ev)
}

func (r *fwRig) flush() {
	for _, ev := range r.held {
		r.tr.Emit(ev)
	}
	r.held = nil
}

func (r *fwRig) drainActions() {
	select {
	case <-r.up.actions.Ch:
		r.up.actions.Get()
	default:
	}
}

type fwWr struct {
	Off   int `json:"off"`
	Out   int `json:"out"`
	Mk    int `json:"mk"`
	Opid  int `json:"opid"`
	Wh    int `json:"wh"`
	Known int `json:"known"`
	Fo    int `json:"fo"`
	Fm    int `json:"fm"`
	Fp    int `json:"fp"`
	Same  int `json:"same"`
	Ident int `json:"ident"`
	End   int `json:"end"`
	Mkin  int `json:"mkin"`
	Fsid  int `json:"fsid"`
}

// observation function: which fields differ between the packet fed in and the packet written
func fwDiff(cfg fwStreamCfg, in []byte, o fwOut) ([]string, int) {
	var ip rtp.Packet
	if err := ip.Unmarshal(in); err != nil {
		return []string{"unparsable-input"}, 0
	}
	var chg []string
	add := func(c bool, n string) {
		if c {
			chg = append(chg, n)
		}
	}
	add(ip.SequenceNumber != o.h.SequenceNumber, "seq")
	add(ip.Marker != o.h.Marker, "marker")
	add(ip.Timestamp != o.h.Timestamp, "ts")
	add(ip.SSRC != o.h.SSRC, "ssrc")
	add(ip.PayloadType != o.h.PayloadType, "pt")
	add(ip.Version != o.h.Version, "version")
	add(ip.Padding != o.h.Padding || ip.PaddingSize != o.h.PaddingSize, "padding")
	add(ip.Extension != o.h.Extension, "ext")
	add(!reflect.DeepEqual(ip.CSRC, o.h.CSRC) && !(len(ip.CSRC) == 0 && len(o.h.CSRC) == 0), "csrc")
	add(len(ip.Payload) != len(o.payload), "len")
	opid := 0
	if len(ip.Payload) == len(o.payload) {
		// payload may differ only inside the VP8 picture id field
		pidOff, pidLen := -1, 0
		if cfg.codec == "vp8" {
			pidOff = 2
			pidLen = 1
			if cfg.pidm == 32768 {
				pidLen = 2
			}
		}
		pidChanged, otherChanged := false, false
		for i := range ip.Payload {
			if ip.Payload[i] != o.payload[i] {
				if pidOff >= 0 && i >= pidOff && i < pidOff+pidLen {
					pidChanged = true
				} else {
					otherChanged = true
				}
			}
		}
		add(pidChanged, "pid")
		add(otherChanged, "payload")
		if pidChanged && cfg.pidm == 32768 && (o.payload[2]&0x80) == 0 {
			chg = append(chg, "pidwidth")
		}
	}
	if cfg.codec == "vp8" {
		var v pcodecs.VP8Packet
		if _, err := v.Unmarshal(o.payload); err == nil {
			opid = int(v.PictureID)
		} else {
			chg = append(chg, "unparsable-output")
		}
	} else {
		var v pcodecs.VP9Packet
		if _, err := v.Unmarshal(o.payload); err == nil {
			opid = int(v.PictureID)
		} else {
			chg = append(chg, "unparsable-output")
		}
	}
	if chg == nil {
		chg = []string{}
	}
	return chg, opid
}

func (r *fwRig) packet(pos int, mk func() (fwTruth, int)) *fwPkt {
	if p, ok := r.pk[pos]; ok {
		return p
	}
	t, size := mk()
	seq := uint16(r.start + pos)
	ts := uint32(1000 + 3000*(t.Pid&0xFFFF))
	p := &fwPkt{pos: pos, seq: seq, truth: t, ts: ts}
	p.buf = fwBuild(r.cfg, pos, seq, ts, t, size)
	r.pk[pos] = p
	// forget very old packets
	if len(r.pk) > 3*8192 {
		for k := range r.pk {
			if k < r.hi-2*8192 {
				delete(r.pk, k)
			}
		}
	}
	return p
}

// what readLoop does before handing the packet to the writers, then Write as rtpWriterLoop does
func (r *fwRig) deliver(p *fwPkt, store bool) {
	r.deliverBuf(p, store, bytes.Clone(p.buf))
}

// in: the buffer handed to Write (rtpWriterLoop hands the SAME buffer to every down track of a
// writer in turn)
func (r *fwRig) deliverBuf(p *fwPkt, store bool, in []byte) {
	off := p.pos - r.hi
	if store {
		r.up.cache.Store(p.seq, p.ts, p.truth.Kf != 0, p.truth.Marker != 0, p.buf)
	}
	lb := fwLayerOf(r.down)
	r.w.out = r.w.out[:0]
	n, err := r.down.Write(in)
	la := fwLayerOf(r.down)
	r.drainActions()
	ev := map[string]any{"ev": "W", "off": off, "s": int(p.seq), "f": p.truth, "lb": lb, "la": la,
		"inmod": vB(!bytes.Equal(in, p.buf)), "n": n, "err": vB(err != nil), "nw": len(r.w.out)}
	res := "X"
	if len(r.w.out) >= 1 {
		o := r.w.out[0]
		res = "F"
		chg, opid := fwDiff(r.cfg, p.buf, o)
		ev["out"], ev["mk"], ev["opid"], ev["chg"] = int(o.h.SequenceNumber), vB(o.h.Marker), opid, chg
		r.lastOut = int(o.h.SequenceNumber)
		if !p.sent {
			p.sent = true
			p.fsid = la.Sid
			p.fo, p.fm, p.fp = int(o.h.SequenceNumber), vB(o.h.Marker), opid
			p.fbytes = append(bytes.Clone(o.payload), byte(vB(o.h.Marker)))
		}
	} else {
		ev["out"], ev["mk"], ev["opid"], ev["chg"] = 0, 0, 0, []string{}
		if n == 0 && err == nil && off >= 1 {
			// nothing written and no error: withheld (or unmappable; only a new highest
			// position can be withheld, and then Map cannot fail)
			res = "D"
			p.withheld = true
		}
	}
	ev["res"] = res
	if off >= 1 {
		r.hi = p.pos
		r.tn = p.seq + 1
	}
	p.arrived = true
	r.emit(ev)
}

func (r *fwRig) nack(o uint16) {
	lb := fwLayerOf(r.down)
	r.w.out = r.w.out[:0]
	gotNACK(r.down, &rtcp.TransportLayerNack{Nacks: []rtcp.NackPair{{PacketID: o, LostPackets: 0}}})
	la := fwLayerOf(r.down)
	r.drainActions()
	wr := []fwWr{}
	for _, out := range r.w.out {
		pos, ok := fwPosOf(out.payload)
		w := fwWr{Out: int(out.h.SequenceNumber), Mk: vB(out.h.Marker)}
		p := r.pk[pos]
		if !ok || p == nil {
			w.Ident = 0
			wr = append(wr, w)
			continue
		}
		w.Ident = 1
		w.End, w.Mkin, w.Fsid = p.truth.End, p.truth.Marker, p.fsid
		w.Off = pos - r.hi
		_, w.Opid = fwDiff(r.cfg, p.buf, out)
		w.Wh = vB(p.withheld && !p.sent)
		if p.sent {
			w.Known, w.Fo, w.Fm, w.Fp = 1, p.fo, p.fm, p.fp
			w.Same = vB(bytes.Equal(p.fbytes, append(bytes.Clone(out.payload), byte(vB(out.h.Marker)))))
		}
		wr = append(wr, w)
	}
	r.emit(map[string]any{"ev": "N", "o": int(o), "wr": wr, "lb": lb, "la": la})
}

func (r *fwRig) adjust(dir string) {
	now := rtptime.Jiffies()
	switch dir {
	case "up":
		r.down.maxBitrate.Set(1<<30, now)
		r.down.maxREMBBitrate.Set(0, now)
	case "down":
		r.down.maxBitrate.Set(9600, now)
		r.down.maxREMBBitrate.Set(0, now)
		r.down.rate.Accumulate(100000)
		time.Sleep(2500 * time.Microsecond)
	case "remb":
		r.down.maxREMBBitrate.Set(1000, now)
		r.down.rate.Accumulate(100000)
		time.Sleep(2500 * time.Microsecond)
	}
	lb := fwLayerOf(r.down)
	r.down.adjustLayer()
	la := fwLayerOf(r.down)
	r.emit(map[string]any{"ev": "Adj", "dir": dir, "lb": lb, "la": la})
}

func (r *fwRig) report(loss uint8, stale bool) {
	now := rtptime.Jiffies()
	if stale {
		// make the stored ceiling look older than the feedback timeout
		r.down.maxBitrate.Set(r.down.maxBitrate.bitrate, now-receiverReportTimeout-1000)
	}
	lb := fwLayerOf(r.down)
	handleReport(r.down, rtcp.ReceptionReport{FractionLost: loss}, now)
	la := fwLayerOf(r.down)
	r.emit(map[string]any{"ev": "Rate", "loss": int(loss), "ceil": int(r.down.maxBitrate.bitrate), "lb": lb, "la": la})
}

func (r *fwRig) limit(lim bool) {
	lb := fwLayerOf(r.down)
	_, err := replaceTracks(r.dconn, []conn.UpTrack{r.up}, lim)
	la := fwLayerOf(r.down)
	r.emit(map[string]any{"ev": "Lim", "lim": vB(lim), "err": vB(err != nil), "lb": lb, "la": la})
}

// ---------------------------------------------------------------- scenario 1: SeqMap behaviours

// replays an [off, wd] behaviour: the receiver is pinned at temporal layer 0 of a two-layer
// stream, so that "want drop" = the packet belongs to temporal layer 1
func fwReplaySeq(tr *vTrace, cfg fwStreamCfg, start int, ops [][]int, kind string, nackEvery int, r0 *rand.Rand) {
	r := fwNewRig(tr, cfg, start, 64, kind)
	first := true
	for i, op := range ops {
		off, wd := op[0], op[1]
		pos := r.hi + off
		if first {
			pos = 0
		}
		p := r.packet(pos, func() (fwTruth, int) {
			t := fwTruth{Pid: ((pos%cfg.pidm)+2*cfg.pidm-3) % cfg.pidm, Tid: wd, Start: 1, End: 1, Marker: 1}
			if first {
				t.Kf, t.Tidup, t.Tid = 1, 1, 0
			}
			return t, 40 + (pos*13)%200
		})
		if first {
			first = false
			r.deliver(p, true)
			// pin the selection: two temporal layers seen, layer 0 selected
			l := r.down.getLayerInfo()
			l.maxTid, l.tid, l.wantedTid = 1, 0, 0
			r.down.setLayerInfo(l)
			r.emit(map[string]any{"ev": "Pin", "la": fwLayerOf(r.down)})
			continue
		}
		r.deliver(p, true)
		if nackEvery > 0 && i%nackEvery == nackEvery-1 {
			r.nack(uint16(r.lastOut - r0.Intn(12)))
		}
	}
}

// ---------------------------------------------------------------- scenario 2: layered streams

type fwFrame struct {
	pid, tid, sid   int
	kf, tidup, nonr bool
	npk             int
	lastOfSuper     bool
}

func fwRandomStream(tr *vTrace, r0 *rand.Rand, cfg fwStreamCfg, nframes int, kind string) {
	start := []int{0, 1, 65535, 65530, 57344, 57343, 32768, 60000, r0.Intn(65536)}[r0.Intn(9)]
	cachesz := []int{8, 16, 32, 128}[r0.Intn(4)]
	r := fwNewRig(tr, cfg, start, cachesz, kind)
	maxT := r0.Intn(3)
	maxS := 0
	if cfg.codec == "vp9" {
		maxS = r0.Intn(3)
	}
	pid := []int{0, cfg.pidm - 5, r0.Intn(cfg.pidm)}[r0.Intn(3)]
	pLate := r0.Intn(3) * 3
	pNack := r0.Intn(4) * 4
	pFb := 2 + r0.Intn(8)
	tpat := [][]int{{0}, {0, 1}, {0, 2, 1, 2}}[maxT]
	pos := 0
	kfEvery := 8 + r0.Intn(40)
	for fi := 0; fi < nframes; fi++ {
		kf := fi%kfEvery == 0 || (fi > 0 && r0.Intn(60) == 0)
		tid := tpat[fi%len(tpat)]
		if kf {
			tid = 0
		}
		for sid := 0; sid <= maxS; sid++ {
			npk := 1 + r0.Intn(3)
			for k := 0; k < npk; k++ {
				t := fwTruth{Pid: pid, Tid: tid, Sid: sid, Start: vB(k == 0), End: vB(k == npk-1),
					Kf: vB(kf && k == 0 && sid == 0), Nonref: vB(maxS > 0 && sid < maxS && r0.Intn(4) == 0)}
				if k == 0 {
					t.Tidup = vB(kf || r0.Intn(2) == 0)
				}
				if kf && k == 0 && sid > 0 {
					// upper spatial layers of a key picture are not inter-picture predicted
					t.Tidup = 1
				}
				// source marker: VP8 always on the last packet; VP9 only at the end of the superframe
				if cfg.codec == "vp8" {
					t.Marker = t.End
				} else {
					t.Marker = vB(k == npk-1 && sid == maxS && r0.Intn(8) != 0)
				}
				tt := t
				ppos := pos
				p := r.packet(ppos, func() (fwTruth, int) { return tt, 30 + r0.Intn(1200) })
				pos++
				// loss towards the receiver (never delivered now; may arrive late)
				if r0.Intn(100) < pLate && r.hi >= 0 {
					r.up.cache.Store(p.seq, p.ts, p.truth.Kf != 0, p.truth.Marker != 0, p.buf)
					continue
				}
				r.deliver(p, true)
				if r0.Intn(100) < pLate && r.hi > 4 {
					// a late or duplicate packet
					q := r.pk[r.hi-r0.Intn(min(r.hi, 30))]
					if q != nil {
						r.deliver(q, false)
					}
				}
				if r0.Intn(100) < pNack {
					switch r0.Intn(5) {
					case 0:
						r.nack(uint16(r0.Intn(65536)))
					default:
						r.nack(uint16(r.lastOut - r0.Intn(20)))
					}
				}
				if r0.Intn(100) < pFb {
					switch r0.Intn(7) {
					case 0, 1:
						r.adjust("up")
					case 2, 3:
						r.adjust("down")
					case 4:
						r.adjust("remb")
					case 5:
						r.report([]uint8{0, 4, 5, 25, 26, 128, 255}[r0.Intn(7)], r0.Intn(4) == 0)
					case 6:
						r.limit(r0.Intn(2) == 0)
					}
				}
				if r0.Intn(300) == 0 {
					c := []int{4, 8, 16, 64, 256}[r0.Intn(5)]
					r.up.cache.Resize(c)
					tr.Emit(map[string]any{"ev": "Resize", "cap": c})
				}
			}
		}
		pid = (pid + 1) % cfg.pidm
	}
	_ = maxT
}

// two receivers served by one writer: as in rtpWriterLoop, the packet is read from the cache
// once and the same buffer is passed to both down tracks, the first of which sits on a lower
// temporal layer (non-zero seqno delta and picture-id shift)
func fwPairStream(tr *vTrace, r0 *rand.Rand, cfg fwStreamCfg, npk int) {
	start := []int{0, 65530, 57344, 100, r0.Intn(65536)}[r0.Intn(5)]
	a := fwNewRig(tr, cfg, start, 64, "pair-first")
	b := fwNewRig(tr, cfg, start, 64, "pair-second")
	for pos := 0; pos < npk; pos++ {
		t := fwTruth{Pid: ((pos/2)%cfg.pidm + cfg.pidm - 2) % cfg.pidm, Tid: (pos / 2) % 2,
			Start: vB(pos%2 == 0), End: vB(pos%2 == 1), Marker: vB(pos%2 == 1)}
		if pos == 0 {
			t.Kf, t.Tidup = 1, 1
		}
		if pos < 2 {
			t.Tid = 0
		}
		size := 40 + r0.Intn(300)
		pa := a.packet(pos, func() (fwTruth, int) { return t, size })
		pb := b.packet(pos, func() (fwTruth, int) { return t, size })
		if pos == 2 {
			// both receivers have seen two temporal layers; the first one selects layer 0
			for i, r := range []*fwRig{a, b} {
				l := r.down.getLayerInfo()
				l.maxTid, l.tid, l.wantedTid = 1, uint8(i), uint8(i)
				r.down.setLayerInfo(l)
				r.emit(map[string]any{"ev": "Pin", "la": fwLayerOf(r.down)})
			}
		}
		shared := bytes.Clone(pa.buf)
		a.deliverBuf(pa, true, shared)
		b.deliverBuf(pb, true, shared)
	}
	b.flush()
}

// sets the bandwidth regime so that the adjustLayer call inside Write goes the given way
func (r *fwRig) regime(dir string) {
	now := rtptime.Jiffies()
	r.down.maxREMBBitrate.Set(0, now)
	if dir == "down" {
		r.down.maxBitrate.Set(9600, now)
		r.down.rate.Accumulate(100000)
		time.Sleep(2500 * time.Microsecond)
	} else {
		r.down.maxBitrate.Set(1<<30, now)
	}
}

// replays a behaviour of Sim_Forward.tla: packets with the given ground-truth flags, in order,
// interleaved with feedback-driven adjustLayer calls and limitSid requests
func fwReplayFlags(tr *vTrace, cfg fwStreamCfg, ops [][]any, start int) {
	r := fwNewRig(tr, cfg, start, 64, "tlc-flags")
	pid := cfg.pidm - 2
	pos := 0
	num := func(x any) int { return int(x.(float64)) }
	for _, op := range ops {
		switch op[0].(string) {
		case "P":
			t := fwTruth{Tid: num(op[1]), Sid: num(op[2]), Start: num(op[3]), End: num(op[4]), Kf: num(op[5]),
				Tidup: num(op[6]), Nonref: num(op[7]), Marker: num(op[8])}
			if t.Start != 0 {
				pid = (pid + 1) % cfg.pidm
			}
			t.Pid = pid
			dir := op[9].(string)
			li := r.down.getLayerInfo()
			if uint8(t.Tid) > li.maxTid || uint8(t.Sid) > li.maxSid {
				r.regime(dir)
			}
			pp := pos
			p := r.packet(pp, func() (fwTruth, int) { return t, 40 + (pp*31)%500 })
			pos++
			r.deliver(p, true)
		case "A":
			r.adjust(op[1].(string))
		case "L":
			r.limit(num(op[1]) != 0)
		}
	}
}

// a receiver on temporal layer 0 while the publisher sends a very long run of layer-1 packets:
// more than 8192 consecutive withheld packets, then forwarding resumes
func fwLongDrop(tr *vTrace, r0 *rand.Rand, cfg fwStreamCfg) {
	start := []int{0, 65000, 57344, r0.Intn(65536)}[r0.Intn(4)]
	r := fwNewRig(tr, cfg, start, 64, "longdrop")
	run := []int{8191, 8192, 8193, 8200, 9000}[r0.Intn(5)]
	pos := 0
	pid := r0.Intn(cfg.pidm)
	send := func(tid int, kf bool) {
		t := fwTruth{Pid: pid, Tid: tid, Start: 1, End: 1, Marker: 1, Kf: vB(kf), Tidup: vB(kf)}
		pp := pos
		p := r.packet(pp, func() (fwTruth, int) { return t, 60 })
		pos++
		pid = (pid + 1) % cfg.pidm
		r.deliver(p, true)
	}
	send(0, true)
	l := r.down.getLayerInfo()
	l.maxTid, l.tid, l.wantedTid = 1, 0, 0
	r.down.setLayerInfo(l)
	r.emit(map[string]any{"ev": "Pin", "la": fwLayerOf(r.down)})
	for i := 0; i < 6; i++ {
		send(i%2, false)
	}
	for i := 0; i < run; i++ {
		send(1, false)
	}
	for i := 0; i < 40; i++ {
		send(i%2, false)
		if i%7 == 3 {
			r.nack(uint16(r.lastOut - r0.Intn(3)))
		}
	}
}

// NACK-heavy histories (C03): variant 0 -- more drop runs than the interval table of packetmap holds (128), every second packet
// withheld, a cache that still has everything, then NACKs for the oldest numbers, for random ones and for recent ones;
// variant 1 -- nothing dropped yet, the temporal layer is switched down, then NACKs for two consecutive old numbers (the second
// one belongs to the layer that is filtered now) before the stream continues, again with NACKs for old and recent numbers.
func fwNackHeavy(tr *vTrace, r0 *rand.Rand, cfg fwStreamCfg, variant int) {
	start := []int{0, 65300, 57344, r0.Intn(65536)}[r0.Intn(4)]
	r := fwNewRig(tr, cfg, start, 1024, "nackheavy")
	pos := 0
	pid := r0.Intn(cfg.pidm)
	send := func(tid int, kf bool) *fwPkt {
		t := fwTruth{Pid: pid, Tid: tid, Start: 1, End: 1, Marker: 1, Kf: vB(kf), Tidup: vB(kf)}
		p := r.packet(pos, func() (fwTruth, int) { return t, 60 })
		pos++
		pid = (pid + 1) % cfg.pidm
		r.deliver(p, true)
		return p
	}
	pin := func(tid int) {
		l := r.down.getLayerInfo()
		l.maxTid, l.tid, l.wantedTid = 1, uint8(tid), uint8(tid)
		r.down.setLayerInfo(l)
		r.emit(map[string]any{"ev": "Pin", "la": fwLayerOf(r.down)})
	}
	outs := func() []int {
		o := []int{}
		for k := 0; k < pos; k++ {
			if p := r.pk[k]; p != nil && p.sent {
				o = append(o, p.fo)
			}
		}
		return o
	}
	send(0, true)
	if variant == 0 {
		pin(0)
		n := 2 * (135 + r0.Intn(60))
		for i := 0; i < n; i++ {
			send(1-i%2, false)
		}
		o := outs()
		for k := 0; k < 50 && k < len(o); k++ {
			r.nack(uint16(o[k]))
		}
		for k := 0; k < 40; k++ {
			r.nack(uint16(o[r0.Intn(len(o))]))
			if k%4 == 0 {
				send(k/4%2, false)
			}
		}
	} else {
		pin(1)
		n := 8 + r0.Intn(20)
		for i := 0; i < n; i++ {
			send(1-i%2, false)
		}
		o := outs()
		pin(0)
		// an old packet of the base layer and its successor, in one feedback message as a browser would send them
		k := 1 + 2*r0.Intn((len(o)-2)/2)
		if r.pk[k] != nil && r.pk[k].truth.Tid != 0 {
			k++
		}
		r.nack(uint16(o[k]))
		r.nack(uint16(o[k] + 1))
		for i := 0; i < 30; i++ {
			send(1-i%2, false)
			if i%3 == 1 {
				oo := outs()
				r.nack(uint16(oo[r0.Intn(len(oo))]))
				r.nack(uint16(r.lastOut - r0.Intn(3)))
			}
		}
	}
}

type fwScript struct {
	Flags []struct {
		Codec string  `json:"codec"`
		Ops   [][]any `json:"ops"`
	} `json:"flags"`
	Seq []struct {
		Start int     `json:"start"`
		Ops   [][]int `json:"ops"`
	} `json:"seq"`
}

// forced schedules of LayerRace.tla: adjustLayer (which = "adjustLayer") or the deferred limitSid update of replaceTracks
// (which = "replaceTracks") is stopped by the hook between its load and its store of the layer word, a Write that moves the selected
// layer runs, then the stopped goroutine is released.  The feedback event is logged with the layer word just before the release.
func fwRaceLayer(tr *vTrace, which string, variant int) {
	cfg := fwStreamCfg{"vp9", 32768, 0}
	r := fwNewRig(tr, cfg, 1000, 64, "race-"+which)
	gate := make(chan struct{})
	reached := make(chan struct{}, 1)
	var armed atomic.Bool
	verifhook.Set(func(point string, args ...any) {
		if point == "rtpconn."+which+".loaded" && armed.CompareAndSwap(true, false) {
			reached <- struct{}{}
			<-gate
		}
	})
	defer verifhook.Set(nil)
	pos, pid := 0, 7
	frame := func(kf bool, sids int) {
		for sid := 0; sid < sids; sid++ {
			t := fwTruth{Pid: pid, Tid: 0, Sid: sid, Start: 1, End: 1, Kf: vB(kf && sid == 0), Tidup: 1, Marker: vB(sid == sids-1)}
			p := r.packet(pos, func() (fwTruth, int) { return t, 80 })
			pos++
			r.deliver(p, true)
		}
		pid++
	}
	frame(true, 2)  // two spatial layers appear: the receiver, at the top, follows (sid 1, maxSid 1)
	frame(false, 2)
	r.adjust("down") // wantedSid 0
	frame(true, 2)   // keyframe: sid 0
	frame(false, 2)
	if which == "adjustLayer" {
		r.adjust("up") // wantedSid 1, still sid 0
		now := rtptime.Jiffies()
		r.down.maxBitrate.Set(1<<30, now)
		r.down.maxREMBBitrate.Set(0, now)
	} else if variant == 0 {
		r.adjust("up")
	}
	done := make(chan struct{})
	armed.Store(true)
	go func() {
		defer close(done)
		if which == "adjustLayer" {
			r.down.adjustLayer()
		} else {
			replaceTracks(r.dconn, []conn.UpTrack{r.up}, variant == 1)
		}
	}()
	stopped := false
	select {
	case <-reached:
		stopped = true
	case <-done:
	case <-time.After(2 * time.Second):
	}
	if stopped {
		if which == "replaceTracks" && variant == 1 {
			// a third spatial layer shows up meanwhile: maxSid moves in Write
			t := fwTruth{Pid: pid, Tid: 0, Sid: 2, Start: 1, End: 1, Tidup: 1, Marker: 1}
			p := r.packet(pos, func() (fwTruth, int) { return t, 80 })
			pos++
			r.deliver(p, true)
		} else {
			frame(true, 2) // the keyframe at which Write switches to sid 1
		}
		lb := fwLayerOf(r.down)
		close(gate)
		<-done
		la := fwLayerOf(r.down)
		if which == "adjustLayer" {
			r.emit(map[string]any{"ev": "Adj", "dir": "up", "lb": lb, "la": la, "racing": 1})
		} else {
			r.emit(map[string]any{"ev": "Lim", "lim": vB(variant == 1), "err": 0, "lb": lb, "la": la, "racing": 1})
		}
	} else {
		r.emit(map[string]any{"ev": "RaceNotForced", "which": which})
	}
	frame(false, 2)
	frame(false, 2)
}

func TestVerifForward(t *testing.T) {
	tr := vOpenTrace()
	defer tr.Close()
	sd := int64(vEnvInt("VERIF_SEED", 1))
	r0 := rand.New(rand.NewSource(sd))
	cfgs := []fwStreamCfg{{"vp8", 32768, 0}, {"vp8", 128, 0}, {"vp8", 32768, 2}, {"vp9", 32768, 0}, {"vp9", 128, 1}}
	var sc fwScript
	if vScript(&sc) {
		for i, b := range sc.Seq {
			c := cfgs[i%3]
			fwReplaySeq(tr, c, b.Start, b.Ops, "tlc-seq", 5, r0)
		}
	}
	n := vEnvInt("VERIF_N", 20)
	nf := vEnvInt("VERIF_LEN", 150)
	starts := []int{0, 65530, 57344, 32768, 12345}
	for i, b := range sc.Flags {
		c := cfgs[i%3]
		if b.Codec == "vp9" {
			c = cfgs[3+i%2]
		}
		fwReplayFlags(tr, c, b.Ops, starts[i%len(starts)])
	}
	for i := 0; i < vEnvInt("VERIF_LONGDROP", 1); i++ {
		fwLongDrop(tr, r0, cfgs[i%2])
	}
	for i := 0; i < 2*vEnvInt("VERIF_NACKHEAVY", 2); i++ {
		fwNackHeavy(tr, r0, cfgs[(i/2)%3], i%2)
	}
	for i := 0; i < n; i++ {
		fwRandomStream(tr, r0, cfgs[i%len(cfgs)], nf, "layered")
	}
	for i := 0; i < 1+n/10; i++ {
		fwPairStream(tr, r0, cfgs[i%3], 60)
	}
	if vEnvInt("VERIF_RACE", 1) != 0 {
		fwRaceLayer(tr, "adjustLayer", 0)
		fwRaceLayer(tr, "replaceTracks", 0)
		fwRaceLayer(tr, "replaceTracks", 1)
	}
}
