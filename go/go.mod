module verif

go 1.24.0

require (
	github.com/golang-jwt/jwt/v5 v5.3.1
	github.com/gorilla/websocket v1.5.0
	github.com/jech/galene v0.0.0
	github.com/pion/interceptor v0.1.45
	github.com/pion/rtcp v1.2.17
	github.com/pion/rtp v1.10.4
	github.com/pion/sdp/v3 v3.0.19
	github.com/pion/webrtc/v4 v4.2.17
	golang.org/x/crypto v0.48.0
)

require (
	github.com/at-wat/ebml-go v0.18.0 // indirect
	github.com/google/uuid v1.6.0 // indirect
	github.com/jech/cert v0.0.0-20240301122532-f491cf43a77d // indirect
	github.com/jech/samplebuilder v0.0.0-20241027120643-76c654ae55e1 // indirect
	github.com/pion/datachannel v1.6.2 // indirect
	github.com/pion/dtls/v3 v3.1.5 // indirect
	github.com/pion/ice/v4 v4.3.0 // indirect
	github.com/pion/logging v0.2.4 // indirect
	github.com/pion/mdns/v2 v2.1.0 // indirect
	github.com/pion/randutil v0.1.0 // indirect
	github.com/pion/sctp v1.11.0 // indirect
	github.com/pion/srtp/v3 v3.0.12 // indirect
	github.com/pion/stun/v3 v3.1.6 // indirect
	github.com/pion/transport/v4 v4.0.2 // indirect
	github.com/pion/turn/v5 v5.0.12 // indirect
	github.com/wlynxg/anet v0.0.5 // indirect
	golang.org/x/net v0.50.0 // indirect
	golang.org/x/sys v0.41.0 // indirect
	golang.org/x/time v0.14.0 // indirect
)

replace github.com/jech/galene => /repo
