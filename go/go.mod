module verif

go 1.24.0

require github.com/jech/galene v0.0.0

replace github.com/jech/galene => /repo
