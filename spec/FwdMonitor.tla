---------------------------- MODULE FwdMonitor ----------------------------
(***************************************************************************)
(* Layer P of C02, C03 and C04: judgements over OBSERVABLE facts of one    *)
(* step of the forwarding path.  Nothing here refers to Layer I.           *)
(*                                                                         *)
(* A packet's ground truth f (known to the environment / the driver that   *)
(* built the packet, NOT taken from codecs.PacketFlags):                   *)
(*   [pid, tid, sid, start, end, kf, tidup, nonref, marker]                *)
(* lb / la: the receiver's layer selection before / after the step         *)
(*   [sid, wantedSid, maxSid, tid, wantedTid, maxTid, limitSid]            *)
(***************************************************************************)
EXTENDS Integers, Sequences, FiniteSets

\* pidm (parameter of the C02 operators): modulus of the stream's picture ids;
\* 0 = the codec carries none that is rewritten

---------------------------------------------------------------------------
(* C04 *)

\* L1/L2/L4/L5/L6 for one media packet.  gmt/gms: highest tid/sid present in the packets fed
\* so far INCLUDING this one.  inorder: the packet is the next in-order packet of the stream.
C04Packet(lb, la, f, res, inorder, gmt, gms) ==
  \* "a receiver already at the top layer follows a new top layer the first time it appears"
  \* (possibly followed, in the same step, by a legal fall at the start of a frame)
  LET eagerT == f.tid > lb.maxTid /\ lb.tid = lb.maxTid
                /\ (la.tid = f.tid \/ (f.start /\ la.tid <= f.tid))
      eagerS == f.sid > lb.maxSid /\ lb.sid = lb.maxSid /\ ~lb.limitSid /\ la.sid = f.sid
  IN
  IF la.sid # lb.sid /\ ~((f.start /\ f.kf) \/ eagerS) THEN "C04_L1_sid_switch_not_at_keyframe_start"
  ELSE IF la.tid < lb.tid /\ ~f.start THEN "C04_L2_tid_fell_inside_frame"
  ELSE IF la.tid > lb.tid /\ ~( (f.start /\ f.kf)
                               \/ (f.start /\ f.tidup /\ f.tid <= la.wantedTid /\ la.tid = f.tid)
                               \/ eagerT )
       THEN "C04_L2_tid_rose_at_illegal_point"
  ELSE IF la.tid > gmt \/ la.sid > gms THEN "C04_L4_selected_layer_above_highest_seen"
  ELSE IF inorder /\ res = "F" /\ (f.tid > la.tid \/ f.sid > la.sid)
       THEN "C04_L5_packet_above_selection_forwarded"
  ELSE IF lb.limitSid /\ la.limitSid /\ f.start /\ f.kf /\ la.sid # 0
       THEN "C04_L6_limited_receiver_not_steered_to_sid0"
  ELSE IF lb.limitSid /\ la.limitSid /\ lb.sid = 0 /\ la.sid # 0
       THEN "C04_L6_limited_receiver_left_sid0"
  ELSE "ok"

\* L3: feedback / request events never move the selected or the highest layers
C04Feedback(lb, la) ==
  IF la.sid # lb.sid \/ la.tid # lb.tid \/ la.maxSid # lb.maxSid \/ la.maxTid # lb.maxTid
  THEN "C04_L3_feedback_changed_selected_layer" ELSE "ok"

\* L7: the loss-based ceiling after a receiver report
C04Ceiling(c) == IF c < 9600 \/ c > 1073741824 THEN "C04_L7_ceiling_out_of_bounds" ELSE "ok"

---------------------------------------------------------------------------
(* C02 *)

AllowedChange == {"seq", "marker", "pid", "ssrc", "pt"}

\* chg: set of names of header/payload fields that differ between the packet fed in and the
\* packet written (computed by the observation function); mkOut: marker of the written packet;
\* inmod: the buffer that was fed in (the cached original) was modified
C02Fields(chg, f, la, mkOut, inmod, pidm) ==
  IF inmod THEN "C02_cached_original_modified"
  ELSE IF ~(chg \subseteq AllowedChange) THEN "C02_forbidden_field_changed"
  ELSE IF "marker" \in chg /\ ~(mkOut /\ ~f.marker /\ f.end /\ f.sid = la.sid)
       THEN "C02_marker_changed_illegally"
  ELSE IF "pid" \in chg /\ pidm = 0 THEN "C02_pid_rewritten_for_codec_without_pid"
  ELSE "ok"

\* picture ids under whole-frame drops of an in-order history.
\* p = [on |-> clause still applicable, wf |-> #withheld frames so far (mod pidm),
\*      cur |-> "F"/"D"/"-" fate of the frame being received]
InitPid == [on |-> TRUE, wf |-> 0, cur |-> "-"]

C02Pid(p, f, res, pidOut, inorder, pidm) ==
  IF pidm = 0 \/ ~p.on THEN [p |-> p, v |-> "ok"]
  ELSE IF ~inorder \/ res = "X" THEN [p |-> [p EXCEPT !.on = FALSE], v |-> "ok"]
  ELSE IF f.start
  THEN IF res = "D" THEN [p |-> [p EXCEPT !.wf = (p.wf + 1) % pidm, !.cur = "D"], v |-> "ok"]
       ELSE [p |-> [p EXCEPT !.cur = "F"],
             v |-> IF pidOut = (f.pid - p.wf) % pidm THEN "ok" ELSE "C02_picture_id_not_consecutive"]
  ELSE IF res # p.cur
       THEN [p |-> [p EXCEPT !.on = FALSE], v |-> "ok"]   \* partial frame: outside the quantifier
  ELSE IF res = "F" /\ pidOut # (f.pid - p.wf) % pidm
       THEN [p |-> p, v |-> "C02_picture_id_differs_within_frame"]
  ELSE [p |-> p, v |-> "ok"]

---------------------------------------------------------------------------
(* C03 *)

\* one packet written while handling a NACK for outgoing number o.
\*   withheld : the source packet was withheld from this receiver
\*   known    : a first transmission of that source packet to this receiver is on record, as
\*              fo / fm / fp (number, marker, picture id) ; same: the bytes equal that transmission
C03Answer(o, out, mk, pid, withheld, known, fo, fm, fp, same) ==
  IF withheld THEN "C03_withheld_packet_retransmitted"
  ELSE IF out # o THEN "C03_answer_carries_another_number"
  ELSE IF known /\ out # fo THEN "C03_number_differs_from_first_transmission"
  ELSE IF known /\ mk # fm THEN "C03_marker_differs_from_first_transmission"
  ELSE IF known /\ pid # fp THEN "C03_picture_id_differs_from_first_transmission"
  ELSE IF known /\ ~same THEN "C03_bytes_differ_from_first_transmission"
  ELSE "ok"
=============================================================================
