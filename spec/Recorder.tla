------------------------------ MODULE Recorder ------------------------------
(***************************************************************************)
(* C20: delivery histories of one published track to the recorder          *)
(* (diskwriter.diskTrack.Write) and what the file must then contain.       *)
(* The publisher sends packets 1..NP; FrameOf[p] is the frame a packet     *)
(* belongs to, KF the set of keyframes.  For every packet in turn the      *)
(* environment chooses                                                     *)
(*   D  it is stored in the publisher's cache and written to the recorder  *)
(*   S  it is stored in the cache only (the write to this local was        *)
(*      skipped): the recorder has to notice the gap and fetch it          *)
(*   H  it is held back (reordered on the way in): neither cached nor      *)
(*      written until  L  releases it, at most Window packets later        *)
(*   X  it is lost for good                                                *)
(* and at any time  U  writes a duplicate of a packet already written.     *)
(* Layer I of the recorder (transcribed from Write / fetch):               *)
(*   last     the recorder's lastSeqno (0 = none yet)                      *)
(*   has      the packets the sample builder was given                     *)
(* Layer P (the property): once the history is over and the recording is   *)
(* closed, the frames in the file are                                      *)
(*   R1 only complete frames that were sent    R2 each at most once, in    *)
(*   order    R4 if nothing was lost for good: every complete frame from   *)
(*   the first complete keyframe on.                                       *)
(* TLC enumerates every history (exhaustively for small NP, -simulate      *)
(* beyond) and prints it with Must (the frames R4 demands) and May (the    *)
(* frames R1 allows); the harness executes it on the real recorder.        *)
(***************************************************************************)
EXTENDS RecOps, Json

CONSTANTS NP, FrameOf, KF, Window, MaxDup, MaxOdd    \* MaxOdd: bound on the number of non-D choices

VARIABLES nxt, held, heldAt, last, has, ops, ndup, nodd, lost, over
vars == <<nxt, held, heldAt, last, has, ops, ndup, nodd, lost, over>>

Pkts == 1..NP
Frames == {FrameOf[p] : p \in Pkts}
PktsOf(f) == {p \in Pkts : FrameOf[p] = f}

Init == /\ nxt = 1 /\ held = {} /\ heldAt = [p \in {} |-> 0] /\ last = 0 /\ has = {} /\ ops = <<>>
        /\ ndup = 0 /\ nodd = 0 /\ lost = FALSE /\ over = FALSE

Write(p, c) == LET r == WriteF(last, has, p, c) IN last' = r.last /\ has' = r.has

\* what is in the publisher's cache: everything chosen D, S, or released
Cached == {ops[i].p : i \in {j \in 1..Len(ops) : ops[j].op \in {"D", "S", "L", "U"}}}

Op(o, p) == ops' = Append(ops, [op |-> o, p |-> p])

Deliver == /\ ~over /\ nxt <= NP /\ Write(nxt, Cached) /\ Op("D", nxt) /\ nxt' = nxt + 1
           /\ UNCHANGED <<held, heldAt, ndup, nodd, lost, over>>
CacheOnly == /\ ~over /\ nxt <= NP /\ nodd < MaxOdd /\ Op("S", nxt) /\ nxt' = nxt + 1 /\ nodd' = nodd + 1
             /\ UNCHANGED <<held, heldAt, last, has, ndup, lost, over>>
Hold == /\ ~over /\ nxt <= NP /\ nodd < MaxOdd /\ Op("H", nxt) /\ nxt' = nxt + 1 /\ nodd' = nodd + 1
        /\ held' = held \cup {nxt} /\ heldAt' = [q \in held \cup {nxt} |-> IF q = nxt THEN nxt ELSE heldAt[q]]
        /\ UNCHANGED <<last, has, ndup, lost, over>>
Release(p) == /\ ~over /\ p \in held /\ Write(p, Cached) /\ Op("L", p)
              /\ held' = held \ {p} /\ heldAt' = [q \in held \ {p} |-> heldAt[q]]
              /\ UNCHANGED <<nxt, ndup, nodd, lost, over>>
Lose == /\ ~over /\ nxt <= NP /\ nodd < MaxOdd /\ Op("X", nxt) /\ nxt' = nxt + 1 /\ nodd' = nodd + 1 /\ lost' = TRUE
        /\ UNCHANGED <<held, heldAt, last, has, ndup, over>>
Dup(p) == /\ ~over /\ ndup < MaxDup /\ p \in has /\ p \in Cached /\ Write(p, Cached) /\ Op("U", p) /\ ndup' = ndup + 1
          /\ UNCHANGED <<nxt, held, heldAt, nodd, lost, over>>
\* a held packet must come back within the reorder window
InWindow == \A p \in held : nxt - heldAt[p] <= Window
Close == /\ ~over /\ nxt = NP + 1 /\ held = {} /\ over' = TRUE
         /\ UNCHANGED <<nxt, held, heldAt, last, has, ops, ndup, nodd, lost>>

Next == (Deliver \/ CacheOnly \/ Hold \/ Lose \/ Close \/ (\E p \in held : Release(p)) \/ (\E p \in Pkts : Dup(p))) /\ InWindow'
Spec == Init /\ [][Next]_vars

\* ---- Layer P
Written == {i \in 1..Len(ops) : ops[i].op \in {"D", "L", "U"}}
FirstWritten == IF Written = {} THEN NP + 1 ELSE ops[CHOOSE i \in Written : \A j \in Written : i <= j].p
May == MayF(FrameOf, has)                  \* R1: nothing but complete frames
Must == MustF(FrameOf, KF, has, lost, IF FirstWritten > NP THEN 0 ELSE FirstWritten)     \* R4
\* design-level facts
\* only what precedes the first packet ever written (the recorder cannot know it exists) or follows the last one (no later
\* packet reveals the gap) can be missing when nothing is lost for good
NothingLostMeansAllButTail ==
  (over /\ ~lost) => \A p \in Pkts : p \in has \/ (\A q \in Pkts : q > p => q \notin has) \/ p < FirstWritten
HasOnlySent == has \subseteq Pkts

Emit == over => PrintT(<<"HIST", ToJson([ops |-> ops, must |-> SetToSeq(Must), may |-> SetToSeq(May), lost |-> lost])>>)
=============================================================================
