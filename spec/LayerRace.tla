----------------------------- MODULE LayerRace -----------------------------
(***************************************************************************)
(* C04 under schedules: the packed layer word of one receiver is read and  *)
(* written back WHOLE by three goroutines -- Write (the track's writer),   *)
(* adjustLayer (the RTCP listener, on every receiver report / REMB) and    *)
(* the deferred limitSid update of replaceTracks (the client's loop).      *)
(* Forward.tla interleaves these as atomic actions; here adjustLayer and   *)
(* the limit update are split at the point between their load and their    *)
(* store, so that a Write can land in between.  Ghost: the L1 / L3 clauses *)
(* of FwdMonitor -- the selected layers move only in Write, and sid only   *)
(* at the first packet of a keyframe.                                      *)
(* Fixed_F16 = TRUE: the repaired code (compare-and-swap: a store whose    *)
(* load is stale is retried); FALSE: plain load ... store.                 *)
(***************************************************************************)
EXTENDS Integers, Sequences, FiniteSets, TLC

CONSTANTS Fixed_F16, MaxPkts
\* constants of ForwardOps that play no role here
M == 16  W == 2  MaxEntries == 2  PM == 16  Fixed_F9 == TRUE  Fixed_F12 == TRUE  Fixed_F1 == TRUE
INSTANCE ForwardOps

None == [none |-> TRUE]
Flags == [tid : 0..1, sid : 0..1, start : BOOLEAN, kf : BOOLEAN, tidup : BOOLEAN]
Pkt(f) == [seq |-> 0, pid |-> 0, tid |-> f.tid, sid |-> f.sid, start |-> f.start, end |-> FALSE, kf |-> f.kf /\ f.start,
           tidup |-> f.tidup, nonref |-> FALSE, marker |-> FALSE]

VARIABLES L, adj, lim, n, bad
vars == <<L, adj, lim, n, bad>>

Init == L = InitLayer /\ adj = None /\ lim = None /\ n = 0 /\ bad = "ok"

Selected(x) == <<x.sid, x.tid, x.maxSid, x.maxTid>>
\* Write is atomic here (its own load..store window can only lose a wanted-layer update of the others)
Write(f) == /\ n < MaxPkts /\ n' = n + 1
            /\ LET p == Pkt(f) L2 == LayerStep(L, p, "none") eager == p.sid > L.maxSid /\ L.sid = L.maxSid /\ ~L.limitSid IN
               /\ L' = L2
               /\ bad' = IF bad = "ok" /\ L2.sid # L.sid /\ ~((p.start /\ p.kf) \/ eager) THEN "C04_L1_sid_switch_not_at_keyframe_start" ELSE bad
            /\ UNCHANGED <<adj, lim>>
AdjLoad(dir) == /\ adj = None /\ adj' = [copy |-> L, dir |-> dir] /\ UNCHANGED <<L, lim, n, bad>>
AdjStore == /\ adj # None
            /\ IF Fixed_F16 /\ adj.copy # L
               THEN adj' = [adj EXCEPT !.copy = L] /\ UNCHANGED <<L, bad>>          \* compare-and-swap failed: reload, retry
               \* (the code stores only in the branches that change something)
               ELSE /\ L' = (IF AdjustOp(adj.copy, adj.dir) = adj.copy THEN L ELSE AdjustOp(adj.copy, adj.dir)) /\ adj' = None
                    /\ bad' = IF bad = "ok" /\ Selected(L') # Selected(L) THEN "C04_L3_feedback_changed_selected_layer" ELSE bad
            /\ UNCHANGED <<lim, n>>
LimLoad(v) == /\ lim = None /\ lim' = [copy |-> L, v |-> v] /\ UNCHANGED <<L, adj, n, bad>>
LimStore == /\ lim # None
            /\ IF Fixed_F16 /\ lim.copy # L
               THEN lim' = [lim EXCEPT !.copy = L] /\ UNCHANGED <<L, bad>>
               ELSE /\ L' = LimitOp(lim.copy, lim.v) /\ lim' = None
                    /\ bad' = IF bad = "ok" /\ Selected(L') # Selected(L) THEN "C04_L3_request_changed_selected_layer" ELSE bad
            /\ UNCHANGED <<adj, n>>
Next == \/ \E f \in Flags : Write(f)
        \/ \E d \in {"up", "down"} : AdjLoad(d)
        \/ AdjStore \/ LimStore
        \/ \E v \in BOOLEAN : LimLoad(v)
Spec == Init /\ [][Next]_vars
PropertyHolds == bad = "ok"
=============================================================================
