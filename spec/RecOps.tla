------------------------------- MODULE RecOps -------------------------------
(***************************************************************************)
(* Operators shared by Recorder.tla (history generation, design checks)    *)
(* and Trace_Rec.tla (validation of executed histories).                   *)
(***************************************************************************)
EXTENDS Integers, Sequences, FiniteSets, TLC

\* Layer I -- diskTrack.Write(p) with cache content c: last = lastSeqno (0: none), has = what the sample builder was given.
\* A forward jump fetches what lies in between from the cache; a backward jump fetches nothing.
WriteF(last, has, p, c) ==
  IF last = 0 THEN [last |-> p, has |-> has \cup {p}]
  ELSE IF p > last THEN [last |-> p, has |-> has \cup {p} \cup {q \in (last + 1)..(p - 1) : q \in c}]
  ELSE [last |-> last, has |-> has \cup {p}]

\* Layer P -- frameOf: packet index -> frame index; kf: set of key frames
FramesOf(frameOf) == {frameOf[p] : p \in 1..Len(frameOf)}
PktsOfF(frameOf, f) == {p \in 1..Len(frameOf) : frameOf[p] = f}
CompleteF(frameOf, has, f) == PktsOfF(frameOf, f) \subseteq has
MayF(frameOf, has) == {f \in FramesOf(frameOf) : CompleteF(frameOf, has, f)}
\* fw: the first packet ever written to the recorder (0: none).  What precedes it in the stream is, for the recorder, before
\* the recording began: packets older than the first one it saw are late for its sample builder whenever they come.
FirstPktF(frameOf, f) == CHOOSE p \in PktsOfF(frameOf, f) : \A q \in PktsOfF(frameOf, f) : p <= q
FirstKFF(frameOf, kf, has, fw) ==
  LET ck == {f \in kf : CompleteF(frameOf, has, f) /\ FirstPktF(frameOf, f) >= fw} IN IF ck = {} \/ fw = 0 THEN 0 ELSE CHOOSE f \in ck : \A g \in ck : f <= g
\* R4: nothing lost for good => every complete frame from the first complete keyframe on
MustF(frameOf, kf, has, lost, fw) ==
  LET k == FirstKFF(frameOf, kf, has, fw) IN
  IF lost \/ k = 0 THEN {} ELSE {f \in FramesOf(frameOf) : f >= k /\ CompleteF(frameOf, has, f)}

\* the same, for a stream whose losses all precede some complete keyframe: seen from that keyframe on, every packet
\* reaches the recorder (lostp: the packets lost for good)
MustAfterF(frameOf, kf, has, lostp, fw) ==
  LET ck == {f \in kf : CompleteF(frameOf, has, f) /\ FirstPktF(frameOf, f) >= fw /\ \A p \in lostp : p < FirstPktF(frameOf, f)}
  IN IF ck = {} \/ fw = 0 THEN {}
     ELSE LET k == CHOOSE f \in ck : \A g \in ck : f <= g IN {f \in FramesOf(frameOf) : f >= k /\ CompleteF(frameOf, has, f)}

SetToSeq(S) == LET RECURSIVE F(_) F(T) == IF T = {} THEN <<>> ELSE LET m == CHOOSE x \in T : \A y \in T : x <= y IN <<m>> \o F(T \ {m}) IN F(S)
=============================================================================
