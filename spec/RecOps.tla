------------------------------- MODULE RecOps -------------------------------
(***************************************************************************)
(* Operators shared by Recorder.tla (history generation, design checks)    *)
(* and Trace_Rec.tla (validation of executed histories).                   *)
(***************************************************************************)
EXTENDS Integers, Sequences, FiniteSets, TLC

\* Layer I -- diskTrack.Write(p) with cache content c: last = lastSeqno (0: none), has = what the sample builder was given.
\* A forward jump fetches what lies in between from the cache; a backward jump fetches nothing.
WriteF(last, has, p, c) ==
  IF last = 0 THEN [last |-> p, has |-> has \cup {p}]
  ELSE IF p > last THEN [last |-> p, has |-> has \cup {p} \cup {q \in (last + 1)..(p - 1) : q \in c}]
  ELSE [last |-> last, has |-> has \cup {p}]

\* Layer P -- frameOf: packet index -> frame index; kf: set of key frames
FramesOf(frameOf) == {frameOf[p] : p \in 1..Len(frameOf)}
PktsOfF(frameOf, f) == {p \in 1..Len(frameOf) : frameOf[p] = f}
CompleteF(frameOf, has, f) == PktsOfF(frameOf, f) \subseteq has
MayF(frameOf, has) == {f \in FramesOf(frameOf) : CompleteF(frameOf, has, f)}
FirstKFF(frameOf, kf, has) ==
  LET ck == {f \in kf : CompleteF(frameOf, has, f)} IN IF ck = {} THEN 0 ELSE CHOOSE f \in ck : \A g \in ck : f <= g
\* R4: nothing lost for good => every complete frame from the first complete keyframe on
MustF(frameOf, kf, has, lost) ==
  LET k == FirstKFF(frameOf, kf, has) IN
  IF lost \/ k = 0 THEN {} ELSE {f \in FramesOf(frameOf) : f >= k /\ CompleteF(frameOf, has, f)}

SetToSeq(S) == LET RECURSIVE F(_) F(T) == IF T = {} THEN <<>> ELSE LET m == CHOOSE x \in T : \A y \in T : x <= y IN <<m>> \o F(T \ {m}) IN F(S)
=============================================================================
