----------------------------- MODULE Trace_Auth -----------------------------
(* Compares the decision of the REAL code with the decision Auth.tla demands, row by row.  The rows and *)
(* the expected decisions were produced by TLC from Auth.tla; this spec only re-reads both.              *)
EXTENDS Integers, Sequences, FiniteSets, TLC, Json
CONSTANTS TraceFile
Trace == ndJsonDeserialize(TraceFile)
VARIABLES l, nbad, done
vars == <<l, nbad, done>>
Init == l = 1 /\ nbad = 0 /\ done = FALSE
Ev == Trace[l]
SetOf(sq) == {sq[i] : i \in 1..Len(sq)}
Judge(e) ==
  CASE e.table = "password" ->
         IF e.got.accept # e.expect.accept
         THEN (IF e.got.accept THEN "C08_login_accepted_that_must_be_refused" ELSE "C08_login_refused_that_must_be_accepted")
         ELSE IF e.got.accept /\ SetOf(e.got.perms) # SetOf(e.expect.perms) THEN "C08_rights_differ_from_configured_role"
         ELSE "ok"
    [] e.table = "hash" ->
         IF ~e.got.right THEN "C08_tool_hash_does_not_verify_its_own_password"
         ELSE IF e.got.other # e.expect.other THEN "C08_tool_hash_verifies_another_password" ELSE "ok"
    [] e.table = "stateful" ->
         IF e.got.accept /\ ~e.expect.accept THEN "C09_stateful_token_accepted_outside_scope_window_or_name_rules"
         ELSE IF ~e.got.accept /\ e.expect.accept THEN "C09_valid_stateful_token_refused"
         ELSE IF e.got.accept /\ e.got.user # e.expect.user THEN "C09_username_rule_violated"
         ELSE IF e.got.accept /\ e.got.why # "" THEN "C09_permissions_differ_from_the_tokens"
         ELSE IF ~e.got.accept /\ e.expect.why \in {"need-username", "duplicate-username"} /\ e.got.why # e.expect.why
              THEN "C09_username_rule_violated"
         ELSE "ok"
    [] e.table = "jwt" ->
         IF e.got.accept /\ ~e.expect.accept THEN "C09_signed_token_accepted_that_must_be_refused"
         ELSE IF ~e.got.accept /\ e.expect.accept THEN "C09_valid_signed_token_refused"
         ELSE "ok"
Step == /\ l <= Len(Trace)
        /\ IF Ev.ev = "case"
           THEN LET v == Judge(Ev) IN
                /\ nbad' = IF v # "ok" THEN nbad + 1 ELSE nbad
                /\ (v # "ok" => PrintT(<<"TRACE-BAD", l, 1, v>>))
           ELSE UNCHANGED nbad
        /\ l' = l + 1 /\ UNCHANGED done
Finish == /\ l = Len(Trace) + 1 /\ ~done /\ done' = TRUE
          /\ PrintT(<<"TRACE-DONE", l - 1, 1, 0, nbad>>) /\ UNCHANGED <<l, nbad>>
Next == Step \/ Finish
Spec == Init /\ [][Next]_vars
=============================================================================
