INIT Init
NEXT Next
CONSTANTS
  Fixed_F22 = FALSE
INVARIANTS P1 P1u P2 P3 P4
CHECK_DEADLOCK FALSE
