CONSTANTS
  Prod = {1, 2}
  NItems = 2
  Lossy = FALSE
  Unsolicited = FALSE
INIT SInit
NEXT SNext
INVARIANTS Emit Q1 Q2
CHECK_DEADLOCK FALSE
