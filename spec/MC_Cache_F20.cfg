\* C06: loss bitmap, NACK decision, statistics; every arrival history of a bounded stream
CONSTANTS
  M = 32
  BitmapW = 8
  GetW = 5
  LateT = 4
  Fixed_F20 = FALSE
  Fixed_F26 = TRUE
  NackHorizon = 10
  Caps = {2}
  Ids = {1}
  Offs <- OffsLoss
  KFs = {FALSE}
  MaxPackets = 3
  Unnacked = 2
  MaxHi = 6
  Starts = {29}
INIT Init
NEXT Next
INVARIANTS PropertyHolds
CONSTRAINT Bounded
VIEW View
