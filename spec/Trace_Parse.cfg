CONSTANTS
  TraceFile = "trace_parse.ndjson"
INIT Init
NEXT Next
CHECK_DEADLOCK FALSE
