--------------------------- MODULE GroupMonitor ---------------------------
(***************************************************************************)
(* Layer P of C10.  The monitor sees the totally ordered events of the     *)
(* group's critical sections (hooks numbered under Group.mu):              *)
(*   admit(c, isOp) | refuse(c, isOp, dupId) | leave(c) | lock(b) (an      *)
(*   operator's SetLocked or the automatic lock) | reload(description)     *)
(* and keeps  mem (members with their op flag), locked, cf (description).  *)
(* A non-operator may be admitted only if, at that moment, the group is    *)
(* not locked, not full, inside its time window, has an operator if it is  *)
(* autokick, and -- autolock -- has an operator (a group without operator  *)
(* must already be locked again when a later join is evaluated).           *)
(***************************************************************************)
EXTENDS Integers, FiniteSets

InitMon(cf) == [mem |-> {}, ops |-> {}, locked |-> FALSE, cf |-> cf]

OnReload(m, cf) == [m EXCEPT !.cf = cf]
OnLock(m, b) == [m EXCEPT !.locked = b]
OnLeave(m, c) == [m EXCEPT !.mem = @ \ {c}, !.ops = @ \ {c}]

OnAdmit(m, c, isOp) ==
  [mon |-> [m EXCEPT !.mem = @ \cup {c}, !.ops = IF isOp THEN @ \cup {c} ELSE @],
   v |-> IF c \in m.mem THEN "C10_duplicate_id_admitted"
         ELSE IF isOp THEN "ok"
         ELSE IF m.locked THEN "C10_non_operator_admitted_to_locked_group"
         ELSE IF m.cf.max > 0 /\ Cardinality(m.mem) >= m.cf.max THEN "C10_non_operator_admitted_to_full_group"
         ELSE IF m.cf.window # "open" THEN "C10_non_operator_admitted_outside_time_window"
         ELSE IF m.cf.autokick /\ m.ops = {} THEN "C10_non_operator_admitted_to_autokick_group_without_operator"
         ELSE IF m.cf.autolock /\ m.ops = {} THEN "C10_non_operator_admitted_to_autolock_group_without_operator"
         ELSE "ok"]

\* operators are exempt from every admission rule (only a duplicate id may refuse them)
OnRefuse(m, c, isOp, dupId) ==
  [mon |-> m,
   v |-> IF isOp /\ ~dupId THEN "C10_operator_refused" ELSE "ok"]

\* a membership announcement ("add") about client x was pushed to someone
OnAnnounce(m, x) == IF x \notin m.mem THEN "C10_rejected_or_absent_client_announced" ELSE "ok"
=============================================================================
