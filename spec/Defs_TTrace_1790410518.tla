---- MODULE Defs_TTrace_1790410518 ----
EXTENDS Sequences, TLCExt, Toolbox, Naturals, TLC, Defs_TEConstants, Defs

_expression ==
    LET Defs_TEExpression == INSTANCE Defs_TEExpression
    IN Defs_TEExpression!expression
----

_trace ==
    LET Defs_TETrace == INSTANCE Defs_TETrace
    IN Defs_TETrace!trace
----

_inv ==
    ~(
        TLCGet("level") = Len(_TETrace)
        /\
        cur = ((e1 :> 0 @@ e2 :> 0 @@ e3 :> 0))
        /\
        temp = ([nil |-> TRUE])
        /\
        stray = (0)
        /\
        pc = ((e1 :> "idle" @@ e2 :> "idle" @@ e3 :> "idle"))
        /\
        file = ([exists |-> TRUE, ver |-> 2, val |-> a])
        /\
        held = ((e1 :> 0 @@ e2 :> 0 @@ e3 :> 0))
        /\
        acks = ([n |-> (0 :> 1 @@ 1 :> 0 @@ 2 :> 0 @@ 3 :> 0 @@ 4 :> 0), stale |-> TRUE, partial |-> FALSE])
        /\
        want = ((e1 :> a @@ e2 :> a @@ e3 :> a))
        /\
        lock = ([nil |-> TRUE])
        /\
        cond = ((e1 :> FALSE @@ e2 :> FALSE @@ e3 :> FALSE))
        /\
        seen = ({})
    )
----

_init ==
    /\ cur = _TETrace[1].cur
    /\ cond = _TETrace[1].cond
    /\ pc = _TETrace[1].pc
    /\ acks = _TETrace[1].acks
    /\ file = _TETrace[1].file
    /\ temp = _TETrace[1].temp
    /\ lock = _TETrace[1].lock
    /\ stray = _TETrace[1].stray
    /\ want = _TETrace[1].want
    /\ held = _TETrace[1].held
    /\ seen = _TETrace[1].seen
----

_next ==
    /\ \E i,j \in DOMAIN _TETrace:
        /\ \/ /\ j = i + 1
              /\ i = TLCGet("level")
        /\ cur  = _TETrace[i].cur
        /\ cur' = _TETrace[j].cur
        /\ cond  = _TETrace[i].cond
        /\ cond' = _TETrace[j].cond
        /\ pc  = _TETrace[i].pc
        /\ pc' = _TETrace[j].pc
        /\ acks  = _TETrace[i].acks
        /\ acks' = _TETrace[j].acks
        /\ file  = _TETrace[i].file
        /\ file' = _TETrace[j].file
        /\ temp  = _TETrace[i].temp
        /\ temp' = _TETrace[j].temp
        /\ lock  = _TETrace[i].lock
        /\ lock' = _TETrace[j].lock
        /\ stray  = _TETrace[i].stray
        /\ stray' = _TETrace[j].stray
        /\ want  = _TETrace[i].want
        /\ want' = _TETrace[j].want
        /\ held  = _TETrace[i].held
        /\ held' = _TETrace[j].held
        /\ seen  = _TETrace[i].seen
        /\ seen' = _TETrace[j].seen

\* Uncomment the ASSUME below to write the states of the error trace
\* to the given file in Json format. Note that you can pass any tuple
\* to `JsonSerialize`. For example, a sub-sequence of _TETrace.
    \* ASSUME
    \*     LET J == INSTANCE Json
    \*         IN J!JsonSerialize("Defs_TTrace_1790410518.json", _TETrace)

=============================================================================

 Note that you can extract this module `Defs_TEExpression`
  to a dedicated file to reuse `expression` (the module in the 
  dedicated `Defs_TEExpression.tla` file takes precedence 
  over the module `Defs_TEExpression` below).

---- MODULE Defs_TEExpression ----
EXTENDS Sequences, TLCExt, Toolbox, Naturals, TLC, Defs_TEConstants, Defs

expression == 
    [
        \* To hide variables of the `Defs` spec from the error trace,
        \* remove the variables below.  The trace will be written in the order
        \* of the fields of this record.
        cur |-> cur
        ,cond |-> cond
        ,pc |-> pc
        ,acks |-> acks
        ,file |-> file
        ,temp |-> temp
        ,lock |-> lock
        ,stray |-> stray
        ,want |-> want
        ,held |-> held
        ,seen |-> seen
        
        \* Put additional constant-, state-, and action-level expressions here:
        \* ,_stateNumber |-> _TEPosition
        \* ,_curUnchanged |-> cur = cur'
        
        \* Format the `cur` variable as Json value.
        \* ,_curJson |->
        \*     LET J == INSTANCE Json
        \*     IN J!ToJson(cur)
        
        \* Lastly, you may build expressions over arbitrary sets of states by
        \* leveraging the _TETrace operator.  For example, this is how to
        \* count the number of times a spec variable changed up to the current
        \* state in the trace.
        \* ,_curModCount |->
        \*     LET F[s \in DOMAIN _TETrace] ==
        \*         IF s = 1 THEN 0
        \*         ELSE IF _TETrace[s].cur # _TETrace[s-1].cur
        \*             THEN 1 + F[s-1] ELSE F[s-1]
        \*     IN F[_TEPosition - 1]
    ]

=============================================================================



Parsing and semantic processing can take forever if the trace below is long.
 In this case, it is advised to uncomment the module below to deserialize the
 trace from a generated binary file.

\*
\*---- MODULE Defs_TETrace ----
\*EXTENDS IOUtils, TLC, Defs_TEConstants, Defs
\*
\*trace == IODeserialize("Defs_TTrace_1790410518.bin", TRUE)
\*
\*=============================================================================
\*

---- MODULE Defs_TETrace ----
EXTENDS TLC, Defs_TEConstants, Defs

trace == 
    <<
    ([cur |-> (e1 :> 0 @@ e2 :> 0 @@ e3 :> 0),temp |-> [nil |-> TRUE],stray |-> 0,pc |-> (e1 :> "idle" @@ e2 :> "idle" @@ e3 :> "idle"),file |-> [exists |-> TRUE, ver |-> 1, val |-> a],held |-> (e1 :> 0 @@ e2 :> 0 @@ e3 :> 0),acks |-> [n |-> (0 :> 0 @@ 1 :> 0 @@ 2 :> 0 @@ 3 :> 0 @@ 4 :> 0), stale |-> FALSE, partial |-> FALSE],want |-> (e1 :> a @@ e2 :> a @@ e3 :> a),lock |-> [nil |-> TRUE],cond |-> (e1 :> FALSE @@ e2 :> FALSE @@ e3 :> FALSE),seen |-> {}]),
    ([cur |-> (e1 :> 1 @@ e2 :> 0 @@ e3 :> 0),temp |-> [nil |-> TRUE],stray |-> 0,pc |-> (e1 :> "checked" @@ e2 :> "idle" @@ e3 :> "idle"),file |-> [exists |-> TRUE, ver |-> 1, val |-> a],held |-> (e1 :> 0 @@ e2 :> 0 @@ e3 :> 0),acks |-> [n |-> (0 :> 0 @@ 1 :> 0 @@ 2 :> 0 @@ 3 :> 0 @@ 4 :> 0), stale |-> FALSE, partial |-> FALSE],want |-> (e1 :> a @@ e2 :> a @@ e3 :> a),lock |-> [nil |-> TRUE],cond |-> (e1 :> TRUE @@ e2 :> FALSE @@ e3 :> FALSE),seen |-> {}]),
    ([cur |-> (e1 :> 1 @@ e2 :> 0 @@ e3 :> 0),temp |-> [nil |-> TRUE],stray |-> 0,pc |-> (e1 :> "locked" @@ e2 :> "idle" @@ e3 :> "idle"),file |-> [exists |-> TRUE, ver |-> 1, val |-> a],held |-> (e1 :> 0 @@ e2 :> 0 @@ e3 :> 0),acks |-> [n |-> (0 :> 0 @@ 1 :> 0 @@ 2 :> 0 @@ 3 :> 0 @@ 4 :> 0), stale |-> FALSE, partial |-> FALSE],want |-> (e1 :> a @@ e2 :> a @@ e3 :> a),lock |-> e1,cond |-> (e1 :> TRUE @@ e2 :> FALSE @@ e3 :> FALSE),seen |-> {}]),
    ([cur |-> (e1 :> 1 @@ e2 :> 0 @@ e3 :> 0),temp |-> [val |-> a, complete |-> FALSE],stray |-> 0,pc |-> (e1 :> "temped" @@ e2 :> "idle" @@ e3 :> "idle"),file |-> [exists |-> TRUE, ver |-> 1, val |-> a],held |-> (e1 :> 0 @@ e2 :> 0 @@ e3 :> 0),acks |-> [n |-> (0 :> 0 @@ 1 :> 0 @@ 2 :> 0 @@ 3 :> 0 @@ 4 :> 0), stale |-> FALSE, partial |-> FALSE],want |-> (e1 :> a @@ e2 :> a @@ e3 :> a),lock |-> e1,cond |-> (e1 :> TRUE @@ e2 :> FALSE @@ e3 :> FALSE),seen |-> {}]),
    ([cur |-> (e1 :> 1 @@ e2 :> 0 @@ e3 :> 0),temp |-> [val |-> a, complete |-> TRUE],stray |-> 0,pc |-> (e1 :> "synced" @@ e2 :> "idle" @@ e3 :> "idle"),file |-> [exists |-> TRUE, ver |-> 1, val |-> a],held |-> (e1 :> 0 @@ e2 :> 0 @@ e3 :> 0),acks |-> [n |-> (0 :> 0 @@ 1 :> 0 @@ 2 :> 0 @@ 3 :> 0 @@ 4 :> 0), stale |-> FALSE, partial |-> FALSE],want |-> (e1 :> a @@ e2 :> a @@ e3 :> a),lock |-> e1,cond |-> (e1 :> TRUE @@ e2 :> FALSE @@ e3 :> FALSE),seen |-> {}]),
    ([cur |-> (e1 :> 0 @@ e2 :> 0 @@ e3 :> 0),temp |-> [nil |-> TRUE],stray |-> 0,pc |-> (e1 :> "idle" @@ e2 :> "idle" @@ e3 :> "idle"),file |-> [exists |-> TRUE, ver |-> 2, val |-> a],held |-> (e1 :> 0 @@ e2 :> 0 @@ e3 :> 0),acks |-> [n |-> (0 :> 1 @@ 1 :> 0 @@ 2 :> 0 @@ 3 :> 0 @@ 4 :> 0), stale |-> TRUE, partial |-> FALSE],want |-> (e1 :> a @@ e2 :> a @@ e3 :> a),lock |-> [nil |-> TRUE],cond |-> (e1 :> FALSE @@ e2 :> FALSE @@ e3 :> FALSE),seen |-> {}])
    >>
----


=============================================================================

---- MODULE Defs_TEConstants ----
EXTENDS Defs

CONSTANTS e1, e2, e3, a, b

=============================================================================

---- CONFIG Defs_TTrace_1790410518 ----
CONSTANTS
    Editors = { e1 , e2 , e3 }
    Val = { a , b }
    MaxVer = 4
    Fixed_F21 = FALSE
    e2 = e2
    e3 = e3
    e1 = e1
    a = a
    b = b

INVARIANT
    _inv

CHECK_DEADLOCK
    \* CHECK_DEADLOCK off because of PROPERTY or INVARIANT above.
    FALSE

INIT
    _init

NEXT
    _next

CONSTANT
    _TETrace <- _trace

ALIAS
    _expression
=============================================================================
\* Generated on Sat Sep 26 08:15:19 UTC 2026