----------------------------- MODULE Sim_Group -----------------------------
(* Behaviour generator for C10: Group.tla with the API-level operations as a   *)
(* history (join = JoinAdd immediately followed by JoinAdmit, as one AddClient *)
(* call; leave; lock; edit of the description file), printed at SimDepth.      *)
EXTENDS MC_Group, Json
CONSTANTS SimDepth
VARIABLES beh, cfg0
Rc(c) == [max |-> c.max, autolock |-> c.autolock, autokick |-> c.autokick, window |-> c.window]
SimInit == InitAll /\ beh = <<>> /\ cfg0 = cfg
SimNext ==
  IF joining # {}
  THEN \E c \in joining : JoinAdmit(c) /\ UNCHANGED <<beh, cfg0>>
  ELSE
  \/ \E c \in Clients : JoinAdd(c) /\ beh' = Append(beh, <<"join", c>>) /\ UNCHANGED cfg0
  \/ \E c \in Clients : Leave(c) /\ beh' = Append(beh, <<"leave", c>>) /\ UNCHANGED cfg0
  \/ \E b \in BOOLEAN : SetLocked(b) /\ beh' = Append(beh, <<"lock", IF b THEN 1 ELSE 0>>) /\ UNCHANGED cfg0
  \/ \E c \in {x \in Configs : Cardinality({k \in {"max", "autolock", "autokick", "window"} : x[k] # file[k]}) = 1
                              /\ (x.max # file.max => x.max = (file.max + 1) % 3)
                              /\ (x.window # file.window => x.window # "before")} :
        EditFile(c) /\ beh' = Append(beh, <<"edit", Rc(c)>>) /\ UNCHANGED cfg0
Emit == Len(beh) = SimDepth => PrintT(<<"BEH", ToJson([cfg |-> Rc(cfg0), ops |-> beh])>>)
=============================================================================
