CONSTANTS
  Table = "hash"
INIT Init
NEXT Next
INVARIANTS Emit ShadowingHolds EmptyNeverMatches PrefixIsComponentwise
CHECK_DEADLOCK FALSE
