---- MODULE Defs_TTrace_1790410466 ----
EXTENDS Sequences, TLCExt, Toolbox, Naturals, TLC, Defs_TEConstants, Defs

_expression ==
    LET Defs_TEExpression == INSTANCE Defs_TEExpression
    IN Defs_TEExpression!expression
----

_trace ==
    LET Defs_TETrace == INSTANCE Defs_TETrace
    IN Defs_TETrace!trace
----

_inv ==
    ~(
        TLCGet("level") = Len(_TETrace)
        /\
        cur = ((e1 :> 1 @@ e2 :> 0 @@ e3 :> 0))
        /\
        temp = ([nil |-> TRUE])
        /\
        stray = (0)
        /\
        file = ([exists |-> TRUE, ver |-> 2, val |-> a])
        /\
        pc = ((e1 :> "idle" @@ e2 :> "idle" @@ e3 :> "idle"))
        /\
        held = ((e1 :> 0 @@ e2 :> 0 @@ e3 :> 0))
        /\
        want = ((e1 :> a @@ e2 :> a @@ e3 :> a))
        /\
        acks = ({[cond |-> TRUE, e |-> e1, complete |-> TRUE, used |-> 0, replaced |-> 1]})
        /\
        lock = ([nil |-> TRUE])
        /\
        cond = ((e1 :> TRUE @@ e2 :> FALSE @@ e3 :> FALSE))
        /\
        seen = ({})
    )
----

_init ==
    /\ seen = _TETrace[1].seen
    /\ cond = _TETrace[1].cond
    /\ lock = _TETrace[1].lock
    /\ want = _TETrace[1].want
    /\ temp = _TETrace[1].temp
    /\ held = _TETrace[1].held
    /\ acks = _TETrace[1].acks
    /\ stray = _TETrace[1].stray
    /\ file = _TETrace[1].file
    /\ pc = _TETrace[1].pc
    /\ cur = _TETrace[1].cur
----

_next ==
    /\ \E i,j \in DOMAIN _TETrace:
        /\ \/ /\ j = i + 1
              /\ i = TLCGet("level")
        /\ seen  = _TETrace[i].seen
        /\ seen' = _TETrace[j].seen
        /\ cond  = _TETrace[i].cond
        /\ cond' = _TETrace[j].cond
        /\ lock  = _TETrace[i].lock
        /\ lock' = _TETrace[j].lock
        /\ want  = _TETrace[i].want
        /\ want' = _TETrace[j].want
        /\ temp  = _TETrace[i].temp
        /\ temp' = _TETrace[j].temp
        /\ held  = _TETrace[i].held
        /\ held' = _TETrace[j].held
        /\ acks  = _TETrace[i].acks
        /\ acks' = _TETrace[j].acks
        /\ stray  = _TETrace[i].stray
        /\ stray' = _TETrace[j].stray
        /\ file  = _TETrace[i].file
        /\ file' = _TETrace[j].file
        /\ pc  = _TETrace[i].pc
        /\ pc' = _TETrace[j].pc
        /\ cur  = _TETrace[i].cur
        /\ cur' = _TETrace[j].cur

\* Uncomment the ASSUME below to write the states of the error trace
\* to the given file in Json format. Note that you can pass any tuple
\* to `JsonSerialize`. For example, a sub-sequence of _TETrace.
    \* ASSUME
    \*     LET J == INSTANCE Json
    \*         IN J!JsonSerialize("Defs_TTrace_1790410466.json", _TETrace)

=============================================================================

 Note that you can extract this module `Defs_TEExpression`
  to a dedicated file to reuse `expression` (the module in the 
  dedicated `Defs_TEExpression.tla` file takes precedence 
  over the module `Defs_TEExpression` below).

---- MODULE Defs_TEExpression ----
EXTENDS Sequences, TLCExt, Toolbox, Naturals, TLC, Defs_TEConstants, Defs

expression == 
    [
        \* To hide variables of the `Defs` spec from the error trace,
        \* remove the variables below.  The trace will be written in the order
        \* of the fields of this record.
        seen |-> seen
        ,cond |-> cond
        ,lock |-> lock
        ,want |-> want
        ,temp |-> temp
        ,held |-> held
        ,acks |-> acks
        ,stray |-> stray
        ,file |-> file
        ,pc |-> pc
        ,cur |-> cur
        
        \* Put additional constant-, state-, and action-level expressions here:
        \* ,_stateNumber |-> _TEPosition
        \* ,_seenUnchanged |-> seen = seen'
        
        \* Format the `seen` variable as Json value.
        \* ,_seenJson |->
        \*     LET J == INSTANCE Json
        \*     IN J!ToJson(seen)
        
        \* Lastly, you may build expressions over arbitrary sets of states by
        \* leveraging the _TETrace operator.  For example, this is how to
        \* count the number of times a spec variable changed up to the current
        \* state in the trace.
        \* ,_seenModCount |->
        \*     LET F[s \in DOMAIN _TETrace] ==
        \*         IF s = 1 THEN 0
        \*         ELSE IF _TETrace[s].seen # _TETrace[s-1].seen
        \*             THEN 1 + F[s-1] ELSE F[s-1]
        \*     IN F[_TEPosition - 1]
    ]

=============================================================================



Parsing and semantic processing can take forever if the trace below is long.
 In this case, it is advised to uncomment the module below to deserialize the
 trace from a generated binary file.

\*
\*---- MODULE Defs_TETrace ----
\*EXTENDS IOUtils, TLC, Defs_TEConstants, Defs
\*
\*trace == IODeserialize("Defs_TTrace_1790410466.bin", TRUE)
\*
\*=============================================================================
\*

---- MODULE Defs_TETrace ----
EXTENDS TLC, Defs_TEConstants, Defs

trace == 
    <<
    ([cur |-> (e1 :> 0 @@ e2 :> 0 @@ e3 :> 0),temp |-> [nil |-> TRUE],stray |-> 0,file |-> [exists |-> TRUE, ver |-> 1, val |-> a],pc |-> (e1 :> "idle" @@ e2 :> "idle" @@ e3 :> "idle"),held |-> (e1 :> 0 @@ e2 :> 0 @@ e3 :> 0),want |-> (e1 :> a @@ e2 :> a @@ e3 :> a),acks |-> {},lock |-> [nil |-> TRUE],cond |-> (e1 :> FALSE @@ e2 :> FALSE @@ e3 :> FALSE),seen |-> {}]),
    ([cur |-> (e1 :> 1 @@ e2 :> 0 @@ e3 :> 0),temp |-> [nil |-> TRUE],stray |-> 0,file |-> [exists |-> TRUE, ver |-> 1, val |-> a],pc |-> (e1 :> "checked" @@ e2 :> "idle" @@ e3 :> "idle"),held |-> (e1 :> 0 @@ e2 :> 0 @@ e3 :> 0),want |-> (e1 :> a @@ e2 :> a @@ e3 :> a),acks |-> {},lock |-> [nil |-> TRUE],cond |-> (e1 :> TRUE @@ e2 :> FALSE @@ e3 :> FALSE),seen |-> {}]),
    ([cur |-> (e1 :> 1 @@ e2 :> 0 @@ e3 :> 0),temp |-> [nil |-> TRUE],stray |-> 0,file |-> [exists |-> TRUE, ver |-> 1, val |-> a],pc |-> (e1 :> "locked" @@ e2 :> "idle" @@ e3 :> "idle"),held |-> (e1 :> 0 @@ e2 :> 0 @@ e3 :> 0),want |-> (e1 :> a @@ e2 :> a @@ e3 :> a),acks |-> {},lock |-> e1,cond |-> (e1 :> TRUE @@ e2 :> FALSE @@ e3 :> FALSE),seen |-> {}]),
    ([cur |-> (e1 :> 1 @@ e2 :> 0 @@ e3 :> 0),temp |-> [val |-> a, complete |-> FALSE],stray |-> 0,file |-> [exists |-> TRUE, ver |-> 1, val |-> a],pc |-> (e1 :> "temped" @@ e2 :> "idle" @@ e3 :> "idle"),held |-> (e1 :> 0 @@ e2 :> 0 @@ e3 :> 0),want |-> (e1 :> a @@ e2 :> a @@ e3 :> a),acks |-> {},lock |-> e1,cond |-> (e1 :> TRUE @@ e2 :> FALSE @@ e3 :> FALSE),seen |-> {}]),
    ([cur |-> (e1 :> 1 @@ e2 :> 0 @@ e3 :> 0),temp |-> [val |-> a, complete |-> TRUE],stray |-> 0,file |-> [exists |-> TRUE, ver |-> 1, val |-> a],pc |-> (e1 :> "synced" @@ e2 :> "idle" @@ e3 :> "idle"),held |-> (e1 :> 0 @@ e2 :> 0 @@ e3 :> 0),want |-> (e1 :> a @@ e2 :> a @@ e3 :> a),acks |-> {},lock |-> e1,cond |-> (e1 :> TRUE @@ e2 :> FALSE @@ e3 :> FALSE),seen |-> {}]),
    ([cur |-> (e1 :> 1 @@ e2 :> 0 @@ e3 :> 0),temp |-> [nil |-> TRUE],stray |-> 0,file |-> [exists |-> TRUE, ver |-> 2, val |-> a],pc |-> (e1 :> "idle" @@ e2 :> "idle" @@ e3 :> "idle"),held |-> (e1 :> 0 @@ e2 :> 0 @@ e3 :> 0),want |-> (e1 :> a @@ e2 :> a @@ e3 :> a),acks |-> {[cond |-> TRUE, e |-> e1, complete |-> TRUE, used |-> 0, replaced |-> 1]},lock |-> [nil |-> TRUE],cond |-> (e1 :> TRUE @@ e2 :> FALSE @@ e3 :> FALSE),seen |-> {}])
    >>
----


=============================================================================

---- MODULE Defs_TEConstants ----
EXTENDS Defs

CONSTANTS e1, e2, e3, a, b

=============================================================================

---- CONFIG Defs_TTrace_1790410466 ----
CONSTANTS
    Editors = { e1 , e2 , e3 }
    Val = { a , b }
    MaxVer = 4
    Fixed_F21 = FALSE
    a = a
    e1 = e1
    e3 = e3
    b = b
    e2 = e2

INVARIANT
    _inv

CHECK_DEADLOCK
    \* CHECK_DEADLOCK off because of PROPERTY or INVARIANT above.
    FALSE

INIT
    _init

NEXT
    _next

CONSTANT
    _TETrace <- _trace

ALIAS
    _expression
=============================================================================
\* Generated on Sat Sep 26 08:14:27 UTC 2026