\* C05: ring + resize: EVERY store/resize history over all seqnos of a 4-value number space
\* (wrap included), 2 content ids, capacities 1..3; closes without a length bound
CONSTANTS
  M = 4
  BitmapW = 2
  GetW = 2
  LateT = 1
  Fixed_F20 = TRUE
  Fixed_F26 = TRUE
  NackHorizon = 100
  Caps = {1, 2, 3}
  Ids = {1, 2}
  Offs <- OffsAny4
  KFs = {FALSE, TRUE}
  MaxPackets = 2
  Unnacked = 1
  MaxHi = 0
  Starts = {0}
INIT Init
NEXT Next
INVARIANTS PropertyHolds
VIEW ViewRing
