----------------------------- MODULE Trace_Nack -----------------------------
(***************************************************************************)
(* C06 end to end: a scripted publisher (real pion peer, real RTP) feeds   *)
(* the real server; hooks at the two places where the server sends a NACK  *)
(* upstream (readLoop -> sendNACK, nackWriter -> sendNACKs) log, at that   *)
(* instant, whether the cache holds the packet and whether it lies at or   *)
(* beyond the newest one stored.  Clauses (the receive-loop part of        *)
(* Cache.tla's N1-N4, observed on the real loop):                          *)
(*   N1 never a NACK for a packet that is in the cache                     *)
(*   N2 never a NACK at or beyond the newest packet                        *)
(*   N3 a packet that never arrives in a steady stream is requested        *)
(*   N4 the receive loop requests it exactly once                          *)
(***************************************************************************)
EXTENDS Integers, Sequences, FiniteSets, TLC, Json
CONSTANTS TraceFile
Trace == ndJsonDeserialize(TraceFile)
VARIABLES l, nbeh, nbad, done, loopn
vars == <<l, nbeh, nbad, done, loopn>>
\* loopn: seqno -> times the receive loop requested it in this behaviour
Init == l = 1 /\ nbeh = 0 /\ nbad = 0 /\ done = FALSE /\ loopn = <<>>
Ev == Trace[l]
Report(v) == /\ nbad' = IF v # "ok" THEN nbad + 1 ELSE nbad
             /\ (v # "ok" /\ nbad < 60 => PrintT(<<"TRACE-BAD", l, nbeh, v>>))
First(vs) == LET b == SelectSeq(vs, LAMBDA x : x # "ok") IN IF b = <<>> THEN "ok" ELSE b[1]
Get(f, k, d) == IF k \in DOMAIN f THEN f[k] ELSE d
RECURSIVE Count(_, _, _)
Count(f, sq, i) == IF i > Len(sq) THEN f
                   ELSE Count([x \in DOMAIN f \cup {sq[i][1]} |-> IF x = sq[i][1] THEN Get(f, x, 0) + 1 ELSE f[x]], sq, i + 1)

TNew == /\ Ev.ev = "New" /\ nbeh' = nbeh + 1 /\ loopn' = <<>> /\ UNCHANGED nbad
TSrvNack ==
  /\ Ev.ev = "srvnack"
  /\ Report(First(<<
       IF \E i \in 1..Len(Ev.seqs) : Ev.seqs[i][2] = 1 THEN "C06_N1_nack_for_a_packet_that_had_already_arrived" ELSE "ok",
       IF \E i \in 1..Len(Ev.seqs) : Ev.seqs[i][3] = 1 THEN "C06_N2_nack_at_or_beyond_the_newest_packet" ELSE "ok">>))
  /\ loopn' = IF Ev.point = "rtpconn.sendNACK" THEN Count(loopn, Ev.seqs, 1) ELSE loopn
  /\ UNCHANGED nbeh
\* the script is over: x.missing = the packets that were never sent although >= 30 later ones were
TDone ==
  /\ Ev.ev = "rtpdone"
  /\ Report(First(<<
       IF Ev.connected = 1 /\ \E i \in 1..Len(Ev.x.missing) : Get(loopn, Ev.x.missing[i], 0) = 0
         THEN "C06_N3_missing_packet_of_a_steady_stream_never_requested" ELSE "ok",
       IF Ev.connected = 1 /\ \E s \in DOMAIN loopn : loopn[s] > 1
         THEN "C06_N4_receive_loop_requested_a_packet_more_than_once" ELSE "ok">>))
  /\ UNCHANGED <<nbeh, loopn>>
TDead == /\ Ev.ev \in {"dead", "startfail"} /\ Report("C12_R1_server_process_died") /\ UNCHANGED <<nbeh, loopn>>
TOther == /\ Ev.ev \notin {"New", "srvnack", "rtpdone", "dead", "startfail"} /\ UNCHANGED <<nbeh, nbad, loopn>>
Step == /\ l <= Len(Trace) /\ (TNew \/ TSrvNack \/ TDone \/ TDead \/ TOther)
        /\ l' = l + 1 /\ UNCHANGED done
Finish == /\ l = Len(Trace) + 1 /\ ~done /\ done' = TRUE
          /\ PrintT(<<"TRACE-DONE", l - 1, nbeh, 0, IF nbad > 60 THEN 60 ELSE nbad>>)
          /\ UNCHANGED <<l, nbeh, nbad, loopn>>
Next == Step \/ Finish
Spec == Init /\ [][Next]_vars
=============================================================================
