SPECIFICATION Spec
CONSTANTS
  Fixed_F16 = FALSE
  MaxPkts = 5
INVARIANTS PropertyHolds
CHECK_DEADLOCK FALSE
