-------------------------------- MODULE Auth --------------------------------
(***************************************************************************)
(* C08 and C09 as decision tables: the abstract input space of             *)
(*   Description.getPasswordPermission / Password.Match /                  *)
(*   Permissions.Permissions            (group/group.go, client.go,        *)
(*                                       description.go)                   *)
(*   Stateful.match / Check, JWT.Check, matchGroup, parseJWT's key         *)
(*   selection, the username rules of GetPermission, checkGlobalAdminToken *)
(*                                      (token/*.go, webserver/util.go)    *)
(* is enumerated COMPLETELY by TLC (one initial state per case); for each  *)
(* case the decision the property demands is computed by Decide and the    *)
(* pair is printed as JSON.  The harness materialises every case (real     *)
(* JSON descriptions, real hashes, freshly signed JWTs, stateful tokens in *)
(* a real token file, instants around the window edges) and compares the   *)
(* decision of the real code.                                              *)
(***************************************************************************)
EXTENDS Integers, Sequences, FiniteSets, TLC, Json

CONSTANT Table     \* "password" | "stateful" | "jwt" | "hash"

---------------------------------------------------------------------------
(* C08: password login *)
\* "pbkdf2upper": the same record with its hex strings in upper case; "emptykey": a pbkdf2 record whose key is the empty string
Kinds == {"plain", "pbkdf2", "pbkdf2upper", "bcrypt", "wildcard", "none", "nokey", "badhex", "emptykey", "unknown"}
Roles == {"op", "present", "message", "observe", "raw"}      \* "raw": an explicit array ["present","op"]

PasswordCases ==
  [entry : {"absent"} \cup Kinds, wild : {"absent"} \cup Kinds, cred : {"entrypw", "wildpw", "wrong", "empty"},
   role : Roles, wrole : {"present", "op"}, ar : BOOLEAN, ut : BOOLEAN]

\* does a record of kind k, whose password is `mine`, match credential c ?  "err" = malformed record
Match(k, mine, c) ==
  CASE k \in {"plain", "pbkdf2", "pbkdf2upper", "bcrypt"} -> IF c = mine THEN "yes" ELSE "no"
    [] k = "wildcard" -> "yes"
    [] k = "none" -> "no"
    [] OTHER -> "err"

Base(r) == CASE r = "op" -> {"op", "present", "message", "caption", "token"}
             [] r = "present" -> {"present", "message"}
             [] r = "message" -> {"message"}
             [] r = "observe" -> {}
             [] r = "raw" -> {"present", "op"}
\* a raw permission array is taken as it is; a named role gets record / token added
Rights(r, ar, ut) ==
  IF r = "raw" THEN Base(r)
  ELSE Base(r) \cup (IF ar /\ "op" \in Base(r) THEN {"record"} ELSE {})
               \cup (IF ut /\ "present" \in Base(r) /\ "token" \notin Base(r) THEN {"token"} ELSE {})

DecidePassword(c) ==
  IF c.entry # "absent"
  THEN \* a named entry always shadows the wildcard user
       LET m == Match(c.entry, "entrypw", c.cred) IN
       [accept |-> m = "yes", perms |-> IF m = "yes" THEN Rights(c.role, c.ar, c.ut) ELSE {}]
  ELSE IF c.wild # "absent"
  THEN LET m == Match(c.wild, "wildpw", c.cred) IN
       [accept |-> m = "yes", perms |-> IF m = "yes" THEN Rights(c.wrole, c.ar, c.ut) ELSE {}]
  ELSE [accept |-> FALSE, perms |-> {}]

---------------------------------------------------------------------------
(* C08: the administration tool's hashes verify on the server *)
HashCases == [alg : {"pbkdf2", "bcrypt", "wildcard"}, iter : {1, 4096}, len : {16, 32, 64}, saltlen : {0, 8, 32},
              cost : {4, 6}, pw : {"empty", "ascii", "multibyte", "long72"}]
DecideHash(c) == [right |-> TRUE, other |-> c.alg = "wildcard"]     \* matches its own password; another only if wildcard

---------------------------------------------------------------------------
(* C09: stateful tokens -- scope, window, username rules *)
Paths == {"", "a", "ab", "b", "a/a", "a/b", "a/ab", "ab/a", "a/b/a"}
Comps(p) == CASE p = "" -> <<>> [] p = "a" -> <<"a">> [] p = "ab" -> <<"ab">> [] p = "b" -> <<"b">>
              [] p = "a/a" -> <<"a", "a">> [] p = "a/b" -> <<"a", "b">> [] p = "a/ab" -> <<"a", "ab">>
              [] p = "ab/a" -> <<"ab", "a">> [] p = "a/b/a" -> <<"a", "b", "a">>
IsProperPrefix(s, t) == Len(s) < Len(t) /\ SubSeq(t, 1, Len(s)) = s
Covers(T, G, sub) == T = G \/ (sub /\ IsProperPrefix(Comps(T), Comps(G)))
\* joining the empty group is impossible; Check(host, "") is the global-administrator question
ScopeOK(T, G, sub) == IF G = "" THEN sub /\ T = "" ELSE Covers(T, G, sub)

Times == {"absent", "farpast", "justpast", "justfuture", "farfuture"}
Before(t) == t \in {"farpast", "justpast"}        \* the instant t is before now
WindowOK(exp, nbf) == exp # "absent" /\ ~Before(exp) /\ (nbf = "absent" \/ Before(nbf))

StatefulCases ==
  [T : Paths, G : Paths, sub : BOOLEAN, exp : {"farfuture"}, nbf : {"absent"}, tuser : {"tu"}, cuser : {"cu"}]
  \cup [T : {"a"}, G : {"a"}, sub : {FALSE}, exp : Times, nbf : Times, tuser : {"tu"}, cuser : {"cu"}]
  \cup [T : {"a"}, G : {"a"}, sub : {FALSE}, exp : {"farfuture"}, nbf : {"absent"},
        tuser : {"absent", "empty", "tu"}, cuser : {"nil", "cu", "configured"}]

\* result: [accept, user, why] ; why distinguishes the two username errors
DecideStateful(c) ==
  IF c.tuser = "absent" /\ c.cuser = "nil" THEN [accept |-> FALSE, user |-> "", why |-> "need-username"]
  ELSE IF ~(ScopeOK(c.T, c.G, c.sub) /\ WindowOK(c.exp, c.nbf)) THEN [accept |-> FALSE, user |-> "", why |-> "refused"]
  ELSE IF c.tuser = "tu" THEN [accept |-> TRUE, user |-> "tu", why |-> ""]
  \* a username that is present but empty does not override the client's; without one the member is anonymous
  ELSE IF c.tuser = "empty" /\ c.cuser = "nil" THEN [accept |-> TRUE, user |-> "", why |-> ""]
  ELSE IF c.cuser = "configured" THEN [accept |-> FALSE, user |-> "", why |-> "duplicate-username"]
  ELSE [accept |-> TRUE, user |-> "cu", why |-> ""]

---------------------------------------------------------------------------
(* C09: signed tokens -- key / algorithm selection, expiry, audience *)
\* the group's key set: K1 = HS256 secret 1 with kid "k1", K2 = HS256 secret 2 without kid,
\* K3 = ES256 key pair with kid "k3", K5 = HS384 secret 5 with kid "k5"
KeySets == {{}, {"K1"}, {"K2"}, {"K3"}, {"K1", "K2"}, {"K1", "K3"}, {"K2", "K3"}, {"K1", "K5"}}
KAlg(k) == CASE k \in {"K1", "K2", "K4"} -> "HS256" [] k = "K3" -> "ES256" [] k = "K5" -> "HS384" [] OTHER -> "none"
KKid(k) == CASE k = "K1" -> "k1" [] k = "K3" -> "k3" [] k = "K5" -> "k5" [] OTHER -> ""
\* who signed: a group key, K4 (an HS256 secret the group does not have), "pub3" (HS256 keyed with
\* K3's PUBLIC key bytes), or nobody (alg "none")
\* "K1as384" / "K1as512": HS384 / HS512 keyed with K1's secret (a key the group declares for HS256 only)
Signers == {"K1", "K2", "K3", "K4", "K5", "pub3", "nobody", "K1as384", "K1as512"}
SAlg(s) == CASE s = "pub3" -> "HS256" [] s = "nobody" -> "none" [] s = "K1as384" -> "HS384" [] s = "K1as512" -> "HS512" [] OTHER -> KAlg(s)

JwtCases ==
  [keys : KeySets, signer : Signers, kid : {"", "k1", "k3", "bogus"}, exp : {"farfuture"}, aud : {"exact"}, host : {"nocanon"}]
  \cup [keys : {{"K1"}}, signer : {"K1"}, kid : {""}, exp : {"absent", "farpast", "farfuture"},
        aud : {"exact", "other", "parent-sub", "parent-nosub", "noslash", "child"}, host : {"nocanon", "canon-match", "canon-other"}]

AudOK(a) == a \in {"exact", "parent-sub"}
DecideJwt(c) ==
  LET usable == {k \in c.keys : k = c.signer /\ KAlg(k) = SAlg(c.signer) /\ (c.kid = "" \/ KKid(k) = c.kid)} IN
  [accept |-> usable # {} /\ c.exp = "farfuture" /\ AudOK(c.aud) /\ c.host # "canon-other"]

---------------------------------------------------------------------------
Cases == CASE Table = "password" -> PasswordCases [] Table = "stateful" -> StatefulCases
           [] Table = "jwt" -> JwtCases [] Table = "hash" -> HashCases
Decide(c) == CASE Table = "password" -> DecidePassword(c) [] Table = "stateful" -> DecideStateful(c)
               [] Table = "jwt" -> DecideJwt(c) [] Table = "hash" -> DecideHash(c)

VARIABLE c
Init == c \in Cases
Next == UNCHANGED c
Emit == PrintT(<<"CASE", ToJson([case |-> c, expect |-> Decide(c)])>>)

\* design-level facts checked over the whole table
ShadowingHolds == Table = "password" =>
  ((c.entry # "absent" /\ Decide(c).accept) => Match(c.entry, "entrypw", c.cred) = "yes")
EmptyNeverMatches == Table = "password" => ((c.entry = "none") => ~Decide(c).accept)
PrefixIsComponentwise == Table = "stateful" => ((c.T = "a" /\ c.G = "ab") => ~ScopeOK(c.T, c.G, c.sub))
=============================================================================
