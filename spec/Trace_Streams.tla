---------------------------- MODULE Trace_Streams ----------------------------
(***************************************************************************)
(* Folds StrMonitor over an observed exchange with the real server (C07).  *)
(***************************************************************************)
EXTENDS StrMonitor, TLC, Json
CONSTANTS TraceFile
Trace == ndJsonDeserialize(TraceFile)
VARIABLES l, nbeh, nbad, done, s
vars == <<l, nbeh, nbad, done, s>>
Init == l = 1 /\ nbeh = 0 /\ nbad = 0 /\ done = FALSE /\ s = InitStr
Ev == Trace[l]
\* request maps arrive as sequences of <<label, <<kinds>>>>
ReqOf(sq) == [lb \in {sq[i][1] : i \in 1..Len(sq)} |-> LET i == CHOOSE i \in 1..Len(sq) : sq[i][1] = lb IN SetOf(sq[i][2])]
StimOf(m) == [type |-> m.type, id |-> m.id, label |-> m.label, tracks |-> m.tracks, replace |-> m.replace, req |-> ReqOf(m.req), kinds |-> SetOf(m.kinds)]
\* after a flagged event the monitor goes on with a clean flag, so that every failure is reported
Take(s1) == /\ s' = [s1 EXCEPT !.bad = "ok"]
            /\ nbad' = IF s1.bad # "ok" THEN nbad + 1 ELSE nbad
            /\ (s1.bad # "ok" /\ nbad < 60 => PrintT(<<"TRACE-BAD", l, nbeh, s1.bad>>))
Step == /\ l <= Len(Trace)
        /\ CASE Ev.ev = "New" -> s' = InitStr /\ nbeh' = nbeh + 1 /\ UNCHANGED nbad
             [] Ev.ev = "stim" -> Take(MStim(s, Ev.c, StimOf(Ev.m))) /\ UNCHANGED nbeh
             [] Ev.ev = "got" -> Take(MRecv(s, Ev.c, Ev.m)) /\ UNCHANGED nbeh
             [] Ev.ev = "gone" -> Take(MGone(s, Ev.c)) /\ UNCHANGED nbeh
             [] Ev.ev = "settled" -> Take(MSettle(s)) /\ UNCHANGED nbeh
             [] OTHER -> UNCHANGED <<s, nbeh, nbad>>
        /\ l' = l + 1 /\ UNCHANGED done
Finish == /\ l = Len(Trace) + 1 /\ ~done /\ done' = TRUE
          /\ PrintT(<<"TRACE-DONE", l - 1, nbeh, 0, IF nbad > 60 THEN 60 ELSE nbad>>)
          /\ UNCHANGED <<l, nbeh, nbad, s>>
Next == Step \/ Finish
Spec == Init /\ [][Next]_vars
=============================================================================
