----------------------------- MODULE Trace_Paths -----------------------------
(***************************************************************************)
(* Judges C19 on what the real code did: validator results, parser         *)
(* results, file-system effects of the description functions and of        *)
(* openDiskFile on arbitrary names (library level), and raw HTTP requests  *)
(* / websocket joins with traversal attempts against the real server,      *)
(* whose scratch tree has sentinel files next to every configured          *)
(* directory.  Layer P only: ValidClosed over the components the harness   *)
(* obtained by splitting the string at "/".                                *)
(***************************************************************************)
EXTENDS Integers, Sequences, FiniteSets, TLC, Json
CONSTANTS TraceFile
Trace == ndJsonDeserialize(TraceFile)
VARIABLES l, nbeh, nbad, ndrift, done, base
vars == <<l, nbeh, nbad, ndrift, done, base>>
Init == l = 1 /\ nbeh = 0 /\ nbad = 0 /\ ndrift = 0 /\ done = FALSE /\ base = <<>>
Ev == Trace[l]
Report(v) == /\ nbad' = IF v # "ok" THEN nbad + 1 ELSE nbad
             /\ (v # "ok" /\ nbad < 60 => PrintT(<<"TRACE-BAD", l, nbeh, v>>))
First(vs) == LET b == SelectSeq(vs, LAMBDA x : x # "ok") IN IF b = <<>> THEN "ok" ELSE b[1]

ValidClosed(cs, bs) == bs = 0 /\ cs # <<>> /\ \A i \in 1..Len(cs) : cs[i] \notin {"", ".", ".."}

TName ==
  /\ Ev.ev = "name"
  /\ LET e == Ev
         ok == ValidClosed(e.comps, e.bs)
     IN /\ Report(First(<<
              IF e.panic # "" THEN "C12_R4_panic_in_the_group_layer" ELSE "ok",
              IF e.panic = "" /\ e.valid = 1 /\ ~ok THEN "C19_V1_group_name_validator_accepts_a_bad_name" ELSE "ok",
              IF e.panic = "" /\ e.add = 1 /\ ~ok THEN "C19_V1_group_instantiated_under_a_bad_name" ELSE "ok",
              IF e.panic = "" /\ e.user = 1 /\ ~(ok \/ e.name = "") THEN "C19_V1_username_validator_accepts_a_bad_name" ELSE "ok",
              IF e.panic = "" /\ e.served_outside = 1 THEN "C19_F1_definition_read_from_outside_the_groups_directory" ELSE "ok",
              IF e.panic = "" /\ e.outside_changed # <<>> THEN "C19_F2_file_outside_the_groups_directory_created_changed_or_deleted" ELSE "ok">>))
        /\ ndrift' = IF e.panic = "" /\ e.hasexp = 1 /\ (e.valid # e.expvalid \/ e.user # e.expuser) THEN ndrift + 1 ELSE ndrift
  /\ UNCHANGED <<nbeh, base>>

TParse ==
  /\ Ev.ev = "parse"
  /\ LET e == Ev IN
     /\ Report(First(<<
           IF e.panic # "" THEN "C12_R4_panic_in_the_url_parser" ELSE "ok",
           IF e.out # "" /\ ~ValidClosed(e.out_comps, e.out_bs) THEN "C19_V2_url_parser_returns_a_name_the_group_layer_rejects" ELSE "ok">>))
     /\ ndrift' = IF e.hasexp = 1 /\ e.out # e.exp THEN ndrift + 1 ELSE ndrift
  /\ UNCHANGED <<nbeh, base>>

TDisk ==
  /\ Ev.ev = "diskfile"
  /\ LET e == Ev IN
     Report(First(<<
        IF e.gone # 0 THEN "C19_F2_recording_creation_removed_a_file" ELSE "ok",
        IF \E i \in 1..Len(e.created) : ~(Len(e.created[i]) = 3 /\ e.created[i][1] = "recordings" /\ e.created[i][2] = "g")
          THEN "C19_R1_recording_file_created_outside_the_groups_recording_directory" ELSE "ok",
        IF Len(e.created) > 1 THEN "C19_R1_recording_file_created_outside_the_groups_recording_directory" ELSE "ok",
        IF e.san_clean = 0 THEN "C19_R1_sanitised_username_still_contains_a_separator" ELSE "ok">>))
  /\ UNCHANGED <<nbeh, ndrift, base>>

\* ---- the real server
TNew == /\ Ev.ev = "New" /\ nbeh' = nbeh + 1 /\ base' = <<>> /\ UNCHANGED <<nbad, ndrift>>
TFiles == /\ Ev.ev = "files"
          /\ base' = IF base = <<>> THEN Ev.roots ELSE base
          /\ Report(IF base # <<>> /\ (Ev.roots.outside # base.outside \/ Ev.roots.top # base.top \/ Ev.roots.static # base.static)
                    THEN "C19_F2_file_outside_the_configured_directories_created_changed_or_deleted" ELSE "ok")
          /\ UNCHANGED <<nbeh, ndrift>>
THttp ==
  /\ Ev.ev = "http" /\ "roots" \in DOMAIN Ev
  /\ LET e == Ev
         x == e.x
         r == e.roots
     IN /\ Report(First(<<
              IF e.status = -1 THEN "C12_R2_http_request_got_no_response" ELSE "ok",
              IF e.leaks # <<>> THEN "C19_F1_response_serves_a_file_from_outside_the_addressed_directory" ELSE "ok",
              IF base # <<>> /\ (r.outside # base.outside \/ r.top # base.top \/ r.static # base.static)
                THEN "C19_F2_file_outside_the_configured_directories_created_changed_or_deleted" ELSE "ok",
              IF base # <<>> /\ r.data # base.data THEN "C19_F2_request_changed_the_data_directory" ELSE "ok",
              IF base # <<>> /\ r.recordings # base.recordings /\ x.may # "recordings" THEN "C19_F2_request_changed_the_recordings_directory" ELSE "ok",
              IF base # <<>> /\ r.groups # base.groups /\ x.may # "groups" THEN "C19_F2_request_changed_the_groups_directory" ELSE "ok",
              \* whatever a delete form removes lies in the addressed group's own recording directory
              IF x.may = "recordings" /\ e.lost_elsewhere = 1 THEN "C19_F2_delete_form_removed_a_file_of_another_directory" ELSE "ok">>))
        \* legitimate changes move the baseline
        /\ base' = IF base = <<>> THEN base ELSE [base EXCEPT !.recordings = r.recordings, !.groups = r.groups]
  /\ UNCHANGED <<nbeh, ndrift>>
TRecv == /\ Ev.ev = "recv" /\ Ev.type = "joined" /\ Ev.kind = "join"
         /\ Report(First(<<
               IF ~ValidClosed(Ev.gcomps, Ev.gbs) THEN "C19_V1_joined_a_group_with_a_bad_name" ELSE "ok",
               IF ~(Ev.username = "" \/ ValidClosed(Ev.ucomps, Ev.ubs)) THEN "C19_V1_joined_under_a_bad_username" ELSE "ok">>))
         /\ UNCHANGED <<nbeh, ndrift, base>>
TDead == /\ Ev.ev \in {"dead", "startfail"} /\ Report("C12_R1_server_process_died") /\ UNCHANGED <<nbeh, ndrift, base>>
TOther == /\ ~(Ev.ev \in {"name", "parse", "diskfile", "New", "files", "dead", "startfail"})
          /\ ~(Ev.ev = "http" /\ "roots" \in DOMAIN Ev)
          /\ ~(Ev.ev = "recv" /\ Ev.type = "joined" /\ Ev.kind = "join")
          /\ UNCHANGED <<nbeh, nbad, ndrift, base>>
Step == /\ l <= Len(Trace) /\ (TName \/ TParse \/ TDisk \/ TNew \/ TFiles \/ THttp \/ TRecv \/ TDead \/ TOther)
        /\ l' = l + 1 /\ UNCHANGED done
Finish == /\ l = Len(Trace) + 1 /\ ~done /\ done' = TRUE
          /\ PrintT(<<"TRACE-DONE", l - 1, nbeh, ndrift, IF nbad > 60 THEN 60 ELSE nbad>>)
          /\ UNCHANGED <<l, nbeh, nbad, ndrift, base>>
Next == Step \/ Finish
Spec == Init /\ [][Next]_vars
=============================================================================
