\* exhaustive: every arrival/drop history of the repaired design at small constants
CONSTANTS
  M = 16
  W = 2
  MaxEntries = 2
  PM = 16
  Fixed_F9 = TRUE
  Fixed_F12 = FALSE
  Starts <- StartsAll
INIT Init
NEXT Next
INVARIANTS PropertyHolds
VIEW View
