INIT Init
NEXT Next
INVARIANTS Emit NoOrdinaryUserEverServed ScopeRespected
CHECK_DEADLOCK FALSE
