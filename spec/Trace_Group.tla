---------------------------- MODULE Trace_Group ----------------------------
(***************************************************************************)
(* Validates executions of the REAL group package (sequential replays and  *)
(* racing goroutines) against GroupMonitor.  The events of the critical    *)
(* sections were numbered under Group.mu, so the file order is the         *)
(* linearisation order.  Layer I (drift): Group.tla's Admissible predicate *)
(* evaluated on the monitor's state predicts admit / refuse.               *)
(* Events: New{cfg} admit{c,op,n,locked} refuse{c,op,dup} leave{c} lock{b} *)
(*         edit{cfg} announce{to,kind,id} members{m} witness{...}          *)
(***************************************************************************)
EXTENDS Integers, Sequences, FiniteSets, TLC, Json

CONSTANTS TraceFile
GM == INSTANCE GroupMonitor
Trace == ndJsonDeserialize(TraceFile)

VARIABLES l, mon, pend, drift, nbeh, nbad, skip, done
vars == <<l, mon, pend, drift, nbeh, nbad, skip, done>>

NoCfg == [none |-> TRUE]
Cfg(r) == [max |-> r.max, autolock |-> r.autolock, autokick |-> r.autokick, window |-> r.window]
Init == /\ l = 1 /\ mon = GM!InitMon(Cfg([max |-> 0, autolock |-> FALSE, autokick |-> FALSE, window |-> "open"]))
        /\ pend = NoCfg /\ drift = 0 /\ nbeh = 0 /\ nbad = 0 /\ skip = FALSE /\ done = FALSE
Ev == Trace[l]
B(x) == x = 1
SetOf(sq) == {sq[i] : i \in 1..Len(sq)}

Verdict(v) == /\ skip' = (v # "ok") /\ nbad' = IF v # "ok" THEN nbad + 1 ELSE nbad
              /\ (v # "ok" => PrintT(<<"TRACE-BAD", l, nbeh, v>>))
\* the description edited on disk is picked up by add() at the start of the next AddClient
Cur == IF pend = NoCfg THEN mon ELSE GM!OnReload(mon, pend)

Admissible(m, isOp) ==
  \/ isOp
  \/ /\ ~m.locked /\ m.cf.window = "open"
     /\ (m.cf.autokick => m.ops # {})
     /\ (m.cf.max > 0 => Cardinality(m.mem) < m.cf.max)
NoteDrift(same) == drift' = IF ~same /\ drift = 0 THEN l ELSE drift

TNew == /\ Ev.ev = "New" /\ mon' = GM!InitMon(Cfg(Ev.cfg)) /\ pend' = NoCfg
        /\ nbeh' = nbeh + 1 /\ skip' = FALSE /\ UNCHANGED <<drift, nbad>>
TAdmit == /\ Ev.ev = "admit"
          /\ LET j == GM!OnAdmit(Cur, Ev.c, B(Ev.op)) IN
             /\ mon' = j.mon /\ pend' = NoCfg /\ Verdict(j.v)
             /\ NoteDrift(Admissible(Cur, B(Ev.op)) /\ Ev.n = Cardinality(j.mon.mem) /\ B(Ev.locked) = Cur.locked)
          /\ UNCHANGED nbeh
TRefuse == /\ Ev.ev = "refuse"
           /\ LET j == GM!OnRefuse(Cur, Ev.c, B(Ev.op), B(Ev.dup)) IN
              /\ mon' = j.mon /\ pend' = NoCfg /\ Verdict(j.v)
              /\ NoteDrift(TRUE)
           /\ UNCHANGED nbeh
TLeave == /\ Ev.ev = "leave" /\ mon' = GM!OnLeave(mon, Ev.c) /\ Verdict("ok")
          /\ UNCHANGED <<pend, drift, nbeh>>
TLock == /\ Ev.ev = "lock" /\ mon' = GM!OnLock(Cur, B(Ev.b)) /\ pend' = NoCfg /\ Verdict("ok")
         /\ UNCHANGED <<drift, nbeh>>
TEdit == /\ Ev.ev = "edit" /\ pend' = Cfg(Ev.cfg) /\ Verdict("ok") /\ UNCHANGED <<mon, drift, nbeh>>
TAnn == /\ Ev.ev = "announce"
        /\ Verdict(IF Ev.kind = "add" THEN GM!OnAnnounce(mon, Ev.id) ELSE "ok")
        /\ UNCHANGED <<mon, pend, drift, nbeh>>
TMembers == /\ Ev.ev = "members"
            /\ Verdict(IF SetOf(Ev.m) # mon.mem THEN "C10_membership_differs_from_admissions_and_departures" ELSE "ok")
            /\ UNCHANGED <<mon, pend, drift, nbeh>>
\* C14 at the library level: views built from the announcements equal the membership at quiescence
\* (judged from the event alone: also when an earlier clause has already failed in this behaviour)
TViews == /\ Ev.ev = "views"
          /\ LET v == IF Ev.wrong # <<>> THEN "C14_view_does_not_converge_to_membership" ELSE "ok" IN
             /\ skip' = (skip \/ v # "ok") /\ nbad' = IF v # "ok" THEN nbad + 1 ELSE nbad
             /\ (v # "ok" => PrintT(<<"TRACE-BAD", l, nbeh, v>>))
          /\ UNCHANGED <<mon, pend, drift, nbeh>>
TWitness == /\ Ev.ev = "witness"
            /\ Verdict(IF Ev.completed = 0 THEN "C13_D1_lifecycle_operations_blocked_forever"
                       ELSE IF "bad_entries" \in DOMAIN Ev /\ Ev.bad_entries > 0 THEN "C13_D2_reader_saw_a_corrupted_chat_history" ELSE "ok")
            /\ UNCHANGED <<mon, pend, drift, nbeh>>
TSkip == skip /\ Ev.ev \notin {"New", "views"} /\ UNCHANGED <<mon, pend, drift, nbeh, nbad, skip>>

Step == /\ l <= Len(Trace)
        /\ (TNew \/ TSkip \/ TViews \/ (~skip /\ (TAdmit \/ TRefuse \/ TLeave \/ TLock \/ TEdit \/ TAnn \/ TMembers \/ TWitness)))
        /\ l' = l + 1 /\ UNCHANGED done
Finish == /\ l = Len(Trace) + 1 /\ ~done /\ done' = TRUE
          /\ PrintT(<<"TRACE-DONE", l - 1, nbeh, drift, nbad>>)
          /\ UNCHANGED <<l, mon, pend, drift, nbeh, nbad, skip>>
Next == Step \/ Finish
Spec == Init /\ [][Next]_vars
=============================================================================
