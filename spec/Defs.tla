-------------------------------- MODULE Defs --------------------------------
(***************************************************************************)
(* C18: group definition files behind the administrative API               *)
(* (webserver/api.go handlers + group/description.go Update*/Delete*/Set*  *)
(* + rewriteDescriptionFile).  Shaped like the code:                       *)
(*   handler part (no lock):  tag := stat(file); checkPreconditions        *)
(*   library part (groups.mu): re-read, compare with the handler's tag,    *)
(*                             CreateTemp, encode, fsync, close, rename    *)
(* so a racing writer can slip in between the two parts, and a crash can   *)
(* hit between any two file-system steps.  Readers take no lock.           *)
(*   file   : [exists, ver, val]   ver stands for (size, mtime)            *)
(*   temp   : Nil or [val, complete]  the temporary file                   *)
(*   pc[e]  : "idle" | "checked" | "locked" | "temped" | "synced"          *)
(*   held[e]: tag the editor was served (0 = none); cur[e]: tag the        *)
(*            handler computed; cond[e]: does the request carry If-Match   *)
(* Fixed_F21 = FALSE reproduces the password / key handlers before         *)
(* 941c847: neither part looks at a tag.                                   *)
(***************************************************************************)
EXTENDS Integers, Sequences, FiniteSets, TLC

CONSTANTS Editors, Val, MaxVer, Fixed_F21
Nil == [nil |-> TRUE]
V0 == CHOOSE v \in Val : TRUE

VARIABLES file, temp, lock, pc, held, cur, cond, want, stray, acks, seen
vars == <<file, temp, lock, pc, held, cur, cond, want, stray, acks, seen>>

Tag(f) == IF f.exists THEN f.ver ELSE 0

Init == /\ file = [exists |-> TRUE, ver |-> 1, val |-> CHOOSE v \in Val : TRUE]
        /\ temp = Nil /\ lock = Nil /\ stray = 0
        /\ pc = [e \in Editors |-> "idle"] /\ held = [e \in Editors |-> 0] /\ cur = [e \in Editors |-> 0]
        /\ cond = [e \in Editors |-> FALSE] /\ want = [e \in Editors |-> CHOOSE v \in Val : TRUE]
        /\ acks = [n |-> [t \in 0..MaxVer |-> 0], stale |-> FALSE, partial |-> FALSE] /\ seen = {}

\* GET: no lock; whatever it reads must be a complete definition (seen collects what readers saw)
Get(e) == /\ pc[e] = "idle" /\ file.exists
          /\ held' = [held EXCEPT ![e] = Tag(file)]
          /\ seen' = seen \cup {file.val}
          /\ UNCHANGED <<file, temp, lock, pc, cur, cond, want, stray, acks>>

\* handler part of a write: compute the tag, evaluate the precondition (c = carries If-Match with held[e])
Handler(e, v, c) ==
  /\ pc[e] = "idle" /\ file.exists
  /\ IF c /\ Fixed_F21 /\ held[e] # Tag(file)
     THEN UNCHANGED <<pc, cur, cond, want>>                           \* 412
     ELSE /\ pc' = [pc EXCEPT ![e] = "checked"] /\ cur' = [cur EXCEPT ![e] = Tag(file)]
          /\ cond' = [cond EXCEPT ![e] = c] /\ want' = [want EXCEPT ![e] = v]
  /\ UNCHANGED <<file, temp, lock, held, stray, acks, seen>>

\* library part: take groups.mu, re-read, compare
Lock(e) == /\ pc[e] = "checked" /\ lock = Nil
           /\ IF Fixed_F21 /\ cur[e] # Tag(file)
              THEN /\ pc' = [pc EXCEPT ![e] = "idle"] /\ UNCHANGED lock        \* ErrTagMismatch -> 412
                   /\ cur' = [cur EXCEPT ![e] = 0] /\ cond' = [cond EXCEPT ![e] = FALSE] /\ want' = [want EXCEPT ![e] = V0]
              ELSE pc' = [pc EXCEPT ![e] = "locked"] /\ lock' = e /\ UNCHANGED <<cur, cond, want>>
           /\ UNCHANGED <<file, temp, held, stray, acks, seen>>
CreateTemp(e) == /\ pc[e] = "locked" /\ temp' = [val |-> want[e], complete |-> FALSE]
                 /\ pc' = [pc EXCEPT ![e] = "temped"]
                 /\ UNCHANGED <<file, lock, held, cur, cond, want, stray, acks, seen>>
Sync(e) == /\ pc[e] = "temped" /\ temp' = [temp EXCEPT !.complete = TRUE]
           /\ pc' = [pc EXCEPT ![e] = "synced"]
           /\ UNCHANGED <<file, lock, held, cur, cond, want, stray, acks, seen>>
Rename(e) == /\ pc[e] = "synced"
             /\ file' = [exists |-> TRUE, ver |-> file.ver + 1, val |-> temp.val]
             /\ temp' = Nil /\ lock' = Nil /\ pc' = [pc EXCEPT ![e] = "idle"]
             /\ acks' = [acks EXCEPT !.n = IF cond[e] THEN [acks.n EXCEPT ![held[e]] = @ + 1] ELSE @,
                                      !.stale = @ \/ (cond[e] /\ held[e] # Tag(file)),
                                      !.partial = @ \/ ~temp.complete]
             /\ cur' = [cur EXCEPT ![e] = 0] /\ cond' = [cond EXCEPT ![e] = FALSE] /\ want' = [want EXCEPT ![e] = V0]
             /\ UNCHANGED <<held, stray, seen>>

\* the process dies anywhere and is restarted: requests in flight vanish, a temporary file may be left behind
Crash == /\ pc' = [e \in Editors |-> "idle"] /\ lock' = Nil /\ temp' = Nil
         /\ stray' = IF temp # Nil THEN stray + 1 ELSE stray
         /\ cur' = [e \in Editors |-> 0] /\ cond' = [e \in Editors |-> FALSE] /\ want' = [e \in Editors |-> V0]
         /\ UNCHANGED <<file, held, acks, seen>>

Next == \/ \E e \in Editors : Get(e) \/ Lock(e) \/ CreateTemp(e) \/ Sync(e) \/ Rename(e)
        \/ \E e \in Editors, v \in Val, c \in BOOLEAN : Handler(e, v, c)
        \/ Crash
Spec == Init /\ [][Next]_vars
Bounded == file.ver < MaxVer /\ stray < 2

\* X1: an acknowledged conditional write carried the tag of the version it replaced ...
X1 == ~acks.stale
\* ... so of all conditional writers holding one tag at most one is acknowledged
X1b == \A t \in 0..MaxVer : acks.n[t] <= 1
\* X3: only complete files are ever renamed into place, so the file (and what any reader saw) is always a complete definition
X3 == ~acks.partial /\ seen \subseteq Val /\ file.val \in Val
Symm == Permutations(Editors)
=============================================================================
