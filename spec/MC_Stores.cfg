\* C16: 2 tokens x 2 values, 2 editors, sweeper, external editor, crash at every step; bounded by file versions
CONSTANTS
  Tok = {"t1", "t2"}
  Val = {1, 2}
  Editors = {"e1", "e2"}
  MaxVer = 4
INIT Init
NEXT Next
INVARIANTS E1 E2 E3 E4
CONSTRAINT Bounded
CHECK_DEADLOCK FALSE
