------------------------------ MODULE Rewrite ------------------------------
(***************************************************************************)
(* C02 / C12-R4: codecs.RewritePacket's walk over the RTP header and the   *)
(* VP8 payload descriptor, as a decision table over packet SHAPES:         *)
(*   cc CSRC count, x header-extension bit, extlen extension words,        *)
(*   vx / vi / vm the X, I, M bits of the VP8 descriptor,                  *)
(*   trunc bytes cut from the end of the packet, delta the picture-id      *)
(*   shift, marker the set-marker request.                                 *)
(* Decide gives what the property demands: the picture id is rewritten     *)
(* exactly when it is wholly present and delta # 0; a packet cut anywhere  *)
(* before the end of the field that has to be read yields an error or      *)
(* leaves the packet untouched -- never a panic, never a length change,    *)
(* never a change outside seqno / marker / picture id.                     *)
(***************************************************************************)
EXTENDS Integers, Sequences, FiniteSets, TLC, Json

Shapes == [cc : 0..2, x : 0..1, extlen : 0..2, vx : 0..1, vi : 0..1, vm : 0..1,
           trunc : -1..40, delta : {0, 1, 129}, marker : 0..1]
Canon(s) == (s.x = 0 => s.extlen = 0) /\ (s.vx = 0 => s.vi = 0) /\ (s.vi = 0 => s.vm = 0)

HeaderLen(s) == 12 + 4 * s.cc + (IF s.x = 1 THEN 4 + 4 * s.extlen ELSE 0)
\* offset of the picture id and length of the full packet built by the harness
PidOff(s) == HeaderLen(s) + 2
PidLen(s) == IF s.vi = 0 THEN 0 ELSE IF s.vm = 1 THEN 2 ELSE 1
FullLen(s) == HeaderLen(s) + 1 + (IF s.vx = 1 THEN 1 + PidLen(s) + 1 ELSE 0) + 10
Len0(s) == IF s.trunc < 0 THEN FullLen(s) ELSE IF s.trunc > FullLen(s) THEN FullLen(s) ELSE FullLen(s) - s.trunc

\* what must happen
Decide(s) ==
  LET n == Len0(s) IN
  IF n < 12 THEN "error"
  ELSE IF s.delta = 0 THEN "unchanged"
  \* (with a header extension the code insists on four octets after it; such a short payload is
  \*  not judged: forwarded packets never carry extensions, they are stripped before caching)
  ELSE IF s.x = 1 /\ n < HeaderLen(s) + 4 THEN "error-or-unchanged"
  ELSE IF s.vi = 1 /\ n >= PidOff(s) + PidLen(s) THEN "rewritten"
  ELSE IF s.vi = 0 /\ s.vx = 0 /\ n > HeaderLen(s) THEN "unchanged"
  ELSE IF s.vi = 0 /\ s.vx = 1 /\ n > HeaderLen(s) + 1 THEN "unchanged"
  ELSE "error-or-unchanged"

VARIABLE s
Init == s \in {x \in Shapes : Canon(x)}
Next == UNCHANGED s
Emit == PrintT(<<"CASE", ToJson([s EXCEPT !.cc = s.cc] @@ [expect |-> Decide(s)])>>)
=============================================================================
