CONSTANTS
  TraceFile = "trace_nack.ndjson"
INIT Init
NEXT Next
CHECK_DEADLOCK FALSE
