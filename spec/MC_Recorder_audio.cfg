SPECIFICATION Spec
CONSTANTS
  NP = 6
  FrameOf <- MCFrameOfAudio
  KF <- MCKFAudio
  Window = 3
  MaxDup = 1
  MaxOdd = 2
INVARIANTS NothingLostMeansAllButTail HasOnlySent Emit
CHECK_DEADLOCK FALSE
