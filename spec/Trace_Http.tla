------------------------------ MODULE Trace_Http ------------------------------
(***************************************************************************)
(* Judges real HTTP exchanges with the real server (C17, C18, C11-A5, the  *)
(* HTTP part of C12).  Every http event carries what the driver observed   *)
(* (status, ETag, sentinel strings found in the response, a digest of the  *)
(* groups directory + token file after the request, the stored group       *)
(* definitions split into parts) and, under x, what the request was meant  *)
(* to be: x.class (row class of AdminAPI.tla), x.addr (the part of the     *)
(* definition the request addresses), x.editor / x.kind / x.form / x.hdr   *)
(* (optimistic-concurrency role of the request, see AdminAPI!DecidePre).   *)
(***************************************************************************)
EXTENDS Integers, Sequences, FiniteSets, TLC, Json
CONSTANTS TraceFile
Trace == ndJsonDeserialize(TraceFile)

VARIABLES l, nbeh, nbad, done,
          pd, pp,      \* digest and parts after the previous event of this behaviour
          ver,         \* group -> number of versions of its definition file seen
          held         \* editor -> [g, ver] of the tag it holds
vars == <<l, nbeh, nbad, done, pd, pp, ver, held>>
Init == l = 1 /\ nbeh = 0 /\ nbad = 0 /\ done = FALSE /\ pd = "" /\ pp = {} /\ ver = <<>> /\ held = <<>>
Ev == Trace[l]
SetOf(sq) == {sq[i] : i \in 1..Len(sq)}
Pairs(sq) == {<<sq[i][1], sq[i][2]>> : i \in 1..Len(sq)}
Get(f, k, d) == IF k \in DOMAIN f THEN f[k] ELSE d
Put(f, k, v) == [x \in DOMAIN f \cup {k} |-> IF x = k THEN v ELSE f[x]]
\* (the merely counted clause is printed, but does not use up the budget of real failures; TRACE-DONE counts the real ones)
Soft(v) == v = "N18_current_tag_refused"
Report(v) == /\ nbad' = IF v # "ok" /\ ~Soft(v) THEN nbad + 1 ELSE nbad
             /\ (v # "ok" /\ ~Soft(v) /\ nbad < 60 => PrintT(<<"TRACE-BAD", l, nbeh, v>>))
             /\ (Soft(v) => PrintT(<<"TRACE-SOFT", l, nbeh, v>>))
First(vs) == LET b == SelectSeq(vs, LAMBDA x : x # "ok") IN IF b = <<>> THEN "ok" ELSE b[1]
Prefix(s, p) == Len(s) >= Len(p) /\ SubSeq(s, 1, Len(p)) = p

\* parts of group g in a set of <<key, hash>> pairs
Of(P, g) == {q \in P : Prefix(q[1], g \o ":")}
\* the parts a request addressing `addr` may change
Suffix(s, p) == Len(s) >= Len(p) /\ SubSeq(s, Len(s) - Len(p) + 1, Len(s)) = p
MayChange(key, addr) ==
  \/ addr = "any"
  \/ Suffix(key, ":stat")
  \/ \E g \in {"g", "h", "n"} :
       \/ (addr = g \o ":desc" /\ key \in {g \o ":rest", g \o ":parses", g \o ":keys"} /\ FALSE)
       \/ (addr = g \o ":desc" /\ key = g \o ":rest")
       \/ (addr = g \o ":keys" /\ key = g \o ":keys")
       \/ (addr = g \o ":wild" /\ key = g \o ":wild:perm")
       \/ (addr = g \o ":wildpw" /\ key = g \o ":wild:pw")
       \/ \E u \in {"alice", "bob", "carol", "newuser"} :
            \/ (addr = g \o ":user:" \o u /\ key = g \o ":user:" \o u \o ":perm")
            \/ (addr = g \o ":pw:" \o u /\ key = g \o ":user:" \o u \o ":pw")
\* creation / deletion of the addressed object may add or remove all of ITS parts
MayAppear(key, addr) ==
  \/ MayChange(key, addr)
  \/ \E g \in {"g", "h", "n"} :
       \/ (addr = g \o ":desc" /\ Prefix(key, g \o ":"))
       \/ \E u \in {"alice", "bob", "carol", "newuser"} : addr = g \o ":user:" \o u /\ Prefix(key, g \o ":user:" \o u \o ":")
       \/ (addr = g \o ":wild" /\ Prefix(key, g \o ":wild:"))

TNew == /\ Ev.ev = "New" /\ nbeh' = nbeh + 1 /\ pd' = "" /\ pp' = {} /\ ver' = <<>> /\ held' = <<>> /\ UNCHANGED nbad

THttp ==
  /\ Ev.ev = "http"
  /\ LET e == Ev
         x == e.x
         P == Pairs(e.parts)
         changed == pd # "" /\ e.digest # pd
         ok2 == e.status >= 200 /\ e.status < 300
         \* ---- C12-R2
         r2 == IF e.status = -1 /\ x.class # "crash" THEN "C12_R2_http_request_got_no_response" ELSE "ok"
         \* ---- C17: no secret in any response
         leak == IF e.leaks # <<>> THEN "C17_response_reveals_a_secret" ELSE "ok"
         \* ---- C17: the routing table
         cls == CASE x.class = "notfound" -> IF e.status # 404 THEN "C17_unknown_path_not_answered_with_404" ELSE "ok"
                  [] x.class = "refuse" ->
                       IF e.status \notin {401, 404} THEN "C17_request_without_administrator_credentials_not_refused"
                       ELSE IF changed THEN "C17_refused_request_had_an_effect" ELSE "ok"
                  [] x.class = "preflight" ->
                       IF changed THEN "C17_preflight_had_an_effect" ELSE "ok"
                  [] OTHER -> "ok"
         \* ---- C17: an update leaves alone what it does not address
         Keys(S) == {q[1] : q \in S}
         GroupOf(addr) == CHOOSE gg \in {"g", "h", "n", "?"} : gg = "?" \/ Prefix(addr, gg \o ":")
         \* a whole definition may appear only if there was none, and vanish only if none is left
         WholeOK(key, S) == ~(x.addr = GroupOf(x.addr) \o ":desc" /\ (GroupOf(x.addr) \o ":parses") \in Keys(S)) \/ MayChange(key, x.addr)
         kept == IF pd = "" \/ x.addr = "any" \/ x.class = "crash" THEN "ok"
                 ELSE IF \E q \in pp : q[1] \in Keys(P) /\ q \notin P /\ ~MayChange(q[1], x.addr)
                      THEN "C17_update_altered_or_removed_a_part_it_does_not_address"
                 ELSE IF \E q \in pp : q[1] \notin Keys(P) /\ ~(MayAppear(q[1], x.addr) /\ WholeOK(q[1], P))
                      THEN "C17_update_altered_or_removed_a_part_it_does_not_address"
                 ELSE IF \E q \in P : q[1] \notin Keys(pp) /\ ~(MayAppear(q[1], x.addr) /\ WholeOK(q[1], pp))
                      THEN "C17_update_added_a_part_it_does_not_address"
                 ELSE "ok"
         \* ---- C18: files always parse
         \* (a left-over "*.temp" file is not a definition: the group layer only ever opens "<name>.json")
         parses == IF \E q \in P : q[2] = "no" THEN "C18_X3_definition_file_partial" ELSE "ok"
         \* ---- C18: preconditions.  g = the group whose definition file the request is about
         g == x.g
         v0 == Get(ver, g, 0)
         HasKey(k) == \E q \in pp : q[1] = k
         exists == CASE x.obj = "desc" -> HasKey(g \o ":parses")
                     [] x.obj = "wild" -> HasKey(g \o ":wild:perm")
                     [] x.obj = "keys" -> HasKey(g \o ":parses")
                     [] OTHER -> HasKey(g \o ":user:" \o x.obj \o ":perm")
         hv == IF x.editor \in DOMAIN held /\ held[x.editor].g = g THEN held[x.editor].ver ELSE -1
         matches == \/ (x.form \in {"exact", "list-containing"} /\ hv = v0 /\ exists)
                    \/ (x.form = "star" /\ exists)
         want == IF x.form \in {"absent", "none"} THEN "proceed"
                 ELSE IF x.hdr = "If-Match" THEN (IF matches THEN "proceed" ELSE "412")
                 ELSE IF matches THEN (IF e.method \in {"GET", "HEAD"} THEN "304" ELSE "412") ELSE "proceed"
         pre == IF x.editor = "" \/ x.class \in {"refuse", "notfound", "crash"} THEN "ok"
                ELSE IF want = "412" /\ ok2 THEN "C18_X1_conditional_write_succeeded_although_the_tag_is_not_current"
                ELSE IF want = "412" /\ changed THEN "C18_X1_failed_conditional_write_changed_the_definition"
                ELSE IF want = "304" /\ e.status # 304 THEN "C18_X2_current_tag_not_answered_with_304"
                ELSE IF want # "304" /\ e.status = 304 THEN "C18_X2_304_for_a_tag_that_is_not_current"
                ELSE IF want = "proceed" /\ e.status = 412 /\ x.form # "absent" THEN "N18_current_tag_refused"
                ELSE "ok"
         Stat(S) == {q \in S : q[1] = g \o ":stat"}
         v1 == IF g # "" /\ Stat(P) # Stat(pp) /\ pd # "" THEN v0 + 1 ELSE v0
     IN /\ Report(First(<<r2, leak, cls, kept, parses, pre>>))
        /\ pd' = e.digest /\ pp' = P
        /\ ver' = IF g = "" THEN ver ELSE Put(ver, g, v1)
        \* a response that served a tag makes the editor hold the version it belongs to
        /\ held' = IF g # "" /\ e.etag # "" /\ e.status \in {200, 304} THEN Put(held, e.name, [g |-> g, ver |-> v1]) ELSE held
  /\ UNCHANGED nbeh

\* racing conditional writers that all carry the tag held by x.editor: at most one may succeed, none if it is stale
THttpRace ==
  /\ Ev.ev = "httprace"
  /\ LET e == Ev
         x == e.x
         P == Pairs(e.parts)
         g == x.g
         v0 == Get(ver, g, 0)
         hv == IF x.editor \in DOMAIN held /\ held[x.editor].g = g THEN held[x.editor].ver ELSE -1
         Stat(S) == {q \in S : q[1] = g \o ":stat"}
         HasKey(k) == \E q \in pp : q[1] = k
         exists == CASE x.obj = "desc" -> HasKey(g \o ":parses") [] x.obj = "wild" -> HasKey(g \o ":wild:perm")
                     [] x.obj = "keys" -> HasKey(g \o ":parses") [] OTHER -> HasKey(g \o ":user:" \o x.obj \o ":perm")
         Ok(i) == e.statuses[i] >= 200 /\ e.statuses[i] < 300
         Val(S, k) == {q[2] : q \in {qq \in S : qq[1] = k}}
     IN /\ Report(First(<<
              IF e.leaks # <<>> THEN "C17_response_reveals_a_secret" ELSE "ok",
              IF \E i \in 1..Len(e.statuses) : e.statuses[i] = -1 THEN "C12_R2_http_request_got_no_response" ELSE "ok",
              IF x.kind = "sametag" /\ hv # v0 /\ e.oks > 0 THEN "C18_X1_conditional_write_succeeded_although_the_tag_is_not_current" ELSE "ok",
              IF x.kind = "sametag" /\ e.oks > 1 THEN "C18_X1_two_racing_writers_with_the_same_tag_both_succeeded" ELSE "ok",
              IF x.kind = "create" /\ exists /\ e.oks > 0 THEN "C18_X1_if_none_match_star_overwrote_an_existing_object" ELSE "ok",
              IF x.kind = "create" /\ e.oks > 1 THEN "C18_X1_two_racing_creators_both_succeeded" ELSE "ok",
              \* unconditional writers to different parts: whatever was acknowledged is there afterwards
              IF x.kind = "unconditional" /\ \E i \in 1..Len(e.statuses) : i <= Len(x.keys) /\ Ok(i) /\ Val(P, x.keys[i]) = Val(pp, x.keys[i])
                THEN "C18_X1_acknowledged_update_silently_lost" ELSE "ok",
              IF e.oks = 0 /\ e.digest # pd THEN "C18_X1_failed_conditional_write_changed_the_definition" ELSE "ok",
              IF \E q \in P : q[2] = "no" THEN "C18_X3_definition_file_partial" ELSE "ok">>))
        /\ pd' = e.digest /\ pp' = P
        /\ ver' = Put(ver, g, IF Stat(P) # Stat(pp) THEN v0 + 1 ELSE v0)
        /\ UNCHANGED <<held, nbeh>>

\* C11-A5: WHIP ingest only with credentials granting present; the session only with its bearer
TWhip == /\ Ev.ev = "whip"
         /\ Report(IF Ev.x.granted = 0 /\ Ev.status \notin {401, 403, 404} THEN "C11_A5_whip_ingest_accepted_without_present_credentials"
                   ELSE IF Ev.x.granted = 1 /\ Ev.status # 201 THEN "ok" ELSE "ok")
         /\ UNCHANGED <<nbeh, pd, pp, ver, held>>
TWhipReq == /\ Ev.ev = "whipreq"
            /\ Report(IF Ev.how # "same" /\ Ev.status \notin {401, 403, 404, -3}
                      THEN "C11_A5_whip_session_request_without_its_bearer_token_was_served" ELSE "ok")
            /\ UNCHANGED <<nbeh, pd, pp, ver, held>>
TDead == /\ Ev.ev \in {"dead", "startfail"}
         /\ Report(IF Ev.ev = "dead" /\ Ev.x.expected = 1 THEN "ok" ELSE "C12_R1_server_process_died")
         /\ UNCHANGED <<nbeh, pd, pp, ver, held>>
\* after a crash in the middle of a write: a restarted server finds the complete old or the complete new definition
TFiles == /\ Ev.ev = "files"
          /\ Report(IF \E i \in 1..Len(Ev.parts) : Ev.parts[i][2] = "no"
                    THEN "C18_X3_definition_file_partial"
                    ELSE "ok")
          /\ pp' = Pairs(Ev.parts) /\ pd' = Ev.digest
          /\ UNCHANGED <<nbeh, ver, held>>
\* lock-free readers during writes: every body was served under the tag of its own version, and parses
TReadRace ==
  /\ Ev.ev = "readrace"
  /\ LET e == Ev
         P == Pairs(e.parts)
         g == e.x.g
         Stat(S) == {q \in S : q[1] = g \o ":stat"}
     IN /\ Report(First(<<
              IF e.noresp > 0 THEN "C12_R2_http_request_got_no_response" ELSE "ok",
              IF e.partial > 0 THEN "C18_X3_reader_was_served_a_partial_definition" ELSE "ok",
              IF e.conflicts # <<>> THEN "C18_X3_reader_was_served_one_version_under_the_tag_of_another" ELSE "ok",
              IF \E q \in P : q[2] = "no" THEN "C18_X3_definition_file_partial" ELSE "ok">>))
        /\ pd' = e.digest /\ pp' = P
        /\ ver' = Put(ver, g, IF Stat(P) # Stat(pp) THEN Get(ver, g, 0) + 1 ELSE Get(ver, g, 0))
        /\ UNCHANGED <<held, nbeh>>
TOther == /\ Ev.ev \notin {"New", "http", "httprace", "readrace", "whip", "whipreq", "dead", "startfail", "files"}
          /\ UNCHANGED <<nbeh, nbad, pd, pp, ver, held>>
Step == /\ l <= Len(Trace) /\ (TNew \/ THttp \/ THttpRace \/ TReadRace \/ TWhip \/ TWhipReq \/ TDead \/ TFiles \/ TOther)
        /\ l' = l + 1 /\ UNCHANGED done
Finish == /\ l = Len(Trace) + 1 /\ ~done /\ done' = TRUE
          /\ PrintT(<<"TRACE-DONE", l - 1, nbeh, 0, IF nbad > 60 THEN 60 ELSE nbad>>)
          /\ UNCHANGED <<l, nbeh, nbad, pd, pp, ver, held>>
Next == Step \/ Finish
Spec == Init /\ [][Next]_vars
=============================================================================
