CONSTANTS
  M = 65536
  BitmapW = 32
  GetW = 17
  LateT = 256
  Fixed_F20 = TRUE
  Fixed_F26 = TRUE
  NackHorizon = 45
  Caps = {1, 2, 3, 5, 8}
  Ids = {1, 2}
  Offs <- OffsSim
  KFs = {FALSE, TRUE}
  MaxPackets = 4
  Unnacked = 4
  MaxHi = 0
  Starts = {0, 65535, 65500}
  SimDepth = 40
INIT SimInit
NEXT SimNext
INVARIANTS Emit PropertyHolds
