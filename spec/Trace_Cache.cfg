CONSTANTS
  M = 65536
  BitmapW = 32
  GetW = 17
  LateT = 256
  NackHorizon = 45
  Fixed_F20 = TRUE
  Fixed_F26 = TRUE
  TraceFile = "trace_cache.ndjson"
INIT Init
NEXT Next
CHECK_DEADLOCK FALSE
