SPECIFICATION Spec
CONSTANTS
  Clients = {"P", "Q", "A", "B"}
  Groups = {"g", "h"}
  Ids = {"s1", "s2", "s3"}
  MaxSteps = 9
INVARIANTS MonitorAccepts Emit
CHECK_DEADLOCK FALSE
