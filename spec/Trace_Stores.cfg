CONSTANTS
  TraceFile = "trace_stores.ndjson"
INIT Init
NEXT Next
CHECK_DEADLOCK FALSE
