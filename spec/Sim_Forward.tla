---------------------------- MODULE Sim_Forward ----------------------------
(* Behaviour generator for the forwarding path: Forward.tla with a history     *)
(* variable printed as JSON at SimDepth (tlc -simulate).  Entries:             *)
(*   ["P", tid, sid, start, end, kf, tidup, nonref, marker, dir]  one packet   *)
(*        (dir = what adjustLayer does if this packet shows a new top layer)   *)
(*   ["A", dir]  feedback-driven adjustLayer        ["L", lim]  limitSid       *)
(* The behaviours are replayed through the real rtpDownTrack.Write /           *)
(* adjustLayer / replaceTracks with packets built from these ground truths.    *)
EXTENDS Forward, Json

CONSTANTS SimDepth
VARIABLES beh

SimInit == Init /\ beh = <<>>
Bi(b) == IF b THEN 1 ELSE 0
PRec(f, dir) == <<"P", f.tid, f.sid, Bi(f.start), Bi(f.end), Bi(f.kf), Bi(f.tidup), Bi(f.nonref), Bi(f.marker),
                  IF f.tid > L.maxTid \/ f.sid > L.maxSid THEN dir ELSE "up">>

SimSend ==
  /\ bad = "ok"
  /\ \E dir \in {"up", "down"} :
     IF mid # None
     THEN LET f == [mid EXCEPT !.start = FALSE, !.kf = FALSE, !.tidup = FALSE, !.end = TRUE] IN
          /\ Fresh(f, dir) /\ mid' = None /\ UNCHANGED npid
          /\ beh' = Append(beh, PRec(f, dir))
     ELSE \E fr \in Frames, two \in (IF TwoPkt THEN Bool2 ELSE {FALSE}) :
          LET f0 == [fr EXCEPT !.pid = npid]
              f1 == [f0 EXCEPT !.end = FALSE, !.marker = FALSE] IN
          /\ npid' = IF PidM = 0 THEN 0 ELSE (npid + 1) % PidM
          /\ IF two THEN Fresh(f1, dir) /\ mid' = f0 /\ beh' = Append(beh, PRec(f1, dir))
                    ELSE Fresh(f0, dir) /\ mid' = None /\ beh' = Append(beh, PRec(f0, dir))

SimAdjust == /\ bad = "ok"
             /\ \E dir \in {"up", "down"} :
                /\ L' = AdjustOp(L, dir) /\ bad' = FM!C04Feedback(L, L')
                /\ beh' = Append(beh, <<"A", dir>>)
             /\ UNCHANGED <<m, g, p, gmt, gms, hist, mid, npid>>

SimLimit == /\ bad = "ok"
            /\ \E lim \in Bool2 :
               /\ L' = LimitOp(L, lim) /\ bad' = FM!C04Feedback(L, L')
               /\ beh' = Append(beh, <<"L", Bi(lim)>>)
            /\ UNCHANGED <<m, g, p, gmt, gms, hist, mid, npid>>

\* feedback is made about as frequent as it is in the random driver (1 step in 4)
SimNext == SimSend \/ SimSend \/ SimSend \/ SimAdjust \/ SimLimit

Emit == Len(beh) = SimDepth => PrintT(<<"BEH", ToJson([ops |-> beh])>>)
=============================================================================
