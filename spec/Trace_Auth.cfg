CONSTANTS
  TraceFile = "trace_auth.ndjson"
INIT Init
NEXT Next
CHECK_DEADLOCK FALSE
