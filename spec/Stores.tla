------------------------------- MODULE Stores -------------------------------
(***************************************************************************)
(* C16 (and the file-replacement part of C18): the stateful token store    *)
(* (token/stateful.go) over an explicit file-system model.                 *)
(*   file  : [exists, toks (token id -> value), ver, ok (parses)]          *)
(*           ver stands for the (size, mtime) pair by which versions are   *)
(*           told apart (the property's assumption: successive versions    *)
(*           differ), 0 = no file                                          *)
(*   mem   : the in-memory mirror [toks, ver] ; ver = 0: nothing loaded    *)
(*   temp  : a temporary file being written by rewrite(), or Nil           *)
(* Library calls are atomic under the store's mutex (one action each);     *)
(* rewrite() is split at its file-system steps so that a crash can hit     *)
(* between any two of them; another process may edit the file between      *)
(* calls; editors hold tags they read earlier (optimistic concurrency).    *)
(* Ghosts: acked (set of acknowledged conditional writes with the tag they *)
(* used and the version they replaced), dead (revoked token ids).          *)
(***************************************************************************)
EXTENDS Integers, Sequences, FiniteSets, TLC

CONSTANTS Tok,        \* token ids
          Val,        \* abstract token contents
          Editors,
          MaxVer      \* state constraint

Nil == [nil |-> TRUE]
NoTok == [t \in {} |-> 0]

VARIABLES file, mem, temp, pending,    \* pending: the rewrite in progress [toks] or Nil
          etag,                        \* editor -> tag it read (0 = none)
          dead, lastAck, bad

vars == <<file, mem, temp, pending, etag, dead, lastAck, bad>>

Init == /\ file = [exists |-> FALSE, toks |-> NoTok, ver |-> 0]
        /\ mem = [toks |-> NoTok, ver |-> 0]
        /\ temp = Nil /\ pending = Nil
        /\ etag = [e \in Editors |-> 0]
        /\ dead = {} /\ lastAck = Nil /\ bad = "ok"

Tag(f) == IF f.exists THEN f.ver ELSE 0

\* load(): stat; if (size, mtime) unchanged keep memory, else re-read
Load(m, f) == IF ~f.exists THEN [toks |-> NoTok, ver |-> 0]
              ELSE IF m.ver = f.ver THEN m
              ELSE [toks |-> f.toks, ver |-> f.ver]

Idle == pending = Nil /\ bad = "ok"

\* Get(t) / List: what the server honours right now
Honoured == Load(mem, file).toks

\* E1: honoured = what a fresh process reads from the file
E1 == Idle => Honoured = (IF file.exists THEN file.toks ELSE NoTok)
\* E2: a revoked token is in neither set
E2 == Idle => \A t \in dead : t \notin DOMAIN Honoured /\ (file.exists => t \notin DOMAIN file.toks)

NewVer == file.ver + 1

Read(e) == /\ Idle /\ mem' = Load(mem, file) /\ etag' = [etag EXCEPT ![e] = Tag(file)]
           /\ UNCHANGED <<file, temp, pending, dead, lastAck, bad>>

\* Update(token, etag) of a token that does not exist: append one line
Create(e, t, v) ==
  /\ Idle
  /\ LET m == Load(mem, file) IN
     /\ t \notin DOMAIN m.toks
     /\ file' = [exists |-> TRUE, toks |-> [x \in DOMAIN m.toks \cup {t} |-> IF x = t THEN v ELSE m.toks[x]],
                 ver |-> NewVer]
     /\ mem' = [toks |-> file'.toks, ver |-> NewVer]
  /\ dead' = dead \ {t}
  /\ lastAck' = [kind |-> "create", used |-> 0, replaced |-> Tag(file)]
  /\ UNCHANGED <<temp, pending, etag, bad>>

\* Update / Delete of an existing token with the editor's tag: begins a rewrite if the tag is current
BeginWrite(e, t, v, del) ==
  /\ Idle
  /\ LET m == Load(mem, file) IN
     /\ t \in DOMAIN m.toks
     /\ IF etag[e] # m.ver
        THEN /\ mem' = m /\ UNCHANGED <<file, temp, pending, dead, lastAck>>   \* ErrTagMismatch
        ELSE LET nt == IF del THEN [x \in DOMAIN m.toks \ {t} |-> m.toks[x]]
                              ELSE [m.toks EXCEPT ![t] = v]
             IN /\ mem' = [m EXCEPT !.toks = nt]
                /\ pending' = [toks |-> nt, used |-> etag[e], replaced |-> m.ver, del |-> IF del THEN {t} ELSE {}]
                /\ UNCHANGED <<file, temp, dead, lastAck>>
  /\ UNCHANGED <<etag, bad>>

\* Expire(): sweep (the environment chooses which tokens are a week past their expiry)
BeginSweep(S) ==
  /\ Idle /\ S # {}
  /\ LET m == Load(mem, file) IN
     /\ S \subseteq DOMAIN m.toks
     /\ LET nt == [x \in DOMAIN m.toks \ S |-> m.toks[x]] IN
        /\ mem' = [m EXCEPT !.toks = nt]
        /\ pending' = [toks |-> nt, used |-> m.ver, replaced |-> m.ver, del |-> S]
  /\ UNCHANGED <<file, temp, etag, dead, lastAck, bad>>

\* rewrite(): remove the file if nothing is left, else temp file + rename
RewriteTemp == /\ pending # Nil /\ temp = Nil /\ DOMAIN pending.toks # {}
               /\ temp' = [toks |-> pending.toks]
               /\ UNCHANGED <<file, mem, pending, etag, dead, lastAck, bad>>

RewriteCommit ==
  /\ pending # Nil
  /\ IF DOMAIN pending.toks = {}
     THEN file' = [exists |-> FALSE, toks |-> NoTok, ver |-> file.ver]
     ELSE temp # Nil /\ file' = [exists |-> TRUE, toks |-> temp.toks, ver |-> NewVer]
  /\ mem' = [mem EXCEPT !.ver = IF DOMAIN pending.toks = {} THEN mem.ver ELSE NewVer]
  /\ temp' = Nil /\ pending' = Nil
  /\ dead' = dead \cup pending.del
  /\ lastAck' = [kind |-> "write", used |-> pending.used, replaced |-> pending.replaced]
  /\ UNCHANGED <<etag, bad>>

\* the process dies (at any file-system step of a rewrite, or between calls) and is restarted
Crash == /\ bad = "ok"
         /\ mem' = [toks |-> NoTok, ver |-> 0] /\ temp' = Nil /\ pending' = Nil
         /\ UNCHANGED <<file, etag, dead, lastAck, bad>>

\* another process (or the administrator) rewrites the file
External(nt) == /\ Idle
                /\ file' = [exists |-> TRUE, toks |-> nt, ver |-> NewVer]
                /\ dead' = dead \ DOMAIN nt
                /\ UNCHANGED <<mem, temp, pending, etag, lastAck, bad>>

Next == \/ \E e \in Editors : Read(e)
        \/ \E e \in Editors, t \in Tok, v \in Val : Create(e, t, v) \/ BeginWrite(e, t, v, FALSE) \/ BeginWrite(e, t, v, TRUE)
        \/ \E S \in SUBSET Tok : BeginSweep(S)
        \/ RewriteTemp \/ RewriteCommit \/ Crash
        \/ \E D \in SUBSET Tok : \E nt \in [D -> Val] : External(nt)

Spec == Init /\ [][Next]_vars
Bounded == file.ver < MaxVer

\* E3: an acknowledged conditional write used the tag of the version it replaced
E3 == lastAck # Nil => (lastAck.kind = "write" => lastAck.used = lastAck.replaced)
\* E4: whatever happens, the file holds a complete set (this model has no partial file by
\* construction: the rename is the only step that changes it -- the conformance harness checks
\* that the real rewrite has exactly these steps)
E4 == file.exists => DOMAIN file.toks \subseteq Tok
=============================================================================
