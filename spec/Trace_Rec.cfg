CONSTANTS
  TraceFile = "trace_rec.ndjson"
INIT Init
NEXT Next
CHECK_DEADLOCK FALSE
