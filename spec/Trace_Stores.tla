---------------------------- MODULE Trace_Stores ----------------------------
(***************************************************************************)
(* Validates executions of the REAL stateful token store.  Every event     *)
(* carries the state of the file before and after the call as seen by an   *)
(* independent reader (sorted [id, value] pairs, the version tag computed  *)
(* from stat, whether every line parses) and, after the call, what the     *)
(* library honours for every token id.                                     *)
(* Layer P:  E1 honoured = on disk          E2 revoked tokens stay revoked *)
(*           E3 conditional writes succeed only with the current tag;      *)
(*              a failed write changes nothing                             *)
(*           E4 after a crash the file parses and holds the complete old   *)
(*              or the complete new set                                    *)
(* Layer I:  the outcome class and resulting set predicted by Stores.tla's *)
(*           operations (drift).                                           *)
(***************************************************************************)
EXTENDS Integers, Sequences, FiniteSets, TLC, Json

CONSTANTS TraceFile
Trace == ndJsonDeserialize(TraceFile)

\* ver: count of file versions seen (the driver's own stat of the file is used only to DETECT a change,
\* never compared with the library's tag: a different tag format is not a violation);
\* lastTag: the stat tag after the previous event; readVer: editor -> version current when it last read
VARIABLES l, dead, drift, nbeh, nbad, skip, done, ver, lastTag, readVer
vars == <<l, dead, drift, nbeh, nbad, skip, done, ver, lastTag, readVer>>

Init == l = 1 /\ dead = {} /\ drift = 0 /\ nbeh = 0 /\ nbad = 0 /\ skip = FALSE /\ done = FALSE
        /\ ver = 0 /\ lastTag = "" /\ readVer = <<>>
Ev == Trace[l]

SetOf(sq) == {sq[i] : i \in 1..Len(sq)}
Ids(sq) == {sq[i][1] : i \in 1..Len(sq)}
First(vs) == LET b == SelectSeq(vs, LAMBDA x : x # "ok") IN IF b = <<>> THEN "ok" ELSE b[1]
Verdict(v) == /\ skip' = (v # "ok") /\ nbad' = IF v # "ok" THEN nbad + 1 ELSE nbad
              /\ (v # "ok" => PrintT(<<"TRACE-BAD", l, nbeh, v>>))
NoteDrift(same) == drift' = IF ~same /\ drift = 0 THEN l ELSE drift

\* the set a write of kind k on (t, v) is meant to produce from set D
Intended(k, D, t, v) ==
  IF k = "delete" THEN {p \in D : p[1] # t}
  ELSE {p \in D : p[1] # t} \cup {<<t, v>>}

E1(e) == IF SetOf(e.after.hon) # SetOf(e.after.disk) THEN "C16_E1_honoured_set_differs_from_file" ELSE "ok"
E2(d, e) == IF d \cap (Ids(e.after.hon) \cup Ids(e.after.disk)) # {} THEN "C16_E2_revoked_token_is_back" ELSE "ok"
Parses(e) == IF e.after.parses = 0 THEN "C16_E4_file_does_not_parse_completely" ELSE "ok"
\* every instant at which the file name does not exist is a possible crash state (observed through inotify, whether or
\* not a hook sits there): with tokens before and after the call, a restart at that instant would have seen neither set
Unlinked(e) == IF "unlinked" \in DOMAIN e /\ e.unlinked > 0 /\ SetOf(e.before.disk) # {} /\ SetOf(e.after.disk) # {}
               THEN "C16_E4_token_file_absent_in_the_middle_of_an_update" ELSE "ok"

\* version bookkeeping for an "op" event: the version before the call (an unseen change since the
\* previous event counts), and after it
VerBefore(e) == IF e.before.tag # lastTag THEN ver + 1 ELSE ver
VerAfter(e) == IF e.after.tag # e.before.tag THEN VerBefore(e) + 1 ELSE VerBefore(e)
Track(e) == ver' = VerAfter(e) /\ lastTag' = e.after.tag
RV(ed) == IF ed \in DOMAIN readVer THEN readVer[ed] ELSE -1

TNew == /\ Ev.ev = "New" /\ dead' = {} /\ nbeh' = nbeh + 1 /\ skip' = FALSE /\ UNCHANGED <<drift, nbad>>
        /\ ver' = 0 /\ lastTag' = "" /\ readVer' = <<>>

TWrite ==
  /\ Ev.ev = "op" /\ Ev.op \in {"create", "update", "delete"}
  /\ LET e == Ev
         B == SetOf(e.before.disk)
         A == SetOf(e.after.disk)
         ok == e.err = ""
         exists == e.t \in Ids(e.before.disk)
         e3 == IF ok /\ e.op = "create" /\ exists THEN "C16_E3_creation_overwrote_existing_token"
               ELSE IF ok /\ e.op # "create" /\ exists /\ RV(e.e) # VerBefore(e) THEN "C16_E3_conditional_write_succeeded_with_stale_tag"
               ELSE IF ok /\ A # Intended(IF e.op = "delete" THEN "delete" ELSE "put", B, e.t, e.v)
                    THEN "C16_E3_acknowledged_write_not_in_file"
               ELSE IF ~ok /\ (A # B \/ e.after.tag # e.before.tag) THEN "C16_E3_failed_write_changed_the_file"
               ELSE "ok"
         d1 == IF ok /\ e.op = "delete" THEN dead \cup {e.t}
               ELSE IF ok THEN dead \ {e.t} ELSE dead
         \* Layer I: Stores.tla -- create of an absent token appends; create of an existing one is a
         \* conditional write with the empty tag; update of an absent token with a tag is a mismatch
         cur == RV(e.e) = VerBefore(e)
         pred == IF e.op = "delete" THEN (IF ~exists THEN "notexist" ELSE IF cur THEN "" ELSE "mismatch")
                 ELSE IF e.op = "create" THEN (IF exists THEN "mismatch" ELSE "")
                 ELSE IF exists THEN (IF cur THEN "" ELSE "mismatch")
                 ELSE (IF e.used = "" THEN "" ELSE "mismatch")
     IN /\ dead' = d1
        /\ Verdict(First(<<Parses(e), e3, E1(e), E2(d1, e), Unlinked(e)>>))
        /\ NoteDrift(pred = e.err)
        /\ Track(e) /\ UNCHANGED readVer
  /\ UNCHANGED nbeh

TExpire ==
  /\ Ev.ev = "op" /\ Ev.op = "expire"
  /\ LET e == Ev
         B == SetOf(e.before.disk)
         A == SetOf(e.after.disk)
         swept == {p[1] : p \in {x \in B : x[2] = 2}}
         d1 == dead \cup (Ids(e.before.disk) \ Ids(e.after.disk))
     IN /\ dead' = d1
        /\ Verdict(First(<<Parses(e), E1(e), E2(d1, e), Unlinked(e),
                           IF ~(A \subseteq B) THEN "C16_E2_sweep_invented_or_changed_tokens" ELSE "ok">>))
        /\ NoteDrift(e.err = "" /\ A = {x \in B : x[2] # 2})
        /\ Track(e) /\ UNCHANGED readVer
  /\ UNCHANGED nbeh

TRead == /\ Ev.ev = "op" /\ Ev.op \in {"read", "restart"}
         /\ Verdict(First(<<Parses(Ev), E1(Ev), E2(dead, Ev)>>))
         /\ NoteDrift(TRUE)
         /\ Track(Ev)
         /\ readVer' = IF Ev.op = "read" THEN [x \in DOMAIN readVer \cup {Ev.e} |-> IF x = Ev.e THEN VerBefore(Ev) ELSE readVer[x]]
                        ELSE readVer
         /\ UNCHANGED <<dead, nbeh>>

TExternal == /\ Ev.ev = "op" /\ Ev.op = "external"
             /\ dead' = dead \ Ids(Ev.after.disk)
             /\ Verdict(E1(Ev)) /\ NoteDrift(TRUE) /\ Track(Ev) /\ UNCHANGED <<nbeh, readVer>>

TCrash ==
  /\ Ev.ev = "op" /\ Ev.op = "crash"
  /\ LET e == Ev
         B == SetOf(e.before.disk)
         A == SetOf(e.after.disk)
         New == Intended(IF e.cop = "delete" THEN "delete" ELSE "put", B, e.t, e.v)
         d1 == IF A # B /\ e.cop = "delete" THEN dead \cup {e.t}
               ELSE IF A # B THEN dead \ {e.t} ELSE dead
     IN /\ dead' = d1
        /\ Verdict(First(<<Parses(e),
                           IF A # B /\ A # New THEN "C16_E4_file_is_neither_old_nor_new_set_after_crash" ELSE "ok",
                           E1(e), E2(d1, e)>>))
        /\ NoteDrift(TRUE)
        /\ Track(e) /\ UNCHANGED readVer
  /\ UNCHANGED nbeh

TPar == /\ Ev.ev = "par"
        /\ Verdict(IF Ev.acks # Ev.final THEN "C16_E3_concurrent_editors_lost_an_acknowledged_update" ELSE "ok")
        /\ UNCHANGED <<dead, drift, nbeh, ver, lastTag, readVer>>

TSkip == skip /\ Ev.ev # "New" /\ UNCHANGED <<dead, drift, nbeh, nbad, skip, ver, lastTag, readVer>>
Step == /\ l <= Len(Trace)
        /\ (TNew \/ TSkip \/ (~skip /\ (TWrite \/ TExpire \/ TRead \/ TExternal \/ TCrash \/ TPar)))
        /\ l' = l + 1 /\ UNCHANGED done
Finish == /\ l = Len(Trace) + 1 /\ ~done /\ done' = TRUE
          /\ PrintT(<<"TRACE-DONE", l - 1, nbeh, drift, nbad>>)
          /\ UNCHANGED <<l, dead, drift, nbeh, nbad, skip, ver, lastTag, readVer>>
Next == Step \/ Finish
Spec == Init /\ [][Next]_vars
=============================================================================
