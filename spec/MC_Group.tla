------------------------------ MODULE MC_Group ------------------------------
EXTENDS Group
Cfgs == { [max |-> mx, autolock |-> al, autokick |-> ak, window |-> w] :
            mx \in {0, 1, 2}, al \in BOOLEAN, ak \in BOOLEAN, w \in {"before", "open", "expired"} }
CfgsSmall == { [max |-> mx, autolock |-> al, autokick |-> ak, window |-> "open"] :
            mx \in {0, 1}, al \in BOOLEAN, ak \in BOOLEAN }
=============================================================================
