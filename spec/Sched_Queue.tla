---------------------------- MODULE Sched_Queue ----------------------------
(* Schedule enumerator: Queue.tla with the schedule so far as a variable, so   *)
(* that TLC's exhaustive search walks the TREE of all interleavings; every     *)
(* complete schedule (no step enabled any more) is printed as JSON.  Steps:    *)
(*   ["put", p] ["sig", p] ["wait"] ["get"] ["unsol"]                          *)
(* Every printed schedule is forced on the real unbounded.Channel.             *)
EXTENDS Queue, Json

VARIABLE sched

SInit == Init /\ sched = <<>>
SNext == \/ \E p \in Prod : PutStep(p) /\ sched' = Append(sched, <<"put", p>>)
         \/ \E p \in Prod : SigStep(p) /\ sched' = Append(sched, <<"sig", p>>)
         \/ Wait /\ sched' = Append(sched, <<"wait", 0>>)
         \/ GetStep /\ sched' = Append(sched, <<"get", 0>>)
         \/ Unsol /\ sched' = Append(sched, <<"unsol", 0>>)

Terminal == /\ \A p \in Prod : pc[p] = "done"
            /\ cpc = "wait" /\ ch = 0 /\ (queue = <<>> \/ ~Unsolicited)

Emit == Terminal => PrintT(<<"BEH", ToJson([sched |-> sched, got |-> got, left |-> queue])>>)
=============================================================================
