------------------------------ MODULE AdminAPI ------------------------------
(***************************************************************************)
(* C17 (and the HTTP part of C12): the router of webserver/api.go as a     *)
(* decision table  method x endpoint shape x credential kind -> what the   *)
(* property demands.  TLC enumerates the table completely; every row is    *)
(* sent as a real HTTP request to the real server.                         *)
(*                                                                         *)
(* Endpoint shapes (g = the fixture's group, u = a user of it):            *)
(*  stats grouplist group users user wildcard emptyuser password           *)
(*  wildpassword keys tokens token unknownkind unknownsub v1 nonapi        *)
(*  othergroup (the description of ANOTHER group h)                        *)
(* Credential kinds: none, wrongpw (global admin name, wrong password),    *)
(*  user (ordinary user of g), op (operator of g), otheradmin (admin of    *)
(*  h), gadmin (user of g with the admin permission), root (global         *)
(*  administrator), tokout (admin token of h), tokin (admin token of g),   *)
(*  tokroot (root-scoped, subgroup-covering admin token), selfpw (the      *)
(*  password of user u, under any username)                                *)
(***************************************************************************)
EXTENDS Integers, Sequences, FiniteSets, TLC, Json

Methods == {"GET", "HEAD", "PUT", "POST", "DELETE", "PATCH", "OPTIONS", "TRACE"}
Endpoints == {"stats", "grouplist", "group", "users", "user", "wildcard", "emptyuser", "password", "wildpassword",
              "keys", "tokens", "token", "unknownkind", "unknownsub", "v1", "badversion", "othergroup", "otherpassword"}
\* "emptypw": any username with the password of the group's empty-named user (a legal key of the users map); "otherpw": bob's
\* password presented under alice's name on alice's endpoints
Creds == {"none", "wrongpw", "user", "op", "otheradmin", "gadmin", "root", "tokout", "tokin", "tokroot", "selfpw", "emptypw", "otherpw"}

\* which group an endpoint belongs to ("" = server-wide)
GroupOf(e) == CASE e \in {"stats", "grouplist", "v1", "badversion"} -> ""
                [] e \in {"othergroup", "otherpassword"} -> "h"
                [] OTHER -> "g"
Exists(e) == e \notin {"v1", "badversion"}      \* paths the router does not know at all: 404 whoever asks

IsGlobalAdmin(c) == c \in {"root", "tokroot"}
AdminOf(c, grp) == IsGlobalAdmin(c) \/ (grp = "g" /\ c \in {"gadmin", "tokin"}) \/ (grp = "h" /\ c \in {"otheradmin", "tokout"})

\* is the request authorised ?
Authorised(c, e) ==
  \/ (GroupOf(e) = "" /\ IsGlobalAdmin(c))
  \/ (GroupOf(e) # "" /\ AdminOf(c, GroupOf(e)))
  \/ (e = "password" /\ c = "selfpw")       \* the only exception: one's own password, presenting the current one

Rows == [m : Methods, e : Endpoints, c : Creds]
\* expected class:  "preflight" (OPTIONS: never an authentication failure, never an effect),
\*                  "notfound"  (404 for everybody), "refuse" (401 or 404, no effect, no disclosure),
\*                  "serve"     (anything but 401; effects allowed)
Decide(r) == IF ~Exists(r.e) THEN "notfound"
             ELSE IF r.m = "OPTIONS" THEN "preflight"
             ELSE IF Authorised(r.c, r.e) THEN "serve" ELSE "refuse"

VARIABLE r
Init == r \in Rows
Next == UNCHANGED r
Emit == PrintT(<<"CASE", ToJson([m |-> r.m, e |-> r.e, c |-> r.c, expect |-> Decide(r)])>>)

\* design-level facts over the whole table
NoOrdinaryUserEverServed == (r.c \in {"none", "wrongpw", "user", "op", "emptypw", "otherpw"} /\ r.m # "OPTIONS") => Decide(r) # "serve"
ScopeRespected == (r.c \in {"gadmin", "tokin"} /\ GroupOf(r.e) # "g" /\ r.m # "OPTIONS" /\ Exists(r.e)) => Decide(r) = "refuse"

---------------------------------------------------------------------------
(* C18: the If-Match / If-None-Match header forms (webserver/precondition.go) *)
Forms == {"absent", "exact", "list-containing", "list-not-containing", "weak", "star", "malformed", "empty-quoted", "stale"}
\* does the header value match the current strong tag of an object that exists / does not exist ?
FormMatches(f, exists) == IF ~exists THEN FALSE ELSE f \in {"exact", "list-containing", "star"}
PreRows == [f : Forms, h : {"If-Match", "If-None-Match"}, m : {"GET", "PUT", "DELETE"}, exists : BOOLEAN]
\* RFC 7232: If-Match fails (412) unless it matches; If-None-Match that matches gives 304 on GET/HEAD, 412 otherwise
DecidePre(p) ==
  IF p.f = "absent" THEN "proceed"
  ELSE IF p.h = "If-Match" THEN (IF FormMatches(p.f, p.exists) THEN "proceed" ELSE "412")
  ELSE IF FormMatches(p.f, p.exists) THEN (IF p.m = "GET" THEN "304" ELSE "412") ELSE "proceed"
=============================================================================
