CONSTANTS
  TraceFile = "trace_http.ndjson"
INIT Init
NEXT Next
CHECK_DEADLOCK FALSE
