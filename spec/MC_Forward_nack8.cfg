\* C03 (+C01/C02 in composition): late copies and NACKs, VP8-like stream
CONSTANTS
  M = 8
  W = 2
  MaxEntries = 2
  PM = 8
  PidM = 4
  Fixed_F9 = TRUE
  Fixed_F12 = TRUE
  Fixed_F1 = TRUE
  MaxT = 1
  MaxS = 0
  TwoPkt = FALSE
  LateOK = TRUE
  NackOK = TRUE
  MaxHi = 6
  Known_F17 = FALSE
INIT Init
NEXT Next
INVARIANTS PropertyHolds LayerTypeOK
CONSTRAINT Bounded
VIEW View
