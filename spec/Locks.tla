------------------------------- MODULE Locks -------------------------------
(***************************************************************************)
(* C13 (lifecycle part): the lock acquisition / guarded-variable access    *)
(* sequences of the lifecycle operations on ONE group with one WHIP client *)
(* (whose lock is `wm`), transcribed from group/group.go,                  *)
(* rtpconn/whipclient.go and diskwriter/diskwriter.go.  Every operation is *)
(* a list of instructions; one instruction = one step, so TLC explores all *)
(* interleavings of the operations that run concurrently.                  *)
(*   <<"acq", l>> <<"rel", l>> <<"rd", v>> <<"wr", v>>                     *)
(* Locks are Go mutexes: not re-entrant.                                   *)
(*   D1  no reachable state in which an unfinished operation can never     *)
(*       move (TLC deadlock check)                                         *)
(*   D2  no two operations can be at conflicting accesses of the same      *)
(*       guarded variable without holding a common lock (lockset)          *)
(* Switches Fixed_F4, Fixed_F5, Fixed_F8, Fixed_F18 = TRUE give the        *)
(* repaired code that is in /repo; FALSE the pinned upstream behaviour.    *)
(***************************************************************************)
EXTENDS Integers, Sequences, FiniteSets, TLC

CONSTANTS Running,     \* operation names available
          MaxConc,     \* how many of them run concurrently (every subset of that size is explored)
          Fixed_F4, Fixed_F5, Fixed_F8, Fixed_F18,
          WhipConnected,  \* the WHIP client has a connection (Close then asks for the member list)
          Async_Autokick, \* TRUE (the code): autoLockKick hands the kicks to a goroutine; FALSE: it would kick under g.mu
          History_Copy    \* TRUE (the code): GetChatHistory copies under g.mu; FALSE: it would hand out the live buffer

A(l) == <<"acq", l>>
R(l) == <<"rel", l>>
Rd(v) == <<"rd", v>>
Wr(v) == <<"wr", v>>

\* Permissions() of every member: for the WHIP member it takes the client's lock
PermsOfMembers == <<A("wm"), Rd("wperm"), R("wm")>>

\* autoLockKick(g): reads description, locked, clients, members' permissions; may set locked
AutoLockKick == <<Rd("desc"), Rd("locked"), Rd("clients")>> \o PermsOfMembers \o <<Wr("locked")>>

\* add(name, nil): groups.mu, then g.mu, description check, autoLockKick
AddGroup == <<A("groups"), Rd("groupsmap"), A("g"), Rd("desc"), Wr("desc")>> \o AutoLockKick
            \o <<R("g"), R("groups")>>

\* AddClient(web client)
AddClient == AddGroup \o <<A("g"), Rd("clients"), Rd("desc"), Rd("locked")>> \o PermsOfMembers
             \o <<Wr("clients"), Wr("timestamp")>> \o PermsOfMembers \o <<R("g")>>

\* DelClient(c)
DelClientBody ==
  IF Fixed_F5
  THEN <<A("g"), Rd("clients"), Wr("clients"), Wr("timestamp")>> \o AutoLockKick \o <<R("g")>>
  ELSE <<A("g"), Rd("clients"), Wr("clients"), Wr("timestamp"), R("g")>> \o AutoLockKick

DelClient == DelClientBody

\* WhipClient.Close()
WhipClose ==
  IF Fixed_F4
  THEN <<A("wm"), Rd("wgroup"), Wr("wconn"), R("wm")>>
       \o (IF WhipConnected THEN <<A("g"), Rd("clients"), R("g")>> ELSE <<>>)
       \o DelClientBody \o <<A("wm"), Wr("wgroup"), R("wm")>>
  ELSE <<A("wm"), Rd("wgroup"), Wr("wconn")>>
       \o (IF WhipConnected THEN <<A("g"), Rd("clients"), R("g")>> ELSE <<>>)
       \o DelClientBody \o <<Wr("wgroup"), R("wm")>>

SetLocked == <<A("g"), Wr("locked"), Rd("clients"), R("g")>>

\* group.Shutdown: Range over groups (groups.mu held), SetLocked, kickall
\* kickall: g.Range holds g.mu while calling Kick on every member (the WHIP member's Kick is Close)
Shutdown ==
  <<A("groups"), Rd("groupsmap")>> \o SetLocked
  \o (IF Fixed_F8 THEN <<A("g"), Rd("clients"), R("g")>> \o WhipClose
      ELSE <<A("g"), Rd("clients")>> \o WhipClose \o <<R("g")>>)
  \o <<R("groups")>>

\* GetDescription(name): Get (groups.mu), then the cached description
GetDescription ==
  <<A("groups"), Rd("groupsmap"), R("groups")>>
  \o (IF Fixed_F18 THEN <<A("g"), Rd("desc"), R("g")>> ELSE <<Rd("desc")>>)

\* stats.GetGroups: GetNames (Range over groups), Get, GetClients
Stats == <<A("groups"), Rd("groupsmap"), R("groups"), A("groups"), Rd("groupsmap"), R("groups"),
           A("g"), Rd("clients"), R("g")>>

\* reload of a changed description (group.Add(name, desc) / Update)
Reload == AddGroup

\* chat history access: AddToChatHistory / ClearChatHistory, and what a join does with GetChatHistory (it walks the result
\* without any lock while it writes the replay to its socket)
History == <<A("g"), Rd("desc"), Wr("history"), R("g")>>
HistoryReplay ==
  IF History_Copy THEN <<A("g"), Rd("desc"), Rd("history"), R("g")>>
  ELSE <<A("g"), Rd("desc"), R("g"), Rd("history")>>

\* the last operator leaves an autokick group in which the WHIP client is a member: DelClient's autoLockKick decides to
\* kick everybody; the WHIP client's Kick is Close, which ends in DelClient
OpLeaves ==
  IF Async_Autokick
  THEN DelClientBody \o WhipClose          \* the kicks run in their own goroutine, after the critical section
  ELSE <<A("g"), Rd("clients"), Wr("clients"), Wr("timestamp")>> \o AutoLockKick \o WhipClose \o <<R("g")>>

Code(op) ==
  CASE op = "AddClient" -> AddClient
    [] op = "AddClient2" -> AddClient
    [] op = "DelClient" -> DelClient
    [] op = "WhipClose" -> WhipClose
    [] op = "SetLocked" -> SetLocked
    [] op = "Shutdown" -> Shutdown
    [] op = "GetDescription" -> GetDescription
    [] op = "Stats" -> Stats
    [] op = "Reload" -> Reload
    [] op = "History" -> History
    [] op = "HistoryReplay" -> HistoryReplay
    [] op = "OpLeaves" -> OpLeaves

VARIABLES pc,     \* op -> index of the next instruction (Len+1 = finished)
          holder  \* lock -> op holding it, or "none"

vars == <<pc, holder>>
LockNames == {"groups", "g", "wm"}

Init == /\ \E S \in SUBSET Running :
             /\ Cardinality(S) <= MaxConc /\ Cardinality(S) >= 2
             /\ pc = [o \in Running |-> IF o \in S THEN 1 ELSE Len(Code(o)) + 1]
        /\ holder = [l \in LockNames |-> "none"]

Done(o) == pc[o] > Len(Code(o))
Instr(o) == Code(o)[pc[o]]

Step(o) ==
  /\ ~Done(o)
  /\ LET i == Instr(o) IN
     CASE i[1] = "acq" -> /\ holder[i[2]] = "none"
                          /\ holder' = [holder EXCEPT ![i[2]] = o]
       [] i[1] = "rel" -> /\ holder' = [holder EXCEPT ![i[2]] = "none"]
       [] OTHER -> UNCHANGED holder
  /\ pc' = [pc EXCEPT ![o] = @ + 1]

Next == \E o \in Running : Step(o)
\* termination is not a deadlock
Terminated == \A o \in Running : Done(o)
NextOrDone == Next \/ (Terminated /\ UNCHANGED vars)
Spec == Init /\ [][NextOrDone]_vars

Held(o) == {l \in LockNames : holder[l] = o}
IsAccess(o) == ~Done(o) /\ Instr(o)[1] \in {"rd", "wr"}

\* D2: lockset discipline
NoRace ==
  \A o1, o2 \in Running :
    (o1 # o2 /\ IsAccess(o1) /\ IsAccess(o2)
       /\ Instr(o1)[2] = Instr(o2)[2]
       /\ (Instr(o1)[1] = "wr" \/ Instr(o2)[1] = "wr"))
    => Held(o1) \cap Held(o2) # {}

\* release only what is held (sanity of the transcription)
WellFormed == \A o \in Running : (~Done(o) /\ Instr(o)[1] = "rel") => holder[Instr(o)[2]] = o
=============================================================================
