---------------------------- MODULE MC_Recorder ----------------------------
EXTENDS Recorder
\* 6 packets: frame 1 = {1,2} keyframe, frame 2 = {3}, frame 3 = {4,5} keyframe, frame 4 = {6}
MCFrameOf == <<1, 1, 2, 3, 3, 4>>
MCKF == {1, 3}
\* audio: every packet is a frame of its own, and every frame can start a recording
MCFrameOfAudio == <<1, 2, 3, 4, 5, 6>>
MCKFAudio == {1, 2, 3, 4, 5, 6}
=============================================================================
