------------------------------- MODULE Queue -------------------------------
(***************************************************************************)
(* C13 (action-queue part): unbounded.Channel (unbounded/unbounded.go).    *)
(*   Put:  lock; empty := len(queue)=0; append; unlock     -- step "put"   *)
(*         if empty { select { case Ch <- {}: default: } } -- step "sig"   *)
(*   consumer (client loop): <-Ch                          -- step "wait"  *)
(*                           Get(): lock; take all; unlock -- step "get"   *)
(*   Get may also be called unsolicited ("may be called at any time").     *)
(* Each instruction between two synchronisation points is one action, so   *)
(* TLC explores every interleaving of producers and the consumer; the same *)
(* step names are the hook points at which the real code is gated when the *)
(* schedules are replayed.                                                 *)
(* Switch Signal_Always = FALSE is the code; the property does not depend  *)
(* on it.  Lossy = TRUE models a Put that forgets the signal (for the      *)
(* self-test that the liveness/Q2 check has teeth).                        *)
(***************************************************************************)
EXTENDS Integers, Sequences, FiniteSets, TLC

CONSTANTS Prod,        \* set of producers
          NItems,      \* items per producer
          Lossy,
          Unsolicited  \* allow Get without a wake-up

VARIABLES queue,   \* Channel.queue
          ch,      \* number of tokens in Channel.Ch (capacity 1)
          pc,      \* producer -> "put" | "sig" | "done"
          pe,      \* producer -> value of `empty` read under the lock
          pn,      \* producer -> number of items already appended
          cpc,     \* consumer: "wait" | "get"
          got,     \* sequence of items returned by Get, in order
          order    \* ghost: items in the order their appends were linearised

vars == <<queue, ch, pc, pe, pn, cpc, got, order>>

Item(p, k) == <<p, k>>

Init == /\ queue = <<>> /\ ch = 0
        /\ pc = [p \in Prod |-> "put"] /\ pe = [p \in Prod |-> FALSE] /\ pn = [p \in Prod |-> 0]
        /\ cpc = "wait" /\ got = <<>> /\ order = <<>>

PutStep(p) == /\ pc[p] = "put" /\ pn[p] < NItems
              /\ pe' = [pe EXCEPT ![p] = (queue = <<>>)]
              /\ queue' = Append(queue, Item(p, pn[p] + 1))
              /\ order' = Append(order, Item(p, pn[p] + 1))
              /\ pn' = [pn EXCEPT ![p] = @ + 1]
              /\ pc' = [pc EXCEPT ![p] = "sig"]
              /\ UNCHANGED <<ch, cpc, got>>

SigStep(p) == /\ pc[p] = "sig"
              /\ ch' = IF pe[p] /\ ~Lossy /\ ch = 0 THEN 1 ELSE ch
              /\ pc' = [pc EXCEPT ![p] = IF pn[p] < NItems THEN "put" ELSE "done"]
              /\ UNCHANGED <<queue, pe, pn, cpc, got, order>>

Wait == /\ cpc = "wait" /\ ch = 1
        /\ ch' = 0 /\ cpc' = "get"
        /\ UNCHANGED <<queue, pc, pe, pn, got, order>>

GetStep == /\ cpc = "get"
           /\ got' = got \o queue /\ queue' = <<>> /\ cpc' = "wait"
           /\ UNCHANGED <<ch, pc, pe, pn, order>>

Unsol == /\ Unsolicited /\ cpc = "wait" /\ queue # <<>>
         /\ got' = got \o queue /\ queue' = <<>>
         /\ UNCHANGED <<ch, pc, pe, pn, cpc, order>>

Next == (\E p \in Prod : PutStep(p) \/ SigStep(p)) \/ Wait \/ GetStep \/ Unsol

Spec == Init /\ [][Next]_vars
FairSpec == Spec /\ WF_vars(Wait) /\ WF_vars(GetStep) /\ \A p \in Prod : WF_vars(PutStep(p) \/ SigStep(p))

IsPrefix(a, b) == Len(a) <= Len(b) /\ SubSeq(b, 1, Len(a)) = a

\* Q1: exactly once, in queue order (which refines each producer's order)
Q1 == /\ IsPrefix(got, order)
      /\ got \o queue = order

\* Q2: no lost wake-up -- whenever something is queued, a wake-up is pending, being
\* consumed, or still going to be sent
Q2 == queue # <<>> =>
        \/ ch = 1 \/ cpc = "get"
        \/ \E p \in Prod : pc[p] = "sig" /\ pe[p]

\* liveness: everything put is eventually got
AllDelivered == <>[](Len(got) = Cardinality(Prod) * NItems)
=============================================================================
