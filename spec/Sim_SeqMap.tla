---------------------------- MODULE Sim_SeqMap ----------------------------
(* Behaviour generator: SeqMap at mid-size constants with a history variable *)
(* printed as JSON when the behaviour reaches SimDepth.  Used with           *)
(* `tlc -simulate`; the behaviours (offset, want-drop) are legal arrival     *)
(* histories at any constants and are replayed on the real packetmap.Map and *)
(* through the real rtpDownTrack.Write.                                      *)
EXTENDS SeqMap, Json

CONSTANTS SimDepth
VARIABLES hist, t0

SimInit == Init /\ hist = <<>> /\ t0 = g.tn

SimArrive(off, wd) == /\ Arrive(off, wd)
                      /\ hist' = Append(hist, <<off, IF wd THEN 1 ELSE 0>>)
                      /\ UNCHANGED t0

SimNext ==
  \/ /\ ~g.started /\ \E wd \in BOOLEAN : SimArrive(1, wd)
  \/ /\ g.started /\ \E off \in (1 - W)..(W + 1), wd \in BOOLEAN : SimArrive(off, wd)
  \/ /\ g.started /\ \E k \in 1..(2 * W), wd \in BOOLEAN : SimArrive(1, wd)

\* TLC evaluates invariants on every successor it generates, not only on the one the
\* simulator picks; printing only for one canonical last step yields one line per behaviour
Emit == (Len(hist) = SimDepth /\ hist[SimDepth] = <<1, 0>>)
           => PrintT(<<"BEH", ToJson([start |-> t0, ops |-> hist])>>)
=============================================================================
