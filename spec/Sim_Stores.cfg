CONSTANTS
  Tok = {"t1", "t2", "t3"}
  Val = {1, 2, 3}
  Editors = {"e1", "e2"}
  MaxVer = 1000
  SimDepth = 14
INIT SimInit
NEXT SimNext
INVARIANTS Emit E1 E2 E3 E4
