SPECIFICATION Spec
CONSTANTS
  Clients = {"P", "A", "B"}
  Groups = {"g", "h"}
  Ids = {"s1", "s2"}
  MaxSteps = 5
INVARIANTS MonitorAccepts MonitorTracks OfferedIffRequested NothingHeldOfEndedStreams
VIEW View
CHECK_DEADLOCK FALSE
