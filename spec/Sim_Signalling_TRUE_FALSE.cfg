CONSTANTS
  Clients = {"A", "B", "C", "D"}
  Groups = {"g", "h"}
  AllowRec = TRUE
  Unrestricted = FALSE
  Fixed_F2 = TRUE
  Fixed_F10 = TRUE
  Fixed_F11 = TRUE
  MaxSteps = 1000
  SimDepth = 30
INIT SimInit
NEXT SimNext
INVARIANTS Emit2 PropertyHolds Consistent
