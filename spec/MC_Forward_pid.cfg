\* C02 picture ids under whole-frame drops (VP8-like): layer state machine, exhaustive over packet flag sequences x feedback x limitSid
CONSTANTS
  M = 4
  W = 1
  MaxEntries = 1
  PM = 4
  PidM = 4
  Fixed_F9 = TRUE
  Fixed_F12 = TRUE
  Fixed_F1 = TRUE
  MaxT = 1
  MaxS = 0
  TwoPkt = TRUE
  LateOK = FALSE
  NackOK = FALSE
  MaxHi = 1000000
  Known_F17 = FALSE
INIT Init
NEXT Next
INVARIANTS PropertyHolds LayerTypeOK
VIEW ViewNoHist
