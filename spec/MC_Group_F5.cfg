\* C10: 2 operators + 2 non-operators, every description, reloads, all interleavings
CONSTANTS
  Ops = {"o1", "o2"}
  Users = {"u1", "u2"}
  Configs <- CfgsSmall
  Fixed_F5 = FALSE
INIT InitAll
NEXT Next
INVARIANTS PropertyHolds
