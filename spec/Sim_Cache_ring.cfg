\* dense ring/resize behaviours around seqno 0 at the real modulus (small capacities, offsets -1..3)
CONSTANTS
  M = 65536
  BitmapW = 32
  GetW = 17
  LateT = 256
  Fixed_F20 = TRUE
  Fixed_F26 = TRUE
  NackHorizon = 45
  Caps = {1, 2, 3, 4, 8}
  Ids = {1, 2}
  Offs <- OffsRingSim
  KFs = {FALSE}
  MaxPackets = 2
  Unnacked = 2
  MaxHi = 0
  Starts = {0, 65535, 65534}
  SimDepth = 14
INIT SimInit
NEXT SimNext
INVARIANTS Emit PropertyHolds
