---------------------------- MODULE ForwardOps ----------------------------
(***************************************************************************)
(* Layer I of the forwarding path of one receiver                          *)
(* (rtpconn/rtpconn.go: rtpDownTrack.Write, adjustLayer, replaceTracks'    *)
(* deferred limitSid update, gotNACK; codecs.RewritePacket's arithmetic).  *)
(* L mirrors the packed layerInfo word: sid, wantedSid, maxSid, tid,       *)
(* wantedTid, maxTid, limitSid.  A packet is a record of the flags that    *)
(* codecs.PacketFlags extracts plus its seqno:                             *)
(*   [seq, pid, tid, sid, start, end, kf, tidup, nonref, marker]           *)
(***************************************************************************)
EXTENDS Integers, Sequences

CONSTANTS M, W, MaxEntries, PM, Fixed_F9, Fixed_F12,
          Fixed_F1    \* TRUE: Write negates packetmap's pid delta before RewritePacket adds it

INSTANCE SeqMapOps

InitLayer == [sid |-> 0, wantedSid |-> 0, maxSid |-> 0,
              tid |-> 0, wantedTid |-> 0, maxTid |-> 0, limitSid |-> FALSE]

\* adjustLayer with the comparison of the rate estimate against the ceiling abstracted to
\* dir \in {"up", "down", "none"} (it depends on a clock-driven estimate)
AdjustOp(L, dir) ==
  IF dir = "up"
  THEN IF L.limitSid /\ L.wantedSid # 0 THEN [L EXCEPT !.wantedSid = 0]
       ELSE IF ~L.limitSid /\ L.sid < L.maxSid THEN [L EXCEPT !.wantedSid = L.sid + 1]
       ELSE IF L.tid < L.maxTid THEN [L EXCEPT !.wantedTid = L.tid + 1]
       ELSE L
  ELSE IF dir = "down"
  THEN IF L.tid > 0 THEN [L EXCEPT !.wantedTid = L.tid - 1]
       ELSE IF L.sid > 0 THEN [L EXCEPT !.wantedSid = IF L.limitSid THEN 0 ELSE L.sid - 1]
       ELSE L
  ELSE L

\* the deferred function of replaceTracks
LimitOp(L, lim) == [L EXCEPT !.limitSid = lim, !.wantedSid = IF lim THEN 0 ELSE @]

\* the layer bookkeeping at the top of Write
LayerStep(L, f, dir) ==
  LET La == IF f.tid > L.maxTid
            THEN IF L.tid = L.maxTid
                 THEN [L EXCEPT !.wantedTid = f.tid, !.tid = f.tid, !.maxTid = f.tid]
                 ELSE [L EXCEPT !.maxTid = f.tid]
            ELSE L
      Lb == IF f.sid > La.maxSid
            THEN IF La.sid = La.maxSid /\ ~La.limitSid
                 THEN [La EXCEPT !.wantedSid = f.sid, !.sid = f.sid, !.maxSid = f.sid]
                 ELSE [La EXCEPT !.maxSid = f.sid]
            ELSE La
      L1 == IF f.tid > L.maxTid \/ f.sid > L.maxSid THEN AdjustOp(Lb, dir) ELSE L
      L2 == IF f.start /\ L1.tid # L1.wantedTid
            THEN IF f.kf THEN [L1 EXCEPT !.tid = L1.wantedTid]
                 ELSE IF L1.wantedTid < L1.tid THEN [L1 EXCEPT !.tid = L1.wantedTid]
                 ELSE IF f.tidup /\ f.tid <= L1.wantedTid THEN [L1 EXCEPT !.tid = f.tid]
                 ELSE L1
            ELSE L1
      L3 == IF f.start /\ L2.sid # L2.wantedSid /\ f.kf THEN [L2 EXCEPT !.sid = L2.wantedSid] ELSE L2
  IN L3

WantDrop(L, f) == f.tid > L.tid \/ f.sid > L.sid \/ (f.sid < L.sid /\ f.nonref)

\* rtpDownTrack.Write for one packet.
\* pidm: modulus of the picture id carried by the stream (2^7 or 2^15; 0 = not rewritten)
\* Result [L, m, res \in {"D","F","X"}, out, marker, pid]
WriteOp(L, m, f, dir, pidm) ==
  LET L3 == LayerStep(L, f, dir)
      wd == WantDrop(L3, f)
      dr == IF wd THEN DropOp(m, f.seq, f.pid) ELSE [m |-> m, ok |-> FALSE]
  IN IF dr.ok THEN [L |-> L3, m |-> dr.m, res |-> "D", out |-> 0, marker |-> FALSE, pid |-> 0]
     ELSE LET mp == MapOp(dr.m, f.seq, f.pid)
              setMarker == f.sid = L3.sid /\ f.end /\ ~f.marker
          IN IF ~mp.ok
             THEN [L |-> L3, m |-> mp.m, res |-> "X", out |-> 0, marker |-> FALSE, pid |-> 0]
             ELSE [L |-> L3, m |-> mp.m, res |-> "F", out |-> mp.out,
                   marker |-> f.marker \/ setMarker,
                   pid |-> IF pidm = 0 THEN f.pid
                           ELSE IF Fixed_F1 THEN (f.pid - mp.pd) % pidm ELSE (f.pid + mp.pd) % pidm]
=============================================================================
