------------------------------ MODULE Trace_Rec ------------------------------
(***************************************************************************)
(* Validates executed recorder histories (C20).  The logged operations     *)
(* drive RecOps!WriteF (what the sample builder must have been given);     *)
(* when the recording is closed, the samples parsed back from the file(s)  *)
(* are judged against the frames that were sent:                           *)
(*   R1 every sample is byte-identical to a sent frame (by hash + length)  *)
(*   R2 per track, frame numbers strictly increase (no duplicate, in order)*)
(*   R3 per track, time codes never decrease and their differences equal   *)
(*      the RTP timestamp differences                                      *)
(*   R4 nothing lost for good => every complete frame from the first       *)
(*      complete keyframe on is there (video always; audio when recorded   *)
(*      alone)                                                             *)
(*   R5 the file parses, declares exactly the recorded tracks, and with    *)
(*      sender reports audio and video share the capture clock             *)
(*   R6 closing (stop or departure) detaches the recorder and leaves a     *)
(*      complete file                                                      *)
(***************************************************************************)
EXTENDS RecOps, Json
CONSTANTS TraceFile
Trace == ndJsonDeserialize(TraceFile)
VARIABLES l, nbeh, nbad, nsoft, done, tk
\* nsoft: soft clause -> how often it was met (each has its own print budget of 4)
vars == <<l, nbeh, nbad, nsoft, done, tk>>
Init == l = 1 /\ nbeh = 0 /\ nbad = 0 /\ nsoft = <<>> /\ done = FALSE /\ tk = <<>>
Ev == Trace[l]
\* the known finding and the merely counted clause must not use up the print budget of real failures
Soft(v) == v \in {"K1_truncated_frame_after_its_first_packet_arrived_late", "N20_keyframe_flag_differs",
                 "K3_audio_track_absent_from_an_audio_video_recording"}
Report(v) == /\ nbad' = IF v # "ok" /\ ~Soft(v) THEN nbad + 1 ELSE nbad
             /\ nsoft' = IF Soft(v) THEN [x \in DOMAIN nsoft \cup {v} |-> IF x = v THEN (IF v \in DOMAIN nsoft THEN nsoft[v] ELSE 0) + 1 ELSE nsoft[x]] ELSE nsoft
             /\ (v # "ok" /\ ~Soft(v) /\ nbad < 200 => PrintT(<<"TRACE-BAD", l, nbeh, v>>))
             /\ (Soft(v) /\ (v \notin DOMAIN nsoft \/ nsoft[v] < 4) => PrintT(<<"TRACE-BAD", l, nbeh, v>>))
First(vs) == LET b == SelectSeq(vs, LAMBDA x : x # "ok") IN IF b = <<>> THEN "ok" ELSE b[1]
Abs(x) == IF x < 0 THEN -x ELSE x

TNew == /\ Ev.ev = "New" /\ nbeh' = nbeh + 1 /\ tk' = <<>> /\ UNCHANGED <<nbad, nsoft>>
TTrack == /\ Ev.ev = "track"
          /\ tk' = Append(tk, [kind |-> Ev.kind, codec |-> Ev.codec, clock |-> Ev.clock, frameof |-> Ev.frameof, frames |-> Ev.frames,
                              kf |-> {i \in 1..Len(Ev.frames) : Ev.frames[i].kf = 1 \/ Ev.kind = "audio"},
                              last |-> 0, has |-> {}, cached |-> {}, lost |-> FALSE, lostp |-> {}, lates |-> {}, fw |-> 0])
          /\ UNCHANGED <<nbeh, nbad, nsoft>>
TOp == /\ Ev.ev = "op"
       /\ LET t == Ev.t + 1
              s == tk[t]
              p == Ev.p
          IN tk' = CASE Ev.op \in {"D", "L", "U"} ->
                        LET r == WriteF(s.last, s.has, p, s.cached) IN
                        [tk EXCEPT ![t] = [s EXCEPT !.last = r.last, !.has = r.has, !.cached = @ \cup {p},
                                                    !.lates = IF Ev.op = "L" THEN @ \cup {p} ELSE @,
                                                    !.fw = IF @ = 0 THEN p ELSE @]]
                     [] Ev.op = "S" -> [tk EXCEPT ![t] = [s EXCEPT !.cached = @ \cup {p}]]
                     [] Ev.op = "X" -> [tk EXCEPT ![t] = [s EXCEPT !.lost = TRUE, !.lostp = @ \cup {p}]]
                     [] OTHER -> tk
       /\ UNCHANGED <<nbeh, nbad, nsoft>>

\* the frame (1-based) of track t whose hash and length a sample carries, 0 if none
FrameIdx(t, smp) == LET fs == tk[t].frames
                        m == {i \in 1..Len(fs) : fs[i].hash = smp.hash /\ fs[i].len = smp.len}
                    IN IF m = {} THEN 0 ELSE CHOOSE i \in m : TRUE
IsVideoCodec(c) == c \in {"V_VP8", "V_VP9", "V_MPEG4/ISO/AVC"}
\* the model's track behind a file's track number
TrackOf(f, num) == LET e == CHOOSE e \in {f.tracks[i] : i \in 1..Len(f.tracks)} : e.num = num
                       want == IF IsVideoCodec(e.codec) THEN "video" ELSE "audio"
                   IN CHOOSE t \in 1..Len(tk) : tk[t].kind = want
JudgeFile(f) ==
  LET nums == {f.tracks[i].num : i \in 1..Len(f.tracks)}
      Smp(num) == SelectSeq(f.samples, LAMBDA s : s.track = num)
      known == \A i \in 1..Len(f.samples) : f.samples[i].track \in nums
      Idx(num) == LET t == TrackOf(f, num) ss == Smp(num) IN [i \in 1..Len(ss) |-> FrameIdx(t, ss[i])]
      r1 == \A num \in nums : \A i \in 1..Len(Smp(num)) : Idx(num)[i] # 0
      FirstPkt(t, fr) == CHOOSE p \in PktsOfF(tk[t].frameof, fr) : \A q \in PktsOfF(tk[t].frameof, fr) : p <= q
      \* K1 (jech/samplebuilder.pop miscounts a frame that straddles the end of its ring): every unmatched sample is a whole-packets
      \* proper prefix of a frame that was sent, and there are no more of them than the ring can produce -- one per late arrival
      \* (a late packet is stored before index 0, i.e. at the end of the ring) plus one per 400 packets (the ring has 513 slots)
      k1 == \A num \in nums : LET t == TrackOf(f, num) ss == Smp(num)
                                  trunc == {i \in 1..Len(ss) : Idx(num)[i] = 0}
              IN /\ \A i \in trunc : ss[i].prefix_of > 0
                 /\ Cardinality(trunc) <= 1 + Cardinality(tk[t].lates) + (Len(tk[t].frameof) \div 400)
      r2 == r1 => \A num \in nums : \A i \in 1..(Len(Smp(num)) - 1) : Idx(num)[i] < Idx(num)[i + 1]
      r3a == \A num \in nums : \A i \in 1..(Len(Smp(num)) - 1) : Smp(num)[i].tc <= Smp(num)[i + 1].tc
      \* time-code differences = RTP differences (the first sample of the track as reference), 1 ms of rounding
      r3b == r1 => \A num \in nums : LET t == TrackOf(f, num) ss == Smp(num) ix == Idx(num) per == tk[t].clock \div 1000 IN
               \A i \in 1..Len(ss) : Abs((ss[i].tc - ss[1].tc) * per - (tk[t].frames[ix[i]].rel - tk[t].frames[ix[1]].rel)) <= 2 * per
      decl == /\ Len(f.tracks) = Len(tk)
              /\ \A t \in 1..Len(tk) : \E i \in 1..Len(f.tracks) :
                    (tk[t].kind = "audio" /\ f.tracks[i].codec = "A_OPUS" /\ f.tracks[i].type = 2)
                    \/ (tk[t].kind = "video" /\ f.tracks[i].type = 1
                        /\ f.tracks[i].codec = (CASE tk[t].codec = "vp8" -> "V_VP8" [] tk[t].codec = "vp9" -> "V_VP9" [] OTHER -> "V_MPEG4/ISO/AVC"))
      kfflag == r1 => \A num \in nums : LET t == TrackOf(f, num) ss == Smp(num) ix == Idx(num) IN
                  tk[t].kind = "video" => \A i \in 1..Len(ss) : (ss[i].kf = 1) = (tk[t].frames[ix[i]].kf = 1)
  IN First(<<
       IF f.err # "" THEN "C20_R5_file_does_not_parse" ELSE "ok",
       IF ~decl \/ ~known THEN "C20_R5_declared_tracks_differ_from_the_recorded_ones" ELSE "ok",
       \* known finding K1 (jech/samplebuilder): the only unmatched samples are whole-packet prefixes of frames whose FIRST packet arrived late
       IF ~r1 /\ k1 THEN "K1_truncated_frame_after_its_first_packet_arrived_late" ELSE "ok",
       IF ~r1 THEN "C20_R1_sample_is_not_a_frame_that_was_sent" ELSE "ok",
       IF ~r2 THEN "C20_R2_frame_written_twice_or_out_of_order" ELSE "ok",
       IF ~r3a THEN "C20_R3_time_codes_decrease_within_a_track" ELSE "ok",
       IF ~r3b THEN "C20_R3_time_code_differences_do_not_match_the_rtp_timestamps" ELSE "ok",
       \* (not part of the property: a key frame flagged as an ordinary one only costs a seek point)
       IF ~kfflag THEN "N20_keyframe_flag_differs" ELSE "ok">>)
\* frames of model track t present in any file
Present(t, files) == UNION {{FrameIdx(t, files[k].samples[i]) : i \in 1..Len(files[k].samples)} : k \in 1..Len(files)} \ {0}
\* shared capture clock (only judged when x.sync = 1): time codes relative to the first video sample = capture offsets
SyncOK(f, tol) ==
  LET vnum == {f.tracks[i].num : i \in {j \in 1..Len(f.tracks) : IsVideoCodec(f.tracks[j].codec)}}
      vs == SelectSeq(f.samples, LAMBDA s : s.track \in vnum)
  IN vs = <<>> \/
     LET tv == TrackOf(f, vs[1].track)
         v0 == FrameIdx(tv, vs[1])
         Cap(t, i) == (tk[t].frames[i].rel * 10) \div (tk[t].clock \div 100)      \* ms since T0
     IN \A i \in 1..Len(f.samples) : LET s == f.samples[i] t == TrackOf(f, s.track) ix == FrameIdx(t, s) IN
          ix = 0 \/ v0 = 0 \/ Abs((s.tc - vs[1].tc) - (Cap(t, ix) - Cap(tv, v0))) <= tol

TFiles ==
  /\ Ev.ev = "files"
  /\ LET e == Ev
         fileverdicts == [k \in 1..Len(e.files) |-> JudgeFile(e.files[k])]
         hasvideo == \E t \in 1..Len(tk) : tk[t].kind = "video"
         r4 == \A t \in 1..Len(tk) :
                 (tk[t].kind = "video" \/ ~hasvideo) =>
                    (MustF(tk[t].frameof, tk[t].kf, tk[t].has, tk[t].lost, tk[t].fw) \cup
                       (IF tk[t].kind = "video" THEN MustAfterF(tk[t].frameof, tk[t].kf, tk[t].has, tk[t].lostp, tk[t].fw) ELSE {}))
                      \subseteq Present(t, e.files)
         parsed == \A k \in 1..Len(e.files) : e.files[k].err = "" /\ Len(e.files[k].tracks) > 0
         \* known finding K3: an audio+video recording from which the audio track is absent altogether although more than 40
         \* audio packets were written to the recorder (seen with sender reports and cache-only packets at the head; not triaged)
         k3 == hasvideo /\ \E t \in 1..Len(tk) : tk[t].kind = "audio" /\ Cardinality(tk[t].has) > 40 /\ Present(t, e.files) = {}
     IN Report(First(fileverdicts \o <<
          IF parsed /\ k3 THEN "K3_audio_track_absent_from_an_audio_video_recording" ELSE "ok",
          IF parsed /\ ~r4 THEN "C20_R4_recoverable_frame_after_the_first_keyframe_is_missing" ELSE "ok",
          IF e.locals_left = 1 THEN "C20_R6_recorder_still_attached_to_the_publisher_after_closing" ELSE "ok",
          IF parsed /\ e.x.sync = 1 /\ \E k \in 1..Len(e.files) : ~SyncOK(e.files[k], e.x.tol) THEN "C20_R5_audio_and_video_do_not_share_one_time_origin" ELSE "ok">>))
  /\ UNCHANGED <<nbeh, tk>>
TPanic == /\ Ev.ev \in {"panic", "harness-error"} /\ Report(IF Ev.ev = "panic" THEN "C12_R4_recorder_panicked" ELSE "ok") /\ UNCHANGED <<nbeh, tk>>
Step == /\ l <= Len(Trace) /\ (TNew \/ TTrack \/ TOp \/ TFiles \/ TPanic)
        /\ l' = l + 1 /\ UNCHANGED done
RECURSIVE SumMin4(_, _)
SumMin4(f, D) == IF D = {} THEN 0 ELSE LET x == CHOOSE x \in D : TRUE IN (IF f[x] > 4 THEN 4 ELSE f[x]) + SumMin4(f, D \ {x})
SoftPrinted == SumMin4(nsoft, DOMAIN nsoft)
Finish == /\ l = Len(Trace) + 1 /\ ~done /\ done' = TRUE
          /\ PrintT(<<"TRACE-DONE", l - 1, nbeh, 0, (IF nbad > 200 THEN 200 ELSE nbad) + SoftPrinted>>)
          /\ UNCHANGED <<l, nbeh, nbad, nsoft, tk>>
Next == Step \/ Finish
Spec == Init /\ [][Next]_vars
=============================================================================
