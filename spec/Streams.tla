------------------------------- MODULE Streams -------------------------------
(***************************************************************************)
(* C07: publication and subscription of streams (rtpconn/webclient.go:     *)
(* gotOffer / pushConn / pushDownConn / requestedTracks / delUpConn /      *)
(* closeDownConn, rtpconn.go: pushConnNow), one action per client          *)
(* stimulus, each with the messages the server sends in reaction (Layer I).*)
(* Every reaction is fed to StrMonitor (Layer P); the invariant is that    *)
(* the monitor never objects and that at quiescence every member holds     *)
(* exactly what it requested -- so the monitor that judges the real        *)
(* server is itself checked against the design.  srv is the server's       *)
(* truth, ms the monitor's state built from the messages alone.            *)
(***************************************************************************)
EXTENDS StrMonitor, TLC, Json

CONSTANTS Clients, Groups, Ids, MaxSteps

Labels == {"camera", "screenshare"}
Shapes == {<<1, 0>>, <<1, 1>>, <<1, 2>>, <<0, 2>>}      \* audio, video tracks of a publication
TracksOf(sh) == [i \in 1..sh[1] |-> <<"audio", "a">>] \o [i \in 1..sh[2] |-> <<"video", IF i = 1 THEN "v0" ELSE "v1">>]
Reqs == { <<>>,
          [x \in {""} |-> {"audio", "video"}],
          [x \in {""} |-> {"audio"}],
          [x \in {"camera", "screenshare"} |-> IF x = "camera" THEN {"video-low"} ELSE {"audio", "video"}],
          [x \in {"", "camera"} |-> IF x = "" THEN {"video"} ELSE {}] }

VARIABLES srv, ms, nsteps, hist
vars == <<srv, ms, nsteps, hist>>

\* srv: grp (c -> group or ""), req, sreq, live (id -> [owner,label,tracks]), down (<<c,id>> -> tracks)
Init == /\ srv = [grp |-> [c \in Clients |-> ""], req |-> [c \in Clients |-> <<>>], sreq |-> <<>>, live |-> <<>>, down |-> <<>>]
        /\ ms = InitStr /\ nsteps = 0 /\ hist = <<>>

SKinds(v, c, id) == LET l == v.live[id].label r == v.req[c] IN
  IF Has(v.sreq, <<c, id>>) THEN v.sreq[<<c, id>>] ELSE IF Has(r, l) THEN r[l] ELSE IF Has(r, "") THEN r[""] ELSE {}
SWant(v, c, id) == LET o == v.live[id].owner IN
  IF c = o \/ v.grp[c] = "" \/ v.grp[c] # v.grp[o] THEN <<>> ELSE Select(SKinds(v, c, id), v.live[id].tracks)
Members(v, g) == {c \in Clients : v.grp[c] = g}

Msg(t, id, src, lbl, trk, rep) == [type |-> t, kind |-> "", id |-> id, source |-> src, username |-> src, label |-> lbl, tracks |-> trk, group |-> "", replace |-> rep]

\* pushDownConn for subscriber c and live stream id (replace: the stream it replaces, or ""): the new server state and the message
Push(v, c, id, rep) ==
  LET w == SWant(v, c, id) IN
  IF w = <<>> THEN [v |-> [v EXCEPT !.down = Del(@, {<<c, id>>, <<c, rep>>}), !.sreq = Del(@, {<<c, id>>})], out |-> <<[c |-> c, m |-> Msg("close", id, "", "", <<>>, "")]>>]
  ELSE IF Has(v.down, <<c, id>>) /\ v.down[<<c, id>>] = w THEN [v |-> v, out |-> <<>>]
  ELSE [v |-> [v EXCEPT !.down = Put(Del(@, {<<c, rep>>}), <<c, id>>, w)],
        out |-> <<[c |-> c, m |-> Msg("offer", id, v.live[id].owner, v.live[id].label, w, rep)]>>]

RECURSIVE PushAll(_, _, _, _)
\* push stream id to every client of the sequence cs
PushAll(v, cs, id, rep) ==
  IF cs = <<>> THEN [v |-> v, out |-> <<>>]
  ELSE LET r == Push(v, cs[1], id, rep) r2 == PushAll(r.v, Tail(cs), id, rep) IN [v |-> r2.v, out |-> r.out \o r2.out]
RECURSIVE PushStreams(_, _, _)
PushStreams(v, c, ids) ==
  IF ids = <<>> THEN [v |-> v, out |-> <<>>]
  ELSE LET r == Push(v, c, ids[1], "") r2 == PushStreams(r.v, c, Tail(ids)) IN [v |-> r2.v, out |-> r.out \o r2.out]
SeqOf(S) == LET RECURSIVE F(_) F(T) == IF T = {} THEN <<>> ELSE LET x == CHOOSE x \in T : TRUE IN <<x>> \o F(T \ {x}) IN F(S)

RECURSIVE Feed(_, _)
Feed(m, out) == IF out = <<>> THEN m ELSE Feed(MRecv(m, out[1].c, out[1].m), Tail(out))

StimMsg(t, id, lbl, trk, rep, rq, ks) == [type |-> t, id |-> id, label |-> lbl, tracks |-> trk, replace |-> rep, req |-> rq, kinds |-> ks]
Do(c, sm, v2, out, pre) ==
  /\ nsteps < MaxSteps /\ nsteps' = nsteps + 1
  /\ srv' = v2
  \* (the driver reports a publication complete once the statistics are stable, i.e. after the fan-out)
  /\ ms' = LET m1 == Feed(MStim(ms, c, sm), pre \o out)
               m2 == IF sm.type = "offer" THEN MStim(m1, "", StimMsg("complete", sm.id, "", <<>>, "", <<>>, {})) ELSE m1
           IN MSettle(m2)
  /\ hist' = Append(hist, [c |-> c, m |-> sm])

Join(c, g) ==
  /\ srv.grp[c] = ""
  /\ LET v1 == [srv EXCEPT !.grp[c] = g]
         others == SeqOf({id \in DOMAIN srv.live : srv.grp[srv.live[id].owner] = g})
         r == PushStreams(v1, c, others)
     IN Do(c, StimMsg("join", "", g, <<>>, "", <<>>, {}), r.v,
           r.out, <<[c |-> c, m |-> [Msg("joined", "", "", "", <<>>, "") EXCEPT !.kind = "join", !.group = g, !.username = c]]>>)
\* leave or disconnect: the streams of c end, everybody else in the group is sent a close for each
Leave(c) ==
  /\ srv.grp[c] # ""
  /\ LET g == srv.grp[c]
         mine == {id \in DOMAIN srv.live : srv.live[id].owner = c}
         v1 == [srv EXCEPT !.grp[c] = "", !.req[c] = <<>>, !.live = Del(@, mine),
                           !.down = Del(@, {k \in DOMAIN @ : k[1] = c \/ k[2] \in mine}), !.sreq = Del(@, {k \in DOMAIN @ : k[1] = c \/ k[2] \in mine})]
         out == [i \in 1..(Cardinality(mine) * Cardinality(Members(v1, g))) |->
                   LET ids == SeqOf(mine) cs == SeqOf(Members(v1, g)) n == Len(cs)
                   IN [c |-> cs[((i - 1) % n) + 1], m |-> Msg("close", ids[((i - 1) \div n) + 1], "", "", <<>>, "")]]
     IN Do(c, StimMsg("leave", "", "", <<>>, "", <<>>, {}), v1, out, <<>>)
Request(c, rq) ==
  /\ srv.grp[c] # "" /\ srv.req[c] # rq
  /\ LET v1 == [srv EXCEPT !.req[c] = rq]
         r == PushStreams(v1, c, SeqOf({id \in DOMAIN srv.live : srv.live[id].owner # c /\ srv.grp[srv.live[id].owner] = srv.grp[c]}))
     IN Do(c, StimMsg("request", "", "", <<>>, "", rq, {}), r.v, r.out, <<>>)
RequestStream(c, id, ks) ==
  /\ Has(srv.down, <<c, id>>)
  /\ LET v1 == [srv EXCEPT !.sreq = Put(@, <<c, id>>, ks)]
         r == Push(v1, c, id, "")
     IN Do(c, StimMsg("requestStream", id, "", <<>>, "", <<>>, ks), r.v, r.out, <<>>)
Publish(c, id, lbl, sh, rep) ==
  /\ srv.grp[c] # "" /\ ~Has(srv.live, id)
  /\ (rep = "" \/ (Has(srv.live, rep) /\ srv.live[rep].owner = c))
  /\ LET v1 == [srv EXCEPT !.live = Put(IF rep # "" THEN Del(@, {rep}) ELSE @, id, [owner |-> c, label |-> lbl, tracks |-> TracksOf(sh)])]
         r == PushAll(v1, SeqOf(Members(v1, srv.grp[c]) \ {c}), id, rep)
         \* a subscriber that takes nothing of the new stream is sent a close for the replaced one as well
         extra == IF rep = "" THEN <<>> ELSE
                  LET cs == SeqOf({x \in Members(v1, srv.grp[c]) \ {c} : SWant(v1, x, id) = <<>>}) IN
                  [i \in 1..Len(cs) |-> [c |-> cs[i], m |-> Msg("close", rep, "", "", <<>>, "")]]
     IN Do(c, StimMsg("offer", id, lbl, TracksOf(sh), rep, <<>>, {}), r.v, r.out \o extra,
           <<[c |-> c, m |-> Msg("answer", id, "", "", <<>>, "")]>>)
Unpublish(c, id) ==
  /\ Has(srv.live, id) /\ srv.live[id].owner = c
  /\ LET v1 == [srv EXCEPT !.live = Del(@, {id}), !.down = Del(@, {k \in DOMAIN @ : k[2] = id}), !.sreq = Del(@, {k \in DOMAIN @ : k[2] = id})]
         cs == SeqOf(Members(srv, srv.grp[c]) \ {c})
     IN Do(c, StimMsg("close", id, "", <<>>, "", <<>>, {}), v1, [i \in 1..Len(cs) |-> [c |-> cs[i], m |-> Msg("close", id, "", "", <<>>, "")]], <<>>)
Abort(c, id) ==
  /\ Has(srv.down, <<c, id>>)
  /\ Do(c, StimMsg("abort", id, "", <<>>, "", <<>>, {}), [srv EXCEPT !.down = Del(@, {<<c, id>>}), !.sreq = Del(@, {<<c, id>>})],
        <<[c |-> c, m |-> Msg("close", id, "", "", <<>>, "")]>>, <<>>)

Next == \/ \E c \in Clients, g \in Groups : Join(c, g)
        \/ \E c \in Clients : Leave(c)
        \/ \E c \in Clients, rq \in Reqs : Request(c, rq)
        \/ \E c \in Clients, id \in Ids, ks \in {{"audio"}, {"video-low"}, {}} : RequestStream(c, id, ks)
        \/ \E c \in Clients, id \in Ids, lbl \in Labels, sh \in Shapes, rep \in Ids \cup {""} : Publish(c, id, lbl, sh, rep)
        \/ \E c \in Clients, id \in Ids : Unpublish(c, id) \/ Abort(c, id)
Spec == Init /\ [][Next]_vars
View == <<srv, ms, nsteps>>

\* behaviours for the conformance harness (simulation mode): the stimuli of a complete run
Emit == nsteps = MaxSteps => PrintT(<<"BEH", ToJson(hist)>>)
\* the monitor never objects to the design's own reactions ...
MonitorAccepts == ms.bad = "ok"
\* ... and agrees with the server about who holds what
MonitorTracks == \A k \in DOMAIN srv.down : Has(ms.held, k) /\ SetOf(ms.held[k]) = SetOf(srv.down[k])
\* design-level C07 at quiescence: offered <=> requested, exactly the requested tracks, only inside the group
OfferedIffRequested ==
  \A c \in Clients, id \in DOMAIN srv.live :
     LET w == SWant(srv, c, id) IN
     IF w = <<>> THEN ~Has(srv.down, <<c, id>>)
     ELSE (Has(srv.down, <<c, id>>) => srv.down[<<c, id>>] = w)
NothingHeldOfEndedStreams == \A k \in DOMAIN srv.down : Has(srv.live, k[2]) /\ srv.grp[k[1]] = srv.grp[srv.live[k[2]].owner]
=============================================================================
