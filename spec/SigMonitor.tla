---------------------------- MODULE SigMonitor ----------------------------
(***************************************************************************)
(* Layer P of the signalling properties C08 (rights on join), C11          *)
(* (authorisation), C12 (liveness of the server and of bystanders), C14    *)
(* (membership views) and C15 (chat), over what is OBSERVABLE on the       *)
(* websockets: the stimuli a client sent and the messages every client     *)
(* received, in the order the driver observed them.  The driver is         *)
(* sequential: after each stimulus it waits until the server is quiet, so  *)
(* the messages between two stimuli are the effects of the first.          *)
(*                                                                         *)
(* A message is a record with the fixed fields                             *)
(*  type kind id source dest username hasuser privileged group perms value *)
(*  error noecho label replace tracks data request tok                     *)
(*  (tok = [g, perms, exp, sub, user] : the token a maketoken asks for;    *)
(*   clear = [user, id] : what a clearchat designates; seqno: the number n  *)
(*   of a chat whose id is "h<n>", else -1)                                 *)
(* Monitor state s:                                                        *)
(*  st[c]    "new" | "member" | "refused" | "left" | "closed"              *)
(*  grp[c] usr[c]  group and username the server assigned (from joined)    *)
(*  told[c]  permissions the server last told c it has (joined messages)   *)
(*  view[c]  user list c has built from user{add,change,delete}            *)
(*  cur      the stimulus whose effects are being observed, or None        *)
(*  hist[g]  broadcast chats the monitor saw being delivered, newest last  *)
(***************************************************************************)
EXTENDS Integers, Sequences, FiniteSets

\* s.exp : [group |-> [username |-> sequence of permissions]] -- C08's oracle for the fixture of the
\* current behaviour, computed from the Auth table of the spec; a username without entry of its
\* own maps through the key "*" (wildcard user)

None == [none |-> TRUE]
SetOfSeq(sq) == {sq[i] : i \in 1..Len(sq)}

\* pipe: the driver did not wait for quiescence between stimuli (clauses that need to know the
\* membership at the instant of a delivery are then not applied)
InitSig(exp) == [pipe |-> FALSE, st |-> <<>>, grp |-> <<>>, usr |-> <<>>, told |-> <<>>, view |-> <<>>,
                 cur |-> None, exp |-> exp,
                 hist |-> <<>>,    \* group -> sequence of [id, src, val] : broadcast chats in the history
                 hrecv |-> <<>>,   \* client -> sequence of [id, src, val] replayed to it since it joined
                 racing |-> {},    \* clients whose join was sent while others were chatting (marked by the driver)
                 maxage |-> <<>>]  \* group -> configured max-history-age in ms (absent: the default of 4 h)

HistMax == 50
DefaultAge == 14400000     \* group.DefaultMaxHistoryAge, ms
Far == 2000000000
\* the driver's clock around a stimulus: the server handled it no earlier than tlo and no later than thi
TLo(m) == IF "tlo" \in DOMAIN m THEN m.tlo ELSE 0
THi(m) == IF "thi" \in DOMAIN m THEN m.thi ELSE 0     \* no clock (the exhaustive model): every age is 0
IsSuffixOf(a, b) == Len(a) <= Len(b) /\ a = SubSeq(b, Len(b) - Len(a) + 1, Len(b))
LastN(sq, n) == IF Len(sq) <= n THEN sq ELSE SubSeq(sq, Len(sq) - n + 1, Len(sq))

Has(f, k) == k \in DOMAIN f
Get(f, k, d) == IF k \in DOMAIN f THEN f[k] ELSE d
Put(f, k, v) == [x \in DOMAIN f \cup {k} |-> IF x = k THEN v ELSE f[x]]

St(s, c) == Get(s.st, c, "new")
IsMember(s, c) == St(s, c) = "member"
Told(s, c) == Get(s.told, c, {})
Members(s, g) == {c \in DOMAIN s.st : s.st[c] = "member" /\ Get(s.grp, c, "") = g}

---------------------------------------------------------------------------
\* the permission a stimulus needs; "" = none; "member" = membership only
Required(m) ==
  CASE m.type = "offer" -> "present"
    [] m.type = "chat" /\ m.kind = "caption" -> "caption"
    [] m.type \in {"chat", "usermessage"} -> "message"
    [] m.type = "useraction" /\ m.kind \in {"op", "unop", "present", "unpresent", "shutup", "unshutup",
                                             "kick", "identify"} -> "op"
    [] m.type = "useraction" /\ m.kind = "setdata" -> "member"
    [] m.type = "groupaction" /\ m.kind \in {"lock", "unlock", "clearchat", "subgroups", "setdata"} -> "op"
    [] m.type = "groupaction" /\ m.kind \in {"record", "unrecord"} -> "record"
    [] m.type = "groupaction" /\ m.kind = "maketoken" -> "token"
    [] m.type = "groupaction" /\ m.kind \in {"edittoken", "listtokens"} -> "op+token"
    [] OTHER -> ""

Authorised(s, c, m) ==
  LET r == Required(m) IN
  IF r = "" THEN TRUE
  ELSE IsMember(s, c) /\
       (CASE r = "member" -> TRUE
          [] r = "op+token" -> {"op", "token"} \subseteq Told(s, c)
          [] OTHER -> r \in Told(s, c))

\* replies that merely tell the sender that it was refused
IsRefusalReply(m) ==
  \/ m.type = "usermessage" /\ m.kind \in {"error", "warning"}
  \/ m.type = "usermessage" /\ m.kind \in {"token", "tokenlist"} /\ m.error # ""
  \/ m.type = "abort"
  \/ m.type = "joined" /\ m.kind = "fail"

---------------------------------------------------------------------------
\* a stimulus was sent by c
OnSent(s, c, m) ==
  LET spoof == (m.source # "" /\ m.source # c)
               \/ (m.type # "join" /\ m.hasuser = 1 /\ m.username # Get(s.usr, c, ""))
      auth == Authorised(s, c, m)
      g == Get(s.grp, c, "")
      h0 == Get(s.hist, g, <<>>)
      h1 == IF ~auth \/ spoof THEN h0
            ELSE IF m.type = "chat" /\ m.dest = "" THEN LastN(Append(h0, [id |-> m.id, src |-> m.source, val |-> m.value, tlo |-> TLo(m), thi |-> THi(m)]), HistMax)
            ELSE IF m.type = "groupaction" /\ m.kind = "clearchat"
            THEN (IF m.clear.user = "" THEN <<>>
                  ELSE SelectSeq(h0, LAMBDA e : ~(e.src = m.clear.user /\ (m.clear.id = "" \/ e.id = m.clear.id))))
            ELSE h0
  IN [s EXCEPT !.cur = [c |-> c, m |-> m, auth |-> auth, spoof |-> spoof,
                        \* members of the sender's group when it sent (recipients of a broadcast)
                        mem |-> Members(s, g), got |-> {}],
               !.hist = IF g = "" THEN @ ELSE Put(@, g, h1),
               !.racing = IF m.type = "join" /\ m.kind = "join" /\ m.data # "" THEN @ \cup {c} ELSE @]

\* c sent raw text that is not a well-formed message (only its own connection may suffer)
OnSentRaw(s, c) ==
  [s EXCEPT !.cur = [c |-> c, auth |-> TRUE, spoof |-> FALSE, mem |-> {}, got |-> {},
                     m |-> [type |-> "raw", kind |-> "", id |-> "", source |-> "", dest |-> "", username |-> "", hasuser |-> 0,
                            value |-> "", noecho |-> 0, tok |-> [g |-> "", perms |-> <<>>, exp |-> 0, sub |-> 0, user |-> ""],
                            clear |-> [user |-> "", id |-> ""]]]]

\* c received message m.  Result [s, v]
OnRecv(s, c, m) ==
  LET cur == s.cur
      stim == cur # None
      \* ---- C11: an unauthorised or spoofed stimulus has no effect at all
      c11 == IF stim /\ (~cur.auth \/ cur.spoof) /\ Required(cur.m) # ""
                /\ ~(c = cur.c /\ IsRefusalReply(m))
                \* (a forbidden message may close its sender's connection, which makes it leave)
                /\ ~(m.type = "user" /\ m.kind = "delete" /\ m.id = cur.c)
             THEN "C11_unauthorised_stimulus_had_an_effect" ELSE "ok"
      \* ---- C11-A3: a token is created only with rights the creator holds, for its own group,
      \*      with an expiry, without subgroups, and not under a configured user's name
      g0 == IF stim THEN Get(s.grp, cur.c, "") ELSE ""
      a3 == IF stim /\ cur.m.type = "groupaction" /\ cur.m.kind = "maketoken" /\ c = cur.c
               /\ m.type = "usermessage" /\ m.kind = "token" /\ m.error = ""
               \* (m.tok is the token the server says it created)
               /\ ~( /\ m.tok.g = g0 /\ m.tok.exp = 1 /\ m.tok.sub = 0
                     /\ SetOfSeq(m.tok.perms) \subseteq Told(s, cur.c)
                     /\ (m.tok.user = "" \/ ~(Has(s.exp, g0) /\ Has(s.exp[g0], m.tok.user))) )
            THEN "C11_A3_token_created_beyond_the_creators_rights" ELSE "ok"
      \* ---- C11-A3: token listing / editing reaches only tokens of the member's own group
      a3e == IF stim /\ c = cur.c /\ m.type = "usermessage" /\ m.kind \in {"token", "tokenlist"} /\ m.error = ""
                /\ ~(SetOfSeq(m.tgroups) \subseteq {g0})
             THEN "C11_A3_token_of_another_group_revealed_or_edited" ELSE "ok"
      \* ---- C15: chat / usermessage authenticity and addressing
      \* the sender: the source the message carries, or -- for a message without source that is the
      \* echo of the current stimulus -- the client that sent that stimulus
      echo == stim /\ cur.m.type = m.type /\ cur.m.type \in {"chat", "usermessage"} /\ cur.m.value = m.value /\ cur.m.id = m.id
      sender == IF m.source # "" THEN m.source ELSE IF echo THEN cur.c ELSE ""
      ischat == m.type \in {"chat", "usermessage"} /\ sender # ""
      c15 == IF ~ischat THEN "ok"
             ELSE IF ~s.pipe /\ ~IsMember(s, sender) THEN "C15_message_from_non_member_source"
             ELSE IF m.hasuser = 1 /\ m.username # Get(s.usr, sender, "") THEN "C15_message_with_forged_username"
             ELSE IF (m.privileged = 1) # ("op" \in Told(s, sender)) THEN "C15_privileged_flag_wrong"
             \* (a client whose join is in progress may get broadcasts before its own joined message)
             ELSE IF ~s.pipe /\ ((IsMember(s, c) /\ Get(s.grp, sender, "") # Get(s.grp, c, "?")) \/ St(s, c) \in {"refused", "left", "closed"})
                  THEN "C15_message_crossed_group_boundary"
             ELSE IF m.dest # "" /\ m.dest # c THEN "C15_directed_message_delivered_to_someone_else"
             ELSE IF stim /\ cur.c = sender /\ cur.m.type = m.type /\ cur.m.value = m.value
                     /\ cur.m.noecho = 1 /\ c = sender /\ m.dest = ""
                  THEN "C15_echo_despite_noecho"
             ELSE IF stim /\ cur.c = sender /\ cur.spoof THEN "C15_spoofed_message_delivered"
             ELSE "ok"
      \* ---- membership bookkeeping from the server's own announcements
      s1 == IF m.type = "joined" /\ m.kind = "join"
            THEN [s EXCEPT !.st = Put(@, c, "member"), !.grp = Put(@, c, m.group), !.usr = Put(@, c, m.username),
                           !.told = Put(@, c, SetOfSeq(m.perms)), !.view = Put(@, c, <<>>)]
            ELSE IF m.type = "joined" /\ m.kind = "change"
            THEN [s EXCEPT !.told = Put(@, c, SetOfSeq(m.perms))]
            ELSE IF m.type = "joined" /\ m.kind = "fail"
            THEN [s EXCEPT !.st = Put(@, c, "refused"), !.told = Put(@, c, {})]
            ELSE IF m.type = "joined" /\ m.kind \in {"leave", "redirect"}
            THEN [s EXCEPT !.st = Put(@, c, "left"), !.told = Put(@, c, {}), !.view = Put(@, c, <<>>)]
            ELSE s
      \* ---- C08: rights on join are exactly the configured ones
      exp == IF m.type = "joined" /\ m.kind = "join" /\ Has(s.exp, m.group)
             THEN (IF Has(s.exp[m.group], m.username) THEN [ok |-> TRUE, ps |-> s.exp[m.group][m.username]]
                   ELSE IF Has(s.exp[m.group], "*") THEN [ok |-> TRUE, ps |-> s.exp[m.group]["*"]]
                   ELSE [ok |-> FALSE, ps |-> <<>>])
             ELSE [ok |-> FALSE, ps |-> <<>>]
      c08 == IF exp.ok /\ SetOfSeq(m.perms) # SetOfSeq(exp.ps) THEN "C08_rights_differ_from_configured_role" ELSE "ok"
      \* ---- C10 through the real server: an autolock group (marked by the pseudo-user "!autolock" in the oracle table) admits a
      \* non-operator only while an operator is present -- "operator" being what the server itself last told each member it is
      c10 == IF m.type = "joined" /\ m.kind = "join" /\ ~s.pipe /\ Has(s.exp, m.group) /\ Has(s.exp[m.group], "!autolock")
                /\ "op" \notin SetOfSeq(m.perms)
                /\ ~(\E x \in Members(s, m.group) : x # c /\ "op" \in Told(s, x))
             THEN "C10_non_operator_admitted_to_autolock_group_without_operator" ELSE "ok"
      \* ---- C14: views
      v0 == Get(s1.view, c, <<>>)
      isuser == m.type = "user"
      \* (pipelined: the monitor updates membership and views when a stimulus is SENT, the server when it gets to it; what is
      \*  in flight in between is judged at quiescence only)
      c14 == IF ~isuser \/ s1.pipe THEN "ok"
             ELSE IF ~IsMember(s1, c) THEN "C14_user_event_sent_to_non_member"
             ELSE IF m.kind = "add" /\ Has(v0, m.id) THEN "C14_duplicate_add"
             ELSE IF m.kind = "delete" /\ ~Has(v0, m.id) THEN "C14_delete_of_unknown_user"
             ELSE IF m.kind \in {"add", "change"} /\ m.id # c /\ IsMember(s1, m.id) /\ Get(s1.grp, m.id, "") # Get(s1.grp, c, "?")
                  THEN "C14_event_about_member_of_another_group"
             ELSE "ok"
      s2 == IF isuser /\ IsMember(s1, c)
            THEN [s1 EXCEPT !.view = Put(@, c,
                     IF m.kind = "delete" THEN [x \in DOMAIN v0 \ {m.id} |-> v0[x]]
                     ELSE Put(v0, m.id, [username |-> m.username, perms |-> SetOfSeq(m.perms), data |-> m.data]))]
            ELSE s1
      s2b == IF m.type = "chathistory"
             THEN [s2 EXCEPT !.hrecv = Put(@, c, Append(Get(s2.hrecv, c, <<>>), [id |-> m.id, src |-> m.source, val |-> m.value, seqno |-> m.seqno]))]
             ELSE IF m.type = "joined" /\ m.kind = "join" THEN [s2 EXCEPT !.hrecv = Put(@, c, <<>>)]
             ELSE s2
      s3 == IF stim THEN [s2b EXCEPT !.cur.got = @ \cup {<<c, m.type, m.kind>>}] ELSE s2b
      \* ---- C15 (history, racing joins): every replayed entry continues the run of numbered chats
      hp == Get(s.hrecv, c, <<>>)
      c15h == IF m.type = "chathistory" /\ c \in s.racing /\ Len(hp) > 0
                 /\ ~(m.seqno >= 0 /\ m.seqno = hp[Len(hp)].seqno + 1)
              THEN "C15_history_replay_not_an_in_order_run_of_the_chats" ELSE "ok"
      bads == SelectSeq(<<c11, a3, a3e, c15, c15h, c08, c10, c14>>, LAMBDA x : x # "ok")
  IN [s |-> s3, v |-> IF bads = <<>> THEN "ok" ELSE bads[1]]

\* a socket was closed by the server (c did not close it itself)
OnClosed(s, c) ==
  LET cur == s.cur
      \* only the connection that sent a malformed / forbidden message may be closed; a kick
      \* closes its target
      kicked == cur # None /\ cur.m.type = "useraction" /\ cur.m.kind = "kick" /\ cur.m.dest = c /\ cur.auth
      own == cur # None /\ cur.c = c
  IN [s |-> [s EXCEPT !.st = Put(@, c, "closed"), !.told = Put(@, c, {})],
      v |-> IF ~(own \/ kicked) THEN "C12_R3_bystander_connection_closed" ELSE "ok"]

\* c opened a (new) connection
OnOpen(s, c) == [s EXCEPT !.st = Put(@, c, "new"), !.told = Put(@, c, {}), !.view = Put(@, c, <<>>),
                          !.grp = Put(@, c, ""), !.usr = Put(@, c, "")]

\* the driver dropped c's connection, or c asked to leave
OnGone(s, c) == [s EXCEPT !.st = Put(@, c, "closed"), !.told = Put(@, c, {}), !.view = Put(@, c, <<>>),
                          !.cur = None]

\* the driver's barrier: the server is quiet, the effects of the last stimulus have all been seen.
\* C15 (history): a client that has just joined was replayed, in order, exactly the broadcast
\* chats still in the (bounded, possibly partly cleared) history of its group.  Result [s, v]
OnSettled(s) ==
  LET cur == s.cur
      joined == cur # None /\ cur.m.type = "join" /\ cur.m.kind = "join" /\ IsMember(s, cur.c)
                /\ <<cur.c, "joined", "join">> \in cur.got
      gj == IF joined THEN Get(s.grp, cur.c, "") ELSE ""
      h == IF joined THEN Get(s.hist, gj, <<>>) ELSE <<>>
      age == Get(s.maxage, gj, DefaultAge)
      P(e) == [id |-> e.id, src |-> e.src, val |-> e.val]
      \* age of e when the replay was computed lies in [TLo(join) - e.thi, THi(join) - e.tlo]; kept iff age <= limit
      expired == SelectSeq(h, LAMBDA e : TLo(cur.m) - e.thi > age)            \* certainly too old
      may == SelectSeq(h, LAMBDA e : ~(TLo(cur.m) - e.thi > age))
      must == SelectSeq(h, LAMBDA e : THi(cur.m) - e.tlo <= age)             \* certainly young enough
      wantmay == [i \in 1..Len(may) |-> P(may[i])]
      wantmust == [i \in 1..Len(must) |-> P(must[i])]
      g0 == IF joined THEN Get(s.hrecv, cur.c, <<>>) ELSE <<>>
      gotten == [i \in 1..Len(g0) |-> [id |-> g0[i].id, src |-> g0[i].src, val |-> g0[i].val]]
      \* a replay taken while others were chatting (the driver marks such joins "racing"): it must still
      \* be an in-order, gap-free run of the numbered broadcast chats
      Run(rg) == Len(rg) <= HistMax /\ \A i \in 1..(Len(rg) - 1) : rg[i].seqno >= 0 /\ rg[i + 1].seqno = rg[i].seqno + 1
      racebad == \E c \in s.racing : ~Run(Get(s.hrecv, c, <<>>))
      racing == cur # None /\ cur.c \in s.racing
  IN [s |-> [s EXCEPT !.cur = None, !.racing = {}],
      v |-> IF racebad THEN "C15_history_replay_not_an_in_order_run_of_the_chats"
            ELSE IF racing THEN "ok"
            ELSE IF joined /\ Len(gotten) > HistMax THEN "C15_history_longer_than_50"
            ELSE IF joined /\ ~(IsSuffixOf(gotten, wantmay) /\ IsSuffixOf(wantmust, gotten))
            THEN (IF \E i \in 1..Len(gotten) : \E j \in 1..Len(expired) : gotten[i] = P(expired[j])
                  THEN "C15_history_replays_a_chat_older_than_the_configured_age"
                  ELSE "C15_history_replay_differs_from_broadcast_chats")
            ELSE "ok"]

\* the server's own member list (statistics API) against what the clients were told: a client of the
\* driver is listed exactly when it is a member (C14; members that are not sockets of the driver,
\* such as a recorder, are ignored)
OnStats(s, pairs) ==
  LET listed == {p \in pairs : p[2] \in DOMAIN s.st}
      told == {<<Get(s.grp, c, ""), c>> : c \in {x \in DOMAIN s.st : s.st[x] = "member"}}
  IN IF listed # told THEN "C14_server_member_list_differs_from_what_clients_were_told" ELSE "ok"

\* quiescence at the end of a behaviour: every member's view is the true membership (C14)
AtEnd(s) ==
  LET wrong == {c \in DOMAIN s.st :
                  /\ s.st[c] = "member"
                  /\ LET g == Get(s.grp, c, "")
                         v == Get(s.view, c, <<>>)
                         \* members that are sockets of the driver (others -- recorder -- are only
                         \* required to be present in the view if announced)
                         ms == Members(s, g)
                     IN \/ ~(ms \subseteq DOMAIN v)
                        \/ \E x \in ms : v[x].username # Get(s.usr, x, "") \/ v[x].perms # Told(s, x)
                        \/ \E x \in DOMAIN v : x \in DOMAIN s.st /\ ~(x \in ms)}
      \* what the members believe about a user's data must be the same for all of them (a late
      \* joiner is told the server's current value, the others built theirs from change events)
      ms == {c \in DOMAIN s.st : s.st[c] = "member"}
      differ == \E c1, c2 \in ms : Get(s.grp, c1, "") = Get(s.grp, c2, "")
                  /\ \E x \in DOMAIN Get(s.view, c1, <<>>) \cap DOMAIN Get(s.view, c2, <<>>) :
                        s.view[c1][x].data # s.view[c2][x].data
  IN IF wrong # {} THEN "C14_view_does_not_converge_to_membership"
     ELSE IF differ THEN "C14_views_disagree_about_a_users_data" ELSE "ok"
=============================================================================
