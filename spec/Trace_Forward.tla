--------------------------- MODULE Trace_Forward ---------------------------
(***************************************************************************)
(* Validates executions of the REAL forwarding path (rtpDownTrack.Write,   *)
(* gotNACK, adjustLayer, handleReport/updateRate, replaceTracks over real  *)
(* packetmap / packetcache / codecs) recorded by the in-package driver.    *)
(*   Layer P (verdict)  SeqMonitor (C01) + FwdMonitor (C02, C03, C04) are  *)
(*     stepped with the LOGGED observations only; every failure is printed *)
(*     as <<"TRACE-BAD", line, behaviour, clause>>.                        *)
(*   Layer I (drift)    ForwardOps predicts the step from the logged       *)
(*     before-state and its own copy of the seqno map; the first           *)
(*     disagreement of a behaviour is recorded and Layer I is frozen.      *)
(* Events: New | Pin | W | N | Adj | Rate | Lim | Resize                   *)
(***************************************************************************)
EXTENDS Integers, Sequences, FiniteSets, TLC, Json

CONSTANTS M, W, MaxEntries, PM, Fixed_F9, Fixed_F12, Fixed_F1, Known_F17, TraceFile

INSTANCE ForwardOps
Mon == INSTANCE SeqMonitor WITH PruneAt <- 3 * W
FM  == INSTANCE FwdMonitor

Trace == ndJsonDeserialize(TraceFile)

VARIABLES l, m, g, p, gmt, gms, codec, pidm,
          drift, frozen, nbeh, done, skip, nbad, nknown

vars == <<l, m, g, p, gmt, gms, codec, pidm, drift, frozen, nbeh, done, skip, nbad, nknown>>

Init == /\ l = 1 /\ m = InitMap /\ g = Mon!InitGhost(0) /\ p = FM!InitPid
        /\ gmt = 0 /\ gms = 0 /\ codec = "vp8" /\ pidm = 0
        /\ drift = 0 /\ frozen = FALSE /\ nbeh = 0 /\ done = FALSE /\ skip = FALSE
        /\ nbad = 0 /\ nknown = 0

Ev == Trace[l]
B(x) == x = 1
Lay(r) == [sid |-> r.sid, wantedSid |-> r.wantedSid, maxSid |-> r.maxSid, tid |-> r.tid,
           wantedTid |-> r.wantedTid, maxTid |-> r.maxTid, limitSid |-> B(r.limitSid)]
Tru(r, s) == [seq |-> s, pid |-> r.pid, tid |-> r.tid, sid |-> r.sid, start |-> B(r.start),
              end |-> B(r.end), kf |-> B(r.kf), tidup |-> B(r.tidup), nonref |-> B(r.nonref),
              marker |-> B(r.marker)]
SetOf(sq) == {sq[i] : i \in 1..Len(sq)}
First(vs) == LET b == SelectSeq(vs, LAMBDA x : x # "ok") IN IF b = <<>> THEN "ok" ELSE b[1]

\* record a Layer-P verdict v for the current line
Verdict(v) ==
  /\ skip' = (skip \/ v # "ok")
  /\ nbad' = IF v # "ok" THEN nbad + 1 ELSE nbad
  /\ (v # "ok" => PrintT(<<"TRACE-BAD", l, nbeh, v>>))

Drift(same) ==
  IF frozen \/ same THEN UNCHANGED <<drift, frozen>>
  ELSE frozen' = TRUE /\ drift' = IF drift = 0 THEN l ELSE drift

TNew == /\ Ev.ev = "New"
        /\ m' = InitMap /\ g' = Mon!InitGhost(Ev.start) /\ p' = FM!InitPid
        /\ gmt' = 0 /\ gms' = 0 /\ codec' = Ev.codec
        /\ pidm' = IF Ev.codec = "vp8" THEN Ev.pidm ELSE 0
        /\ frozen' = FALSE /\ nbeh' = nbeh + 1 /\ skip' = FALSE
        /\ UNCHANGED <<drift, nbad, nknown>>

\* the driver pinned the layer selection white-box (not an action of the system)
TPin == /\ Ev.ev = "Pin"
        /\ gmt' = Ev.la.maxTid /\ gms' = Ev.la.maxSid
        /\ UNCHANGED <<m, g, p, codec, pidm, drift, frozen, nbeh, skip, nbad, nknown>>

TW == /\ Ev.ev = "W"
      /\ LET e   == Ev
             f   == Tru(e.f, e.s)
             lb  == Lay(e.lb)
             la  == Lay(e.la)
             gt  == IF f.tid > gmt THEN f.tid ELSE gmt
             gs  == IF f.sid > gms THEN f.sid ELSE gms
             ino == e.off = 1 /\ g.started
             ob  == Mon!Observe(g, e.off, e.res, e.out)
             pc  == FM!C02Pid(p, f, e.res, e.opid, e.off = 1, pidm)
             v   == First(<< ob.v,
                             FM!C04Packet(lb, la, f, e.res, ino, gt, gs),
                             IF e.res = "F"
                             THEN FM!C02Fields(SetOf(e.chg), f, la, B(e.mk), B(e.inmod), pidm)
                             ELSE IF B(e.inmod) THEN "C02_cached_original_modified" ELSE "ok",
                             pc.v >>)
             \* Layer I: the seqno map sees pid 0 for codecs without a rewritten picture id
             fI  == IF pidm = 0 THEN [f EXCEPT !.pid = 0] ELSE f
             ok(dir) == LET r == WriteOp(lb, m, fI, dir, pidm) IN
                        /\ r.L = la /\ r.res = e.res
                        /\ (e.res = "F" => r.out = e.out /\ r.marker = B(e.mk)
                                           /\ (pidm # 0 => r.pid = e.opid))
             dirs == {d \in {"none", "up", "down"} : ok(d)}
         IN /\ g' = ob.g /\ p' = pc.p /\ gmt' = gt /\ gms' = gs
            /\ Verdict(v)
            /\ IF frozen THEN UNCHANGED <<m, drift, frozen>>
               ELSE IF dirs # {}
               THEN /\ m' = WriteOp(lb, m, fI, CHOOSE d \in dirs : TRUE, pidm).m
                    /\ UNCHANGED <<drift, frozen>>
               ELSE /\ m' = m /\ Drift(FALSE)
      /\ UNCHANGED <<codec, pidm, nbeh, nknown>>

RECURSIVE NackVerdicts(_, _, _)
NackVerdicts(o, wr, la) ==
  IF wr = <<>> THEN <<>>
  ELSE LET w == wr[1]
           v == IF w.ident = 0 THEN "C03_unidentifiable_packet_written"
                ELSE FM!C03Answer(o, w.out, B(w.mk), w.opid, B(w.wh), B(w.known),
                                  w.fo, B(w.fm), w.fp, B(w.same))
           \* known finding F17: the marker decision is re-evaluated with the receiver's
           \* CURRENT spatial layer when a packet is retransmitted
           f17 == /\ Known_F17 /\ w.ident = 1 /\ B(w.known) /\ B(w.end) /\ ~B(w.mkin)
                  /\ w.fsid # la.sid
                  /\ v \in {"C03_marker_differs_from_first_transmission"}
       IN <<IF f17 THEN "known:F17" ELSE v>> \o NackVerdicts(o, Tail(wr), la)

TN == /\ Ev.ev = "N"
      /\ LET e  == Ev
             vs == NackVerdicts(e.o, e.wr, Lay(e.la))
             real == SelectSeq(vs, LAMBDA x : x # "ok" /\ x # "known:F17")
             kn == SelectSeq(vs, LAMBDA x : x = "known:F17")
         IN /\ Verdict(IF real = <<>> THEN "ok" ELSE real[1])
            /\ nknown' = nknown + Len(kn)
            /\ (kn # <<>> => PrintT(<<"TRACE-KNOWN", l, nbeh, "F17">>))
      /\ UNCHANGED <<m, g, p, gmt, gms, codec, pidm, drift, frozen, nbeh>>

TAdj == /\ Ev.ev = "Adj"
        /\ LET lb == Lay(Ev.lb)  la == Lay(Ev.la) IN
           /\ Verdict(FM!C04Feedback(lb, la))
           /\ Drift(\E d \in {"none", "up", "down"} : AdjustOp(lb, d) = la)
        /\ UNCHANGED <<m, g, p, gmt, gms, codec, pidm, nbeh, nknown>>

TRate == /\ Ev.ev = "Rate"
         /\ LET lb == Lay(Ev.lb)  la == Lay(Ev.la) IN
            /\ Verdict(First(<<FM!C04Feedback(lb, la), FM!C04Ceiling(Ev.ceil)>>))
            /\ Drift(lb = la)
         /\ UNCHANGED <<m, g, p, gmt, gms, codec, pidm, nbeh, nknown>>

TLim == /\ Ev.ev = "Lim"
        /\ LET lb == Lay(Ev.lb)  la == Lay(Ev.la) IN
           /\ Verdict(IF la.limitSid # B(Ev.lim) THEN "C04_L6_limit_request_not_recorded"
                      ELSE FM!C04Feedback(lb, la))
           /\ Drift(LimitOp(lb, B(Ev.lim)) = la)
        /\ UNCHANGED <<m, g, p, gmt, gms, codec, pidm, nbeh, nknown>>

TOther == /\ Ev.ev \notin {"New", "Pin", "W", "N", "Adj", "Rate", "Lim"}
          /\ UNCHANGED <<m, g, p, gmt, gms, codec, pidm, drift, frozen, nbeh, skip, nbad, nknown>>

\* (a NACK event is judged from its own fields: also after another clause has failed in this behaviour)
TSkip == /\ skip /\ Ev.ev \notin {"New", "N"}
         /\ UNCHANGED <<m, g, p, gmt, gms, codec, pidm, drift, frozen, nbeh, skip, nbad, nknown>>

Step == /\ l <= Len(Trace)
        /\ (TNew \/ TSkip \/ TN \/ (~skip /\ (TPin \/ TW \/ TAdj \/ TRate \/ TLim \/ TOther)))
        /\ l' = l + 1 /\ UNCHANGED done

Finish == /\ l = Len(Trace) + 1 /\ ~done /\ done' = TRUE
          /\ PrintT(<<"TRACE-DONE", l - 1, nbeh, drift, nbad, nknown>>)
          /\ UNCHANGED <<l, m, g, p, gmt, gms, codec, pidm, drift, frozen, nbeh, skip, nbad, nknown>>

Next == Step \/ Finish
Spec == Init /\ [][Next]_vars
=============================================================================
