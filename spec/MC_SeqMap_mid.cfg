\* exhaustive at the next size up (start seqnos: edge set; rotation of the others is covered by MC_SeqMap_small)
CONSTANTS
  M = 32
  W = 4
  MaxEntries = 3
  PM = 32
  Fixed_F9 = TRUE
  Fixed_F12 = TRUE
  Starts <- StartsEdge
INIT Init
NEXT Next
INVARIANTS PropertyHolds NextTracksTrueNext DeltaIsMinusWithheld
VIEW View
