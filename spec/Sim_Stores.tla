----------------------------- MODULE Sim_Stores -----------------------------
(* Behaviour generator for C16: Stores.tla with the library-level operations   *)
(* as a history.  A write whose rewrite is interrupted by Crash becomes a      *)
(* ["crash", kind, editor, token, value, point, n] step (executed in a child   *)
(* process that exits at the named point); a Crash between calls a "restart".  *)
EXTENDS Stores, Json
CONSTANTS SimDepth
VARIABLES beh, cur

SimInit == Init /\ beh = <<>> /\ cur = Nil
Rec(op) == beh' = Append(beh, op)
AsObj(f) == [t \in DOMAIN f |-> f[t]]

SimNext ==
  \/ \E e \in Editors : Read(e) /\ Rec(<<"read", e>>) /\ UNCHANGED cur
  \/ \E e \in Editors, t \in Tok, v \in Val : Create(e, t, v) /\ Rec(<<"create", e, t, v>>) /\ UNCHANGED cur
  \/ \E e \in Editors, t \in Tok, v \in Val, del \in BOOLEAN :
       /\ BeginWrite(e, t, v, del)
       /\ IF pending' = Nil
          THEN Rec(IF del THEN <<"delete", e, t>> ELSE <<"update", e, t, v>>) /\ UNCHANGED cur
          ELSE cur' = [k |-> IF del THEN "delete" ELSE "update", e |-> e, t |-> t, v |-> v] /\ UNCHANGED beh
  \/ /\ \E t \in Tok : t \in DOMAIN Load(mem, file).toks /\ Load(mem, file).toks[t] = 2
     /\ BeginSweep({t \in DOMAIN Load(mem, file).toks : Load(mem, file).toks[t] = 2})
     /\ cur' = [k |-> "expire", e |-> "e1", t |-> "t1", v |-> 0] /\ UNCHANGED beh
  \/ RewriteTemp /\ UNCHANGED <<beh, cur>>
  \/ /\ RewriteCommit
     /\ Rec(IF cur.k = "expire" THEN <<"expire">>
            ELSE IF cur.k = "delete" THEN <<"delete", cur.e, cur.t>> ELSE <<"update", cur.e, cur.t, cur.v>>)
     /\ cur' = Nil
  \/ /\ Crash
     /\ IF pending = Nil THEN Rec(<<"restart">>) /\ UNCHANGED cur
        ELSE /\ cur.k # "expire"
             /\ Rec(<<"crash", cur.k, cur.e, cur.t, cur.v,
                      IF temp = Nil THEN "token.rewrite.created"
                      ELSE IF Len(beh) % 2 = 0 THEN "token.rewrite.encoded" ELSE "token.rewrite.closed", 1>>)
             /\ cur' = Nil
  \* (external edits are rationed so that they do not crowd out the library calls)
  \/ /\ Len(beh) % 6 = 5
     /\ \E D \in SUBSET Tok, v \in Val : External([t \in D |-> IF t = "t1" THEN v ELSE 1 + (v % 3)])
                                          /\ Rec(<<"external", AsObj([t \in D |-> IF t = "t1" THEN v ELSE 1 + (v % 3)])>>) /\ UNCHANGED cur

Emit == (Len(beh) = SimDepth /\ pending = Nil) => PrintT(<<"BEH", ToJson([ops |-> beh])>>)
=============================================================================
