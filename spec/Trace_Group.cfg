CONSTANTS
  TraceFile = "trace_group.ndjson"
INIT Init
NEXT Next
CHECK_DEADLOCK FALSE
