CONSTANTS
  Ops = {"o1", "o2"}
  Users = {"u1", "u2", "u3"}
  Configs <- Cfgs
  Fixed_F5 = TRUE
  SimDepth = 20
INIT SimInit
NEXT SimNext
INVARIANTS Emit PropertyHolds
