---------------------------- MODULE Trace_Cache ----------------------------
(***************************************************************************)
(* Validates executions of the REAL packetcache.Cache (public API driver)  *)
(* against CacheOps (Layer I, drift) and CacheMonitor (Layer P, verdict)   *)
(* at the real constants.  Events:                                         *)
(*  New{start,cap} S{off,s,id,kf,first,idx,pk,asked,next,nk} G{s,rid}      *)
(*  A{s,idx,rid} R{cap} RC{cap,ok} ST{reset,st,last,lastok,kfs,kfok}       *)
(*  TB{in,first,bits,remain}                                               *)
(***************************************************************************)
EXTENDS Integers, Sequences, FiniteSets, TLC, Json

CONSTANTS M, BitmapW, GetW, LateT, NackHorizon, Fixed_F20, Fixed_F26, TraceFile

INSTANCE CacheOps
CM == INSTANCE CacheMonitor

Trace == ndJsonDeserialize(TraceFile)

VARIABLES l, c, h, q, drift, frozen, nbeh, done, skip, nbad
vars == <<l, c, h, q, drift, frozen, nbeh, done, skip, nbad>>

Init == /\ l = 1 /\ c = NewCache(1) /\ h = CM!InitC05(1) /\ q = CM!InitC06
        /\ drift = 0 /\ frozen = FALSE /\ nbeh = 0 /\ done = FALSE /\ skip = FALSE /\ nbad = 0

Ev == Trace[l]
B(x) == x = 1
First(vs) == LET b == SelectSeq(vs, LAMBDA x : x # "ok") IN IF b = <<>> THEN "ok" ELSE b[1]
SetOf(sq) == {sq[i] : i \in 1..Len(sq)}

Verdict(v) ==
  /\ skip' = (v # "ok")
  /\ nbad' = IF v # "ok" THEN nbad + 1 ELSE nbad
  /\ (v # "ok" => PrintT(<<"TRACE-BAD", l, nbeh, v>>))

\* Layer I: c1 = predicted next cache state, same = prediction agrees with the log
StepI(same, c1) ==
  IF frozen THEN UNCHANGED <<c, drift, frozen>>
  ELSE IF same THEN c' = c1 /\ UNCHANGED <<drift, frozen>>
  ELSE c' = c /\ frozen' = TRUE /\ drift' = IF drift = 0 THEN l ELSE drift

TNew == /\ Ev.ev = "New"
        /\ c' = NewCache(Ev.cap) /\ h' = CM!InitC05(Ev.cap)
        /\ q' = [CM!InitC06 EXCEPT !.sh = CMod(Ev.start - 1)]
        /\ frozen' = FALSE /\ nbeh' = nbeh + 1 /\ skip' = FALSE /\ UNCHANGED <<drift, nbad>>

TS == /\ Ev.ev = "S"
      /\ LET e  == Ev
             st == Store(c, e.s, e.id, B(e.kf))
             d0 == CMod(e.s - st.first)
             delta == IF d0 >= CHalf THEN 0 ELSE d0
             un == IF 4 > e.pk THEN e.pk ELSE 4
             ask == delta > e.pk
             r  == IF ask THEN BmGet(st.c, CMod(e.s - un)) ELSE [c |-> st.c, found |-> FALSE, first |-> 0, bits |-> {}]
             pred == IF r.found THEN {r.first} \cup {CMod(r.first + b) : b \in r.bits} ELSE {}
             c1 == IF r.found THEN Expect(r.c, Cardinality(pred)) ELSE r.c
             same == /\ st.first = e.first /\ st.index = e.idx
                     /\ (e.asked = 1) = ask
                     /\ (ask => e.next = CMod(e.s - un))
                     /\ SetOf(e.nk) = pred /\ Len(e.nk) = Cardinality(pred)
             h1 == CM!C05Store(h, e.s, e.id, e.idx)
             q1 == CM!C06Store(q, e.off, e.s, LateT)
             q2 == IF e.asked = 1 THEN CM!C06Nack(q1.q, e.next, e.nk) ELSE [q |-> q1.q, v |-> "ok"]
         IN /\ h' = h1 /\ q' = q2.q
            /\ Verdict(First(<<q1.v, q2.v>>))
            /\ StepI(same, c1)
      /\ UNCHANGED nbeh

TG == /\ Ev.ev = "G"
      /\ Verdict(CM!C05Get(h, Ev.s, Ev.rid))
      /\ StepI(Get(c, Ev.s) = Ev.rid, c)
      /\ UNCHANGED <<h, q, nbeh>>

TA == /\ Ev.ev = "A"
      /\ Verdict(CM!C05GetAt(h, Ev.s, Ev.idx, Ev.rid))
      /\ StepI(GetAt(c, Ev.s, Ev.idx) = Ev.rid, c)
      /\ UNCHANGED <<h, q, nbeh>>

TR == /\ Ev.ev = "R"
      /\ h' = CM!C05Resize(h, Ev.cap, Ev.cap # h.cap)
      /\ Verdict("ok")
      /\ StepI(TRUE, Resize(c, Ev.cap))
      /\ UNCHANGED <<q, nbeh>>

TRC == /\ Ev.ev = "RC"
       /\ LET r == ResizeCond(c, Ev.cap) IN
          /\ h' = CM!C05Resize(h, Ev.cap, B(Ev.ok) /\ Ev.cap # h.cap)
          /\ Verdict("ok")
          /\ StepI(r.ok = B(Ev.ok), r.c)
       /\ UNCHANGED <<q, nbeh>>

TST == /\ Ev.ev = "ST"
       /\ LET r == GetStats(c, B(Ev.reset))
              j == CM!C06Stats(q, Ev.st)
          IN /\ q' = j.q /\ Verdict(j.v)
             /\ StepI(/\ r.st = Ev.st
                      /\ B(Ev.lastok) = c.lastValid /\ (c.lastValid => Ev.last = c.last)
                      /\ B(Ev.kfok) = c.kfValid /\ (c.kfValid => Ev.kfs = c.kf),
                      r.c)
       /\ UNCHANGED <<h, nbeh>>

TTB == /\ Ev.ev = "TB"
       /\ Verdict(CM!C06ToBitmap(Ev.in, Ev.first, SetOf(Ev.bits), Ev.remain))
       /\ UNCHANGED <<c, h, q, drift, frozen, nbeh>>

TSkip == /\ skip /\ Ev.ev \notin {"New", "TB"}
         /\ UNCHANGED <<c, h, q, drift, frozen, nbeh, skip, nbad>>

Step == /\ l <= Len(Trace)
        /\ (TNew \/ TTB \/ TSkip \/ (~skip /\ (TS \/ TG \/ TA \/ TR \/ TRC \/ TST)))
        /\ l' = l + 1 /\ UNCHANGED done

Finish == /\ l = Len(Trace) + 1 /\ ~done /\ done' = TRUE
          /\ PrintT(<<"TRACE-DONE", l - 1, nbeh, drift, nbad>>)
          /\ UNCHANGED <<l, c, h, q, drift, frozen, nbeh, skip, nbad>>

Next == Step \/ Finish
Spec == Init /\ [][Next]_vars
=============================================================================
