---------------------------- MODULE SeqMapOps ----------------------------
(***************************************************************************)
(* Layer I of packetmap.Map (packetmap/packetmap.go), as pure operators    *)
(* over a record `m` that mirrors the Go struct field by field:            *)
(*   next, nextPid, delta, pidDelta, last (= lastEntry, 0-based),          *)
(*   entries (sequence of [first, count, delta, pidDelta]; <<>> = nil),    *)
(*   valid (added by the fix of F9: has any packet been mapped yet).       *)
(* All seqno arithmetic is modulo M exactly as uint16 is modulo 65536; the *)
(* code's constants are parameters so that the same text is model-checked  *)
(* at small values and trace-validated at the real ones.                   *)
(*                                                                         *)
(* Switches: Fixed_F9 / Fixed_F12 = TRUE model the repaired code that is   *)
(* in /repo now; FALSE reproduces the pinned upstream behaviour so that    *)
(* TLC can regenerate the witnesses of the two findings.                   *)
(***************************************************************************)
EXTENDS Integers, Sequences

CONSTANTS M,           \* seqno modulus            (Go: 1<<16)
          W,           \* re-synchronisation window (Go: 8*1024)
          MaxEntries,  \* interval ring size        (Go: maxEntries = 128)
          PM,          \* modulus of the pid fields (Go: uint16 -> 1<<16)
          Fixed_F9, Fixed_F12

Half == M \div 2
Mod(x) == x % M
PMod(x) == x % PM

\* compare(s1, s2) of packetmap.go: -1 / 0 / 1 modulo M
Cmp(s1, s2) == IF s1 = s2 THEN 0 ELSE IF Mod(s2 - s1) >= Half THEN 1 ELSE -1

InitMap == [next |-> 0, nextPid |-> 0, delta |-> 0, pidDelta |-> 0, last |-> 0,
            entries |-> <<>>, valid |-> FALSE, dropRun |-> 0]

ResetMap(m) == [m EXCEPT !.next = 0, !.nextPid = 0, !.delta = 0, !.pidDelta = 0,
                         !.last = 0, !.entries = <<>>, !.dropRun = 0]

NotOk(m) == [m |-> m, ok |-> FALSE, out |-> 0, pd |-> 0]

\* addMapping(m, seqno, delta, pidDelta)
AddMapping(m, s, delta, pd) ==
  IF m.entries = <<>> THEN m
  ELSE
    LET i == m.last + 1
        e == m.entries[i]
    IN IF delta = e.delta /\ pd = e.pidDelta
       THEN LET c == Mod(s - e.first + 1) IN
            IF Fixed_F12 /\ c > 2 * W
            THEN \* fix of F12: keep the growing interval short enough for
                 \* comparisons modulo M to stay meaningful
                 [m EXCEPT !.entries[i].first = Mod(e.first + (c - W)),
                           !.entries[i].count = W]
            ELSE [m EXCEPT !.entries[i].count = c]
       ELSE
         LET d  == Mod(e.delta - delta)
             ff == Mod(e.first + e.count + d)
             f  == IF d < W /\ Cmp(ff, s) < 0 THEN ff ELSE s
             ne == [first |-> f, count |-> Mod(s - f + 1), delta |-> delta, pidDelta |-> pd]
         IN IF Len(m.entries) < MaxEntries
            THEN [m EXCEPT !.entries = Append(@, ne), !.last = Len(m.entries)]
            ELSE LET j == (m.last + 1) % MaxEntries
                 IN [m EXCEPT !.entries[j + 1] = ne, !.last = j]

\* the ring walk shared by direct (rev = FALSE) and Reverse (rev = TRUE)
RECURSIVE Walk(_, _, _, _)
Walk(m, s, i, rev) ==
  LET e == m.entries[i + 1]
      f == IF rev THEN Mod(e.first + e.delta) ELSE e.first
  IN IF Cmp(s, f) >= 0
     THEN IF Cmp(s, Mod(f + e.count)) < 0
          THEN [m |-> m, ok |-> TRUE,
                out |-> IF rev THEN Mod(s - e.delta) ELSE Mod(s + e.delta),
                pd |-> e.pidDelta]
          ELSE NotOk(m)
     ELSE LET i2 == IF i > 0 THEN i - 1 ELSE Len(m.entries) - 1
          IN IF i2 = m.last THEN NotOk(m) ELSE Walk(m, s, i2, rev)

Direct(m, s) == IF m.entries = <<>> THEN NotOk(m) ELSE Walk(m, s, m.last, FALSE)

\* Map.Map(seqno, pid): result [m, ok, out, pd]
MapOp(m, s, p) ==
  LET fresh(mm) == [m |-> [mm EXCEPT !.next = Mod(s + 1), !.nextPid = p, !.valid = TRUE],
                    ok |-> TRUE, out |-> s, pd |-> 0]
  IN
  IF m.delta = 0 /\ m.entries = <<>>
  THEN IF (Fixed_F9 /\ ~m.valid) \/ Cmp(m.next, s) <= 0 \/ Mod(m.next - s) > W
       THEN fresh(m)
       ELSE [m |-> m, ok |-> TRUE, out |-> s, pd |-> 0]
  ELSE IF Cmp(m.next, s) <= 0
  THEN IF Mod(s - m.next) > W
       THEN fresh(ResetMap(m))
       ELSE LET m1 == AddMapping(m, s, m.delta, m.pidDelta)
            IN [m |-> [m1 EXCEPT !.next = Mod(s + 1), !.nextPid = p, !.valid = TRUE,
                                 !.dropRun = 0],
                ok |-> TRUE, out |-> Mod(s + m.delta), pd |-> m.pidDelta]
  ELSE IF Mod(m.next - s) > W
  THEN fresh(ResetMap(m))
  ELSE Direct(m, s)

\* Map.Reverse(seqno): result [m, ok, out, pd]
ReverseOp(m, s) ==
  IF m.delta = 0 /\ m.entries = <<>> THEN [m |-> m, ok |-> TRUE, out |-> s, pd |-> 0]
  ELSE IF m.entries = <<>> THEN NotOk(m)       \* (delta # 0 here)
  ELSE Walk(m, s, m.last, TRUE)

\* Map.Drop(seqno, pid): result [m, ok]
DropOp(m, s, p) ==
  IF (Fixed_F9 /\ ~m.valid) \/ s # m.next THEN [m |-> m, ok |-> FALSE]
  ELSE LET es == IF m.entries = <<>>
                 THEN << [first |-> Mod(s - W), count |-> W, delta |-> 0, pidDelta |-> 0] >>
                 ELSE m.entries
           m1 == [m EXCEPT !.entries = es,
                           !.pidDelta = PMod(m.pidDelta + p - m.nextPid),
                           !.nextPid = p,
                           !.delta = Mod(m.delta - 1),
                           !.next = Mod(s + 1),
                           !.valid = TRUE]
       IN IF Fixed_F12
          THEN \* fix of F12 (second half): after W consecutive drops nothing in the
               \* table can be needed again; replace it by one empty interval so that
               \* no interval start ever gets old enough to alias modulo M
               IF m.dropRun + 1 >= W
               THEN [m |-> [m1 EXCEPT !.entries = << [first |-> m1.next, count |-> 0,
                                                      delta |-> m1.delta,
                                                      pidDelta |-> m1.pidDelta] >>,
                                      !.last = 0, !.dropRun = 0],
                     ok |-> TRUE]
               ELSE [m |-> [m1 EXCEPT !.dropRun = m.dropRun + 1], ok |-> TRUE]
          ELSE [m |-> m1, ok |-> TRUE]
=============================================================================
