CONSTANTS
  TraceFile = "trace_streams.ndjson"
INIT Init
NEXT Next
CHECK_DEADLOCK FALSE
