------------------------------ MODULE SeqMap ------------------------------
(***************************************************************************)
(* C01: forwarded sequence numbers stay gap-free, unique and ordered.      *)
(*                                                                         *)
(* Layer I : the real interval table (SeqMapOps), stepped as               *)
(*           rtpDownTrack.Write steps it: Drop-if-wanted, else Map.        *)
(* Layer P : SeqMonitor, which sees only (offset of the arriving position  *)
(*           from the highest one, withheld/forwarded, outgoing number).   *)
(* The environment delivers any position within the re-synchronisation     *)
(* window of the property's quantifier: hi+1-W .. hi+1+W, and the          *)
(* forwarding path may want to withhold any of them.                       *)
(***************************************************************************)
EXTENDS Integers, Sequences, FiniteSets, TLC

CONSTANTS M, W, MaxEntries, PM, Fixed_F9, Fixed_F12,
          Starts        \* set of start seqnos explored

INSTANCE SeqMapOps
Mon == INSTANCE SeqMonitor WITH PruneAt <- 0

VARIABLES m,     \* Layer I
          g,     \* Layer P ghost
          bad    \* "ok" or the name of the violated clause

vars == <<m, g, bad>>

Init == /\ m = InitMap
        /\ \E t \in Starts : g = Mon!InitGhost(t)
        /\ bad = "ok"

\* What rtpDownTrack.Write does with the map for one packet:
\* result [m, res \in {"D","F","X"}, out, pd]
WriteStep(mm, s, pid, wd) ==
  LET dr == IF wd THEN DropOp(mm, s, pid) ELSE [m |-> mm, ok |-> FALSE] IN
  IF dr.ok THEN [m |-> dr.m, res |-> "D", out |-> 0, pd |-> 0]
  ELSE LET mp == MapOp(dr.m, s, pid) IN
       [m |-> mp.m, res |-> IF mp.ok THEN "F" ELSE "X", out |-> mp.out, pd |-> mp.pd]

Arrive(off, wd) ==
  LET s  == Mod(g.tn + off - 1)
      ws == WriteStep(m, s, 0, wd)
      ob == Mon!Observe(g, off, ws.res, ws.out)
  IN /\ bad = "ok"
     /\ m' = ws.m
     /\ g' = ob.g
     /\ bad' = ob.v

Next ==
  \/ /\ ~g.started /\ \E wd \in BOOLEAN : Arrive(1, wd)
  \/ /\ g.started  /\ \E off \in (1 - W)..(W + 1), wd \in BOOLEAN : Arrive(off, wd)

Spec == Init /\ [][Next]_vars

\* positions are absolute in the ghost; the view makes the state space finite
View == <<m, Mon!GView(g), bad>>

PropertyHolds == bad = "ok"

TypeOK == /\ m.next \in 0..(M-1) /\ m.delta \in 0..(M-1) /\ Len(m.entries) <= MaxEntries
          /\ g.tn \in 0..(M-1) /\ g.wc \in 0..(M-1) /\ Len(g.dl) <= W

\* Layer I facts that the design relies on (checked, not assumed)
NextTracksTrueNext == (g.started /\ (Fixed_F9 \/ m.valid)) => m.next = g.tn
DeltaIsMinusWithheld == g.started => m.delta = Mod(0 - g.wc)
\* after the repair of F12 no interval start is ever far enough behind to alias
NoStaleInterval == Fixed_F12 =>
  \A i \in 1..Len(m.entries) : Mod(m.next - m.entries[i].first) < Half \/ i # m.last + 1
=============================================================================
