---------------------------- MODULE Trace_Queue ----------------------------
(***************************************************************************)
(* Validates forced schedules of the REAL unbounded.Channel.  Per step the *)
(* model's Queue action is taken and the logged outcome is compared:       *)
(*   wait.ok   must be 1 when the model holds a token (a missing token is  *)
(*             a lost wake-up in the making)                               *)
(*   get.items must be exactly the model's queue (exactly once, in order)  *)
(*   end       nothing may be left without a token (quiescent lost wake-up)*)
(***************************************************************************)
EXTENDS Integers, Sequences, FiniteSets, TLC, Json

CONSTANTS TraceFile
Trace == ndJsonDeserialize(TraceFile)

VARIABLES l, queue, ch, pe, nbeh, nbad, skip, done
vars == <<l, queue, ch, pe, nbeh, nbad, skip, done>>

Init == /\ l = 1 /\ queue = <<>> /\ ch = 0 /\ pe = [p \in 1..8 |-> FALSE]
        /\ nbeh = 0 /\ nbad = 0 /\ skip = FALSE /\ done = FALSE
Ev == Trace[l]

Verdict(v) == /\ skip' = (v # "ok") /\ nbad' = IF v # "ok" THEN nbad + 1 ELSE nbad
              /\ (v # "ok" => PrintT(<<"TRACE-BAD", l, nbeh, v>>))

TNew == /\ Ev.ev = "New" /\ queue' = <<>> /\ ch' = 0 /\ pe' = [p \in 1..8 |-> FALSE]
        /\ nbeh' = nbeh + 1 /\ skip' = FALSE /\ UNCHANGED nbad
TPut == /\ Ev.ev = "put" /\ pe' = [pe EXCEPT ![Ev.p] = (queue = <<>>)]
        /\ queue' = Append(queue, Ev.p * 100 + Ev.k) /\ Verdict("ok") /\ UNCHANGED <<ch, nbeh>>
TSig == /\ Ev.ev = "sig" /\ ch' = IF pe[Ev.p] /\ ch = 0 THEN 1 ELSE ch
        /\ Verdict("ok") /\ UNCHANGED <<queue, pe, nbeh>>
TWait == /\ Ev.ev = "wait" /\ ch' = 0
         /\ Verdict(IF ch = 1 /\ Ev.ok = 0 THEN "C13_Q2_wakeup_token_missing" ELSE "ok")
         /\ UNCHANGED <<queue, pe, nbeh>>
TGet == /\ Ev.ev \in {"get", "unsol"} /\ queue' = <<>>
        /\ Verdict(IF Ev.items # queue THEN "C13_Q1_items_not_exactly_once_in_order" ELSE "ok")
        /\ UNCHANGED <<ch, pe, nbeh>>
TStuck == /\ Ev.ev = "stuck" /\ Verdict("C13_Q_put_blocked_or_lost") /\ UNCHANGED <<queue, ch, pe, nbeh>>
TEnd == /\ Ev.ev = "end"
        /\ Verdict(IF Ev.left # <<>> /\ Ev.token = 0 THEN "C13_Q2_lost_wakeup_at_quiescence"
                   ELSE IF Ev.completed = 1 /\ Ev.left # queue THEN "C13_Q1_items_not_exactly_once_in_order"
                   ELSE "ok")
        /\ UNCHANGED <<queue, ch, pe, nbeh>>
\* free-running stress: at quiescence nothing may be left behind without a wake-up, and every
\* item must have been delivered exactly once
TStress == /\ Ev.ev = "stress"
           /\ Verdict(IF Ev.left # 0 THEN "C13_Q2_lost_wakeup_at_quiescence"
                      ELSE IF Ev.got # Ev.total THEN "C13_Q1_items_not_exactly_once_in_order" ELSE "ok")
           /\ UNCHANGED <<queue, ch, pe, nbeh>>
TSkip == skip /\ Ev.ev \notin {"New", "end"} /\ UNCHANGED <<queue, ch, pe, nbeh, nbad, skip>>
\* the end-of-schedule judgement is made even after an earlier failure of the same schedule
TEndSkipped == skip /\ Ev.ev = "end" /\ UNCHANGED <<queue, ch, pe, nbeh, nbad, skip>>

Step == /\ l <= Len(Trace)
        /\ (TNew \/ TSkip \/ TEndSkipped \/ (~skip /\ (TPut \/ TSig \/ TWait \/ TGet \/ TStuck \/ TEnd \/ TStress)))
        /\ l' = l + 1 /\ UNCHANGED done
Finish == /\ l = Len(Trace) + 1 /\ ~done /\ done' = TRUE
          /\ PrintT(<<"TRACE-DONE", l - 1, nbeh, 0, nbad>>)
          /\ UNCHANGED <<l, queue, ch, pe, nbeh, nbad, skip>>
Next == Step \/ Finish
Spec == Init /\ [][Next]_vars
=============================================================================
