CONSTANTS
  TraceFile = "trace_signalling.ndjson"
INIT Init
NEXT Next
CHECK_DEADLOCK FALSE
