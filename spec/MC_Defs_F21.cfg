SPECIFICATION Spec
CONSTANTS
  Editors = {e1, e2, e3}
  Val = {a, b}
  MaxVer = 4
  Fixed_F21 = FALSE
CONSTRAINT Bounded
INVARIANTS X1 X1b X3
CHECK_DEADLOCK FALSE
SYMMETRY Symm
