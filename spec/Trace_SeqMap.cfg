CONSTANTS
  M = 65536
  W = 8192
  MaxEntries = 128
  PM = 65536
  Fixed_F9 = TRUE
  Fixed_F12 = TRUE
  TraceFile = "trace_seqmap.ndjson"
INIT Init
NEXT Next
CHECK_DEADLOCK FALSE
