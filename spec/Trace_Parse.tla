----------------------------- MODULE Trace_Parse -----------------------------
(* Judges the calls of the REAL packet classifiers / rewriter recorded by the codecs overlay harness: rows of       *)
(* Rewrite.tla's shape table (expected outcome attached), exhaustive short payloads and seeded random bytes.        *)
EXTENDS Integers, Sequences, FiniteSets, TLC, Json
CONSTANTS TraceFile
Trace == ndJsonDeserialize(TraceFile)
VARIABLES l, nbad, done
vars == <<l, nbad, done>>
Init == l = 1 /\ nbad = 0 /\ done = FALSE
Ev == Trace[l]
Judge(e) ==
  IF e.panic # "" THEN "C12_R4_parser_panicked"
  ELSE IF e.ev = "parse" /\ e.other = 1 THEN "C12_R4_classifier_modified_the_packet"
  ELSE IF e.ev = "rewrite" /\ e.lenchg # 0 THEN "C12_R4_rewriter_changed_the_packet_length"
  ELSE IF e.ev = "rewrite" /\ e.other = 1 THEN "C02_rewriter_changed_bytes_outside_seqno_marker_pictureid"
  ELSE IF e.ev = "rewrite" /\ e.expect = "rewritten" /\ e.got # "rewritten" THEN "C02_picture_id_not_rewritten_although_present"
  ELSE IF e.ev = "rewrite" /\ e.expect \in {"unchanged", "error", "error-or-unchanged"} /\ e.got = "rewritten"
       THEN "C02_picture_id_rewritten_where_none_is_wholly_present"
  ELSE IF e.ev = "rewrite" /\ e.expect = "unchanged" /\ e.got = "error" THEN "C02_well_formed_packet_rejected_by_rewriter"
  ELSE "ok"
Step == /\ l <= Len(Trace)
        /\ IF Ev.ev \in {"parse", "rewrite"}
           THEN LET v == Judge(Ev) IN
                /\ nbad' = IF v # "ok" THEN nbad + 1 ELSE nbad
                /\ (v # "ok" /\ nbad < 50 => PrintT(<<"TRACE-BAD", l, 1, v>>))
           ELSE UNCHANGED nbad
        /\ l' = l + 1 /\ UNCHANGED done
Finish == /\ l = Len(Trace) + 1 /\ ~done /\ done' = TRUE
          /\ PrintT(<<"TRACE-DONE", l - 1, 1, 0, IF nbad > 50 THEN 50 ELSE nbad>>) /\ UNCHANGED <<l, nbad>>
Next == Step \/ Finish
Spec == Init /\ [][Next]_vars
=============================================================================
