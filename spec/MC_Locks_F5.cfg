CONSTANTS
  Running = {"AddClient", "AddClient2", "DelClient", "WhipClose", "SetLocked", "Shutdown", "GetDescription", "Stats", "Reload", "History", "HistoryReplay", "OpLeaves"}
  MaxConc = 2
  Fixed_F4 = TRUE
  Fixed_F5 = FALSE
  Fixed_F8 = TRUE
  Fixed_F18 = TRUE
  WhipConnected = TRUE
  Async_Autokick = TRUE
  History_Copy = TRUE
SPECIFICATION Spec
INVARIANTS NoRace WellFormed
