----------------------------- MODULE CacheOps -----------------------------
(***************************************************************************)
(* Layer I of packetcache.Cache (packetcache/packetcache.go) as pure       *)
(* operators over a record c mirroring the Go struct:                      *)
(*   last, cycle, lastValid, expected, received, totalExpected,            *)
(*   totalReceived, kf, kfValid  -- RFC 3550 style counters                *)
(*   bmValid, bmFirst, bmBits    -- the loss bitmap (bits = set of offsets *)
(*                                  0..BitmapW-1 that are 1)               *)
(*   tail, ents                  -- the ring: ents[i+1] = [seq, id] or Nil *)
(* A stored packet is represented by an id (the harness derives bytes,     *)
(* length, timestamp and marker from the id and maps lookups back).        *)
(* Constants of the code are parameters: M (65536), BitmapW (32),          *)
(* GetW (17), LateT (0x100).                                               *)
(***************************************************************************)
EXTENDS Integers, Sequences, FiniteSets

CONSTANTS M, BitmapW, GetW, LateT,
          Fixed_F20,  \* TRUE: a restart of the counters also restarts the loss bitmap (the repaired code)
          Fixed_F26   \* TRUE: the bitmap no longer decides 'restart' on its own, relative to its first (the repaired code)

CHalf == M \div 2
CMod(x) == x % M
CCmp(s1, s2) == IF s1 = s2 THEN 0 ELSE IF CMod(s2 - s1) >= CHalf THEN 1 ELSE -1

\* seqnoInvalid(seqno, reference): unreasonably far in the past
Invalid(s, ref) == CCmp(ref, s) >= 0 /\ CMod(ref - s) > LateT

Nil == [seq |-> -1, id |-> 0]

NewCache(cap) ==
  [last |-> 0, cycle |-> 0, lastValid |-> FALSE, expected |-> 0, received |-> 0,
   totalExpected |-> 0, totalReceived |-> 0, kf |-> 0, kfValid |-> FALSE,
   bmValid |-> FALSE, bmFirst |-> 0, bmBits |-> {},
   tail |-> 0, ents |-> [i \in 1..cap |-> Nil]]

Cap(c) == Len(c.ents)

ShiftBits(S, k) == {i - k : i \in {j \in S : j >= k}}

RECURSIVE TrailingOnes(_, _)
TrailingOnes(S, n) == IF n \in S THEN TrailingOnes(S, n + 1) ELSE n

\* bitmap.set
BmSet(c, s) ==
  IF ~c.bmValid \/ (~Fixed_F26 /\ Invalid(s, c.bmFirst))
  THEN [c EXCEPT !.bmFirst = s, !.bmBits = {0}, !.bmValid = TRUE]
  ELSE IF CCmp(c.bmFirst, s) > 0 THEN c
  ELSE LET d   == CMod(s - c.bmFirst)
           sh  == IF d >= BitmapW THEN d - (BitmapW - 1) ELSE 0
           b1  == ShiftBits(c.bmBits, sh)
           f1  == CMod(c.bmFirst + sh)
           on  == IF 0 \in b1 THEN TrailingOnes(b1, 0) ELSE 0
           b2  == ShiftBits(b1, on)
           f2  == CMod(f1 + on)
           k   == CMod(s - f2)
       \* (a duplicate of a packet inside the run of ones just shifted out sets no bit:
       \*  Go's 1 << n is 0 for n >= 32)
       IN [c EXCEPT !.bmFirst = f2, !.bmBits = IF k < BitmapW THEN b2 \cup {k} ELSE b2]

\* bitmap.get(next): result [c, found, first, bits] ; bits = set of offsets 1..16 after `first`
\* that are also missing (the 16-bit NACK bitmap)
BmGet(c, next) ==
  LET first == c.bmFirst IN
  IF CCmp(first, next) >= 0 THEN [c |-> c, found |-> FALSE, first |-> first, bits |-> {}]
  ELSE LET cnt0 == CMod(next - first)
           cnt  == IF cnt0 > GetW THEN GetW ELSE cnt0
           zeros == {i \in 0..(cnt - 1) : i \notin c.bmBits}
           c1   == [c EXCEPT !.bmBits = ShiftBits(c.bmBits, cnt), !.bmFirst = CMod(first + cnt)]
       IN IF zeros = {} THEN [c |-> c1, found |-> FALSE, first |-> first, bits |-> {}]
          ELSE LET z0 == CHOOSE z \in zeros : \A y \in zeros : z <= y
               IN [c |-> c1, found |-> TRUE, first |-> CMod(first + z0),
                   bits |-> {z - z0 : z \in zeros \ {z0}}]

\* Cache.Store(seqno, ..., keyframe, ...): result [c, first, index]
Store(c, s, id, iskf) ==
  LET c1 == IF ~c.lastValid \/ Invalid(s, c.last)
            THEN [c EXCEPT !.last = s, !.lastValid = TRUE, !.expected = @ + 1, !.received = @ + 1,
                           !.bmValid = IF Fixed_F20 THEN FALSE ELSE @]
            ELSE LET cmp == CCmp(c.last, s) IN
                 IF cmp < 0
                 THEN [c EXCEPT !.received = @ + 1,
                                !.expected = @ + CMod(s - c.last),
                                !.cycle = IF s < c.last THEN @ + 1 ELSE @,
                                !.last = s,
                                !.kfValid = IF c.kfValid /\ CCmp(c.kf, s) > 0 THEN FALSE ELSE @]
                 ELSE IF cmp > 0 /\ c.received < c.expected THEN [c EXCEPT !.received = @ + 1]
                 ELSE c
      c2 == BmSet(c1, s)
      c3 == IF iskf THEN [c2 EXCEPT !.kf = s, !.kfValid = TRUE] ELSE c2
      i  == c3.tail
  IN [c |-> [c3 EXCEPT !.ents[i + 1] = [seq |-> s, id |-> id], !.tail = (i + 1) % Cap(c)],
      first |-> c3.bmFirst, index |-> i]

Expect(c, n) == IF n <= 0 THEN c ELSE [c EXCEPT !.expected = @ + n]

\* Cache.Get: first matching slot in slot order; 0 = nothing
Get(c, s) ==
  LET hits == {i \in 1..Cap(c) : c.ents[i].seq = s} IN
  IF hits = {} THEN 0 ELSE c.ents[CHOOSE i \in hits : \A j \in hits : i <= j].id

\* Cache.GetAt
GetAt(c, s, idx) ==
  IF idx >= Cap(c) THEN 0
  ELSE IF c.ents[idx + 1].seq # s THEN 0 ELSE c.ents[idx + 1].id

\* Cache.resize
Resize(c, cap) ==
  LET old == Cap(c)  t == c.tail IN
  IF old = cap THEN c
  ELSE IF cap > old
  THEN [c EXCEPT !.ents = [i \in 1..cap |->
                             IF i <= t THEN c.ents[i]
                             ELSE IF i > t + cap - old THEN c.ents[i - (cap - old)]
                             ELSE Nil]]
  ELSE IF cap > t
  THEN [c EXCEPT !.ents = [i \in 1..cap |->
                             IF i <= t THEN c.ents[i] ELSE c.ents[i + (old - cap)]]]
  ELSE [c EXCEPT !.ents = [i \in 1..cap |-> c.ents[t - cap + i]], !.tail = 0]

\* Cache.ResizeCond: result [c, ok]
ResizeCond(c, cap) ==
  LET cur == Cap(c) IN
  IF cur >= (cap * 3) \div 4 /\ cur < cap * 2 THEN [c |-> c, ok |-> FALSE]
  ELSE IF cap < cur /\ c.tail > cap THEN [c |-> c, ok |-> FALSE]
  ELSE [c |-> Resize(c, cap), ok |-> TRUE]

\* Cache.GetStats(reset): result [c, st]
GetStats(c, reset) ==
  LET st == [received |-> c.received, totalReceived |-> c.totalReceived + c.received,
             expected |-> c.expected, totalExpected |-> c.totalExpected + c.expected,
             eseqno |-> c.cycle * M + c.last]
  IN [c |-> IF reset THEN [c EXCEPT !.totalExpected = @ + c.expected, !.expected = 0,
                                    !.totalReceived = @ + c.received, !.received = 0]
            ELSE c,
      st |-> st]
=============================================================================
