---------------------------- MODULE SeqMonitor ----------------------------
(***************************************************************************)
(* Layer P of C01 as pure operators over a ghost record g.  The monitor    *)
(* sees only observable facts: the stream position of an arriving packet   *)
(* relative to the highest position so far (off = p - hi), whether the     *)
(* server withheld it ("D"), forwarded it ("F", under number out) or       *)
(* silently did not forward it ("X").                                      *)
(*   g.hi  highest stream position seen (absolute, -1 before the start)    *)
(*   g.tn  seqno of position hi+1                                          *)
(*   g.wc  number of positions withheld so far (mod M)                     *)
(*   g.dl  increasing sequence of the withheld positions that can still    *)
(*         matter (>= hi+1-W; older ones are pruned when Len > PruneAt)    *)
(* Judgement, the closed form of the property statement:                   *)
(*   P1  a forwarded position p carries seq(p) - #{withheld q < p} (mod M) *)
(*   P2  a withheld position is never forwarded                            *)
(* Withholding is only counted when it happens at a new highest position;  *)
(* a late packet that the server claims to withhold is not counted, so if  *)
(* the server shifts its numbering for it (which would falsify the numbers *)
(* of later positions already forwarded, or open a gap) P1 fails at the    *)
(* next forward.  P3 (a duplicate gets the number of the first copy),      *)
(* uniqueness, order and "no gap" are consequences of P1.                  *)
(***************************************************************************)
EXTENDS Integers, Sequences, FiniteSets

CONSTANTS M, W, PruneAt

LOCAL MMod(x) == x % M

InitGhost(t) == [tn |-> t, wc |-> 0, hi |-> -1, dl |-> <<>>, started |-> FALSE]

GWithheld(g, p) == \E k \in 1..Len(g.dl) : g.dl[k] = p

\* number of withheld positions strictly below position p (p within the window)
GWBelow(g, p) == IF p > g.hi THEN g.wc
                 ELSE g.wc - Cardinality({k \in 1..Len(g.dl) : g.dl[k] >= p})

LOCAL Prune(dl, hi) ==
  IF Len(dl) <= PruneAt THEN dl
  ELSE LET keep == {k \in 1..Len(dl) : dl[k] >= hi + 1 - W}
       IN IF keep = {} THEN <<>>
          ELSE SubSeq(dl, CHOOSE k \in keep : \A j \in keep : k <= j, Len(dl))

\* The arriving packet is at position p = hi + off and has seqno tn + off - 1.
\* Result: [g |-> ghost after, v |-> "ok" or the violated clause]
Observe(g, off, res, out) ==
  LET s == MMod(g.tn + off - 1)
      p == g.hi + off
  IN
  IF off >= 1
  THEN LET dl1 == IF res = "D" THEN Append(g.dl, p) ELSE g.dl
       IN [g |-> [tn |-> MMod(s + 1),
                  wc |-> IF res = "D" THEN MMod(g.wc + 1) ELSE g.wc,
                  hi |-> p, dl |-> Prune(dl1, p), started |-> TRUE],
           v |-> IF res = "F" /\ out # MMod(s - g.wc) THEN "P1_wrong_number" ELSE "ok"]
  ELSE IF res = "F"
       THEN [g |-> g,
             v |-> IF GWithheld(g, p) THEN "P2_withheld_forwarded"
                   ELSE IF out # MMod(s - GWBelow(g, p)) THEN "P1_wrong_number_late"
                   ELSE "ok"]
       ELSE [g |-> g, v |-> "ok"]

\* rotation-/translation-free view of the ghost for exhaustive checking
GView(g) == [tn |-> g.tn, wc |-> g.wc, started |-> g.started,
             dl |-> [k \in 1..Len(g.dl) |-> g.dl[k] - g.hi]]
=============================================================================
