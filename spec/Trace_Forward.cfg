CONSTANTS
  M = 65536
  W = 8192
  MaxEntries = 128
  PM = 65536
  Fixed_F9 = TRUE
  Fixed_F12 = TRUE
  Fixed_F1 = TRUE
  Known_F17 = TRUE
  TraceFile = "trace_forward.ndjson"
INIT Init
NEXT Next
CHECK_DEADLOCK FALSE
