--------------------------- MODULE Trace_SeqMap ---------------------------
(***************************************************************************)
(* Validates executions of the REAL packetmap.Map (recorded by the         *)
(* in-package driver, one NDJSON event per call) against SeqMap at the     *)
(* real constants.                                                         *)
(*   Layer P (verdict): the monitor is stepped with the LOGGED outcome of  *)
(*     every call; `bad` must stay "ok" (invariant PropertyHolds).         *)
(*   Layer I (drift): the model's prediction of result, outgoing number,   *)
(*     pid delta and projected state is compared with the logged values;   *)
(*     the first disagreement is recorded in `drift` and the model is then *)
(*     frozen for the rest of that behaviour (a refactoring that keeps the *)
(*     property must not raise an alarm).                                  *)
(* Events: New{start} | A{off,s,pid,wd,res,out,pd,st} | R{o,ok,src,pd}     *)
(***************************************************************************)
EXTENDS Integers, Sequences, FiniteSets, TLC, Json

CONSTANTS M, W, MaxEntries, PM, Fixed_F9, Fixed_F12, TraceFile

INSTANCE SeqMapOps
Mon == INSTANCE SeqMonitor WITH PruneAt <- 3 * W

Trace == ndJsonDeserialize(TraceFile)

VARIABLES l, m, g, bad, drift, frozen, nbeh, done, skip, nbad

vars == <<l, m, g, bad, drift, frozen, nbeh, done, skip, nbad>>

Init == /\ l = 1 /\ m = InitMap /\ g = Mon!InitGhost(0) /\ bad = "ok"
        /\ drift = 0 /\ frozen = FALSE /\ nbeh = 0 /\ done = FALSE /\ skip = FALSE /\ nbad = 0

Ev == Trace[l]

WriteStep(mm, s, pid, wd) ==
  LET dr == IF wd THEN DropOp(mm, s, pid) ELSE [m |-> mm, ok |-> FALSE] IN
  IF dr.ok THEN [m |-> dr.m, res |-> "D", out |-> 0, pd |-> 0]
  ELSE LET mp == MapOp(dr.m, s, pid) IN
       [m |-> mp.m, res |-> IF mp.ok THEN "F" ELSE "X",
        out |-> IF mp.ok THEN mp.out ELSE 0, pd |-> IF mp.ok THEN mp.pd ELSE 0]

Proj(mm) == [next |-> mm.next, delta |-> mm.delta, pidDelta |-> mm.pidDelta,
             n |-> Len(mm.entries), last |-> mm.last,
             lf |-> IF mm.entries = <<>> THEN 0 ELSE mm.entries[mm.last + 1].first,
             lc |-> IF mm.entries = <<>> THEN 0 ELSE mm.entries[mm.last + 1].count,
             ld |-> IF mm.entries = <<>> THEN 0 ELSE mm.entries[mm.last + 1].delta]

TNew == /\ Ev.ev = "New"
        /\ m' = InitMap /\ g' = Mon!InitGhost(Ev.start) /\ bad' = "ok"
        /\ frozen' = FALSE /\ nbeh' = nbeh + 1 /\ skip' = FALSE /\ UNCHANGED <<drift, nbad>>

TA == /\ Ev.ev = "A"
      /\ LET e  == Ev
             ob == Mon!Observe(g, e.off, e.res, e.out)
             ws == WriteStep(m, e.s, e.pid, e.wd = 1)
             same == /\ ws.res = e.res /\ ws.out = e.out /\ ws.pd = e.pd
                     /\ Proj(ws.m) = e.st
                     /\ e.s = Mod(g.tn + e.off - 1)
         IN /\ g' = ob.g
            /\ bad' = ob.v
            /\ skip' = (ob.v # "ok")
            /\ nbad' = IF ob.v # "ok" THEN nbad + 1 ELSE nbad
            /\ (ob.v # "ok" => PrintT(<<"TRACE-BAD", l, nbeh, ob.v>>))
            /\ IF frozen THEN UNCHANGED <<m, drift, frozen>>
               ELSE IF same THEN m' = ws.m /\ UNCHANGED <<drift, frozen>>
               ELSE m' = m /\ frozen' = TRUE /\ drift' = IF drift = 0 THEN l ELSE drift
      /\ UNCHANGED nbeh

TSkip == /\ skip /\ Ev.ev # "New" /\ UNCHANGED <<m, g, bad, drift, frozen, nbeh, skip, nbad>>

TR == /\ Ev.ev = "R"
      /\ LET e == Ev
             rv == ReverseOp(m, e.o)
             same == (IF rv.ok THEN 1 ELSE 0) = e.ok
                     /\ (rv.ok => rv.out = e.src /\ rv.pd = e.pd)
         IN IF frozen \/ same THEN UNCHANGED <<m, drift, frozen>>
            ELSE m' = m /\ frozen' = TRUE /\ drift' = IF drift = 0 THEN l ELSE drift
      /\ UNCHANGED <<g, bad, nbeh, skip, nbad>>

Step == /\ l <= Len(Trace)
        /\ (TNew \/ TSkip \/ (~skip /\ (TA \/ TR)))
        /\ l' = l + 1 /\ UNCHANGED done

Finish == /\ l = Len(Trace) + 1 /\ ~done /\ done' = TRUE
          /\ PrintT(<<"TRACE-DONE", l - 1, nbeh, drift, nbad>>)
          /\ UNCHANGED <<l, m, g, bad, drift, frozen, nbeh, skip, nbad>>

Next == Step \/ Finish
Spec == Init /\ [][Next]_vars

\* the verdict is reported through the TRACE-BAD / TRACE-DONE lines (a TLC counterexample
\* over thousands of trace states would be useless); this invariant only documents it
NoViolationSeen == nbad = 0
=============================================================================
