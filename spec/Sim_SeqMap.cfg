CONSTANTS
  M = 64
  W = 8
  MaxEntries = 4
  PM = 64
  Fixed_F9 = TRUE
  Fixed_F12 = TRUE
  Starts = {0, 1, 63, 56, 55, 32}
  SimDepth = 80
INIT SimInit
NEXT SimNext
INVARIANTS Emit PropertyHolds
