CONSTANTS
  M = 64
  W = 8
  MaxEntries = 4
  PM = 64
  PidM = 128
  Fixed_F9 = TRUE
  Fixed_F12 = TRUE
  Fixed_F1 = TRUE
  MaxT = 2
  MaxS = 0
  TwoPkt = TRUE
  LateOK = FALSE
  NackOK = FALSE
  MaxHi = 1000000
  Known_F17 = TRUE
  SimDepth = 50
INIT SimInit
NEXT SimNext
INVARIANTS Emit PropertyHolds
