------------------------------- MODULE Group -------------------------------
(***************************************************************************)
(* C10: admission to a group (group/group.go: add, AddClient,              *)
(* autoLockKick, DelClient, SetLocked, description reload).                *)
(* Layer I: the group's membership map, lock flag and current description, *)
(*          with one action per critical section of the code.              *)
(* Layer P: GroupMonitor, fed with the events that the critical sections   *)
(*          emit (the same events the hooks of the real code emit).        *)
(* Switch Fixed_F5: TRUE = DelClient re-evaluates autolock inside the      *)
(* critical section that removes the member (the repaired code); FALSE =   *)
(* it does so afterwards, without the lock (two separate steps).           *)
(***************************************************************************)
EXTENDS Integers, Sequences, FiniteSets, TLC

CONSTANTS Ops,         \* clients whose credentials grant "op"
          Users,       \* clients without "op"
          Configs,     \* set of descriptions [max, autolock, autokick, window]
          Fixed_F5

Clients == Ops \cup Users
GM == INSTANCE GroupMonitor

VARIABLES members, locked, cfg,       \* Layer I (Group.clients, Group.locked, Group.description)
          file,                       \* the description on disk (picked up by the next add())
          pendingAuto,                \* a DelClient that removed its member but has not yet run autoLockKick
          kicked,                     \* members told to leave by autokick (asynchronously)
          mon, bad                    \* Layer P

vars == <<members, locked, cfg, file, pendingAuto, kicked, mon, bad>>

Init == /\ members = {} /\ locked = FALSE /\ \E c \in Configs : cfg = c /\ file = c
        /\ pendingAuto = FALSE /\ kicked = {}
        /\ mon = GM!InitMon(cfg) /\ bad = "ok"

HasOp(S) == S \cap Ops # {}

\* autoLockKick(g) on state (mem, lk, cf): result [locked, kicked, ev]
AutoLK(mem, lk, cf) ==
  IF ~((cf.autolock /\ ~lk) \/ cf.autokick) \/ HasOp(mem)
  THEN [locked |-> lk, kicked |-> {}, auto |-> FALSE]
  ELSE [locked |-> lk \/ cf.autolock, kicked |-> IF cf.autokick THEN mem ELSE {},
        auto |-> cf.autolock /\ ~lk]

\* AddClient(c): add() (reload + autoLockKick) and the admission critical section are both
\* under groups.mu/g.mu; between them the group lock is released, so they are two steps
\* only as far as OTHER groups' operations are concerned -- for one group, g.mu is dropped and
\* retaken: another operation on this group can run in between.
VARIABLE joining   \* clients between add() and the admission critical section
allvars == <<members, locked, cfg, file, pendingAuto, kicked, mon, bad, joining>>

JoinAdd(c) ==
  /\ c \notin joining /\ bad = "ok"
  /\ LET cf == file
         a  == AutoLK(members, locked, cf)
         m1 == IF cf # cfg THEN GM!OnReload(mon, cf) ELSE mon
         m2 == IF a.auto THEN GM!OnLock(m1, TRUE) ELSE m1
     IN /\ cfg' = cf /\ locked' = a.locked /\ kicked' = kicked \cup a.kicked /\ mon' = m2
  /\ joining' = joining \cup {c}
  /\ UNCHANGED <<members, file, pendingAuto, bad>>

Admissible(c) ==
  \/ c \in Ops
  \/ /\ ~locked /\ cfg.window = "open"
     /\ (cfg.autokick => HasOp(members))
     /\ (cfg.max > 0 => Cardinality(members) < cfg.max)

JoinAdmit(c) ==
  /\ c \in joining /\ bad = "ok"
  /\ joining' = joining \ {c}
  /\ IF Admissible(c) /\ c \notin members
     THEN LET j == GM!OnAdmit(mon, c, c \in Ops) IN
          /\ members' = members \cup {c} /\ mon' = j.mon /\ bad' = j.v
     ELSE LET j == GM!OnRefuse(mon, c, c \in Ops, c \in members) IN
          /\ UNCHANGED members /\ mon' = j.mon /\ bad' = j.v
  /\ UNCHANGED <<locked, cfg, file, pendingAuto, kicked>>

Leave(c) ==
  /\ c \in members /\ bad = "ok" /\ ~pendingAuto
  /\ members' = members \ {c} /\ kicked' = kicked \ {c}
  /\ IF Fixed_F5
     THEN LET a == AutoLK(members \ {c}, locked, cfg)
              m1 == GM!OnLeave(mon, c)
          IN /\ locked' = a.locked /\ kicked' = (kicked \ {c}) \cup a.kicked
             /\ mon' = IF a.auto THEN GM!OnLock(m1, TRUE) ELSE m1
             /\ UNCHANGED pendingAuto
     ELSE /\ mon' = GM!OnLeave(mon, c) /\ pendingAuto' = TRUE /\ UNCHANGED locked
  /\ UNCHANGED <<cfg, file, bad, joining>>

\* the second, unlocked half of the unrepaired DelClient
LateAuto ==
  /\ pendingAuto /\ bad = "ok"
  /\ LET a == AutoLK(members, locked, cfg) IN
     /\ locked' = a.locked /\ kicked' = kicked \cup a.kicked
     /\ mon' = IF a.auto THEN GM!OnLock(mon, TRUE) ELSE mon
  /\ pendingAuto' = FALSE
  /\ UNCHANGED <<members, cfg, file, bad, joining>>

\* an operator that is a member locks / unlocks the group
SetLocked(b) ==
  /\ HasOp(members) /\ bad = "ok"
  /\ locked' = b /\ mon' = GM!OnLock(mon, b)
  /\ UNCHANGED <<members, cfg, file, pendingAuto, kicked, bad, joining>>

\* the administrator changes the description file
EditFile(c) == /\ c \in Configs /\ c # file /\ bad = "ok" /\ file' = c
               /\ UNCHANGED <<members, locked, cfg, pendingAuto, kicked, mon, bad, joining>>

Next == \/ \E c \in Clients : JoinAdd(c) \/ JoinAdmit(c) \/ Leave(c)
        \/ LateAuto
        \/ \E b \in BOOLEAN : SetLocked(b)
        \/ \E c \in Configs : EditFile(c)

InitAll == Init /\ joining = {}
Spec == InitAll /\ [][Next]_allvars

PropertyHolds == bad = "ok"
=============================================================================
