CONSTANTS
  Prod = {1, 2}
  NItems = 2
  Lossy = TRUE
  Unsolicited = TRUE
SPECIFICATION FairSpec
INVARIANTS Q1 Q2
PROPERTY AllDelivered
