----------------------------- MODULE StrMonitor -----------------------------
(***************************************************************************)
(* Layer P of C07 over what is observable on the websockets: the stimuli   *)
(* clients sent (join, leave, request, requestStream, offer = publish,     *)
(* close = unpublish, abort, disconnect) and the offer / close / answer /  *)
(* abort / joined messages clients received, in the order a sequential     *)
(* driver (quiescence after every stimulus) saw them.                      *)
(* A track is <<kind, name>>; a request is a function label -> set of      *)
(* kinds ("" = default).  Monitor state s:                                 *)
(*   grp[c] usr[c]   group / username the server assigned (joined)         *)
(*   req[c]          the client's request map; sreq[<<c, id>>] a per-      *)
(*                   stream request (requestStream) while that downstream  *)
(*                   exists                                                *)
(*   pend[<<c,id>>]  a publication sent by c, not yet answered             *)
(*   live[id]        [owner, label, tracks] of the published streams       *)
(*   held[<<c,id>>]  the tracks c was last offered for id, until a close   *)
(*   aborted         <<c, id>> pairs whose subscriber aborted them (or     *)
(*                   does not answer offers) since the last offer          *)
(*   cur             the stimulus whose effects are being observed         *)
(***************************************************************************)
EXTENDS Integers, Sequences, FiniteSets

None == [none |-> TRUE]
Has(f, k) == k \in DOMAIN f
Get(f, k, d) == IF k \in DOMAIN f THEN f[k] ELSE d
Put(f, k, v) == [x \in DOMAIN f \cup {k} |-> IF x = k THEN v ELSE f[x]]
Del(f, K) == [x \in DOMAIN f \ K |-> f[x]]
SetOf(sq) == {sq[i] : i \in 1..Len(sq)}

InitStr == [grp |-> <<>>, usr |-> <<>>, req |-> <<>>, sreq |-> <<>>, pend |-> <<>>, live |-> <<>>, held |-> <<>>,
            aborted |-> {}, noans |-> {}, ending |-> {}, cur |-> None, pipe |-> FALSE, bad |-> "ok"]

Flag(s, v) == IF s.bad = "ok" /\ v # "ok" THEN [s EXCEPT !.bad = v] ELSE s
FirstBad(vs) == LET b == SelectSeq(vs, LAMBDA x : x # "ok") IN IF b = <<>> THEN "ok" ELSE b[1]

\* requestedTracks: first audio; first video for "video", else last video for "video-low"
Select(kinds, T) ==
  LET A == SelectSeq(T, LAMBDA t : t[1] = "audio")
      V == SelectSeq(T, LAMBDA t : t[1] = "video")
  IN (IF "audio" \in kinds /\ A # <<>> THEN <<A[1]>> ELSE <<>>) \o
     (IF "video" \in kinds /\ V # <<>> THEN <<V[1]>>
      ELSE IF "video-low" \in kinds /\ V # <<>> THEN <<V[Len(V)]>> ELSE <<>>)

Grp(s, c) == Get(s.grp, c, "")
\* the kinds c asks of stream id
KindsFor(s, c, id) ==
  LET l == s.live[id].label
      r == Get(s.req, c, <<>>)
  IN IF Has(s.sreq, <<c, id>>) THEN s.sreq[<<c, id>>]
     ELSE IF Has(r, l) THEN r[l] ELSE IF Has(r, "") THEN r[""] ELSE {}
\* what c must hold of the live stream id
Want(s, c, id) ==
  LET o == s.live[id].owner IN
  IF c = o \/ Grp(s, c) = "" \/ Grp(s, c) # Grp(s, o) THEN <<>>
  ELSE Select(KindsFor(s, c, id), s.live[id].tracks)

\* an offer carries what the request selects from the tracks that have arrived so far: all of them once the publication is
\* complete, some sub-sequence of them before
SubSeqs(T) == {[i \in 1..Cardinality(I) |-> T[CHOOSE k \in I : Cardinality({j \in I : j < k}) = i - 1]] : I \in SUBSET (1..Len(T))}
OfferOK(s, c, id, tracks) ==
  IF s.live[id].complete THEN SetOf(tracks) = SetOf(Want(s, c, id))
  ELSE tracks # <<>> /\ \E T2 \in SubSeqs(s.live[id].tracks) : SetOf(tracks) = SetOf(Select(KindsFor(s, c, id), T2))

\* a stimulus by somebody else whose effects must stay with its sender
OwnBusiness(s, c) == s.cur # None /\ s.cur.type \in {"abort", "request", "requestStream"} /\ s.cur.c # c

\* every stream of c ends; c holds nothing any more
Depart(s, c) ==
  [s EXCEPT !.grp = Put(@, c, ""),
            !.live = Del(@, {id \in DOMAIN @ : @[id].owner = c}),
            !.held = Del(@, {k \in DOMAIN @ : k[1] = c}),
            !.sreq = Del(@, {k \in DOMAIN @ : k[1] = c}),
            !.pend = Del(@, {k \in DOMAIN @ : k[1] = c}),
            !.req = Del(@, {c}),
            !.aborted = {k \in @ : k[1] # c}]

---------------------------------------------------------------------------
\* m: [type, id, label, tracks, replace, req (function), kinds (set)]
MStim(s0, c, m) ==
  LET s == [s0 EXCEPT !.cur = [c |-> c, type |-> m.type]] IN
  \* (pipelined: the join that precedes the request on the same socket may not have been acknowledged yet)
  CASE m.type = "request" -> IF Grp(s, c) = "" /\ ~s.pipe THEN s ELSE [s EXCEPT !.req = Put(@, c, m.req)]
    \* (asking for nothing of one stream is the subscriber's own way of dropping it: like an abort, it lasts until the next offer)
    [] m.type = "requestStream" ->
         IF ~Has(s.held, <<c, m.id>>) THEN s
         ELSE LET s1 == [s EXCEPT !.sreq = Put(@, <<c, m.id>>, m.kinds)] IN
              IF Has(s1.live, m.id) /\ Want(s1, c, m.id) = <<>> THEN [s1 EXCEPT !.aborted = @ \cup {<<c, m.id>>}] ELSE s1
    [] m.type = "offer" -> [s EXCEPT !.pend = Put(@, <<c, m.id>>, [label |-> m.label, tracks |-> m.tracks, replace |-> m.replace])]
    [] m.type = "close" -> IF Has(s.live, m.id) /\ s.live[m.id].owner = c THEN [s EXCEPT !.live = Del(@, {m.id})] ELSE s
    [] m.type = "abort" -> [s EXCEPT !.aborted = @ \cup {<<c, m.id>>}]
    [] m.type = "leave" -> Depart(s, c)
    [] m.type = "noanswer" -> [s EXCEPT !.noans = @ \cup {c}]
    \* the driver will not wait for quiescence between the stimuli of this behaviour: what a message should carry at the
    \* instant it is sent is then not known to the monitor; only identity is judged per message, the rest at quiescence
    [] m.type = "pipelined" -> [s EXCEPT !.pipe = TRUE]
    \* an operator kicks m.id or takes its right to present away: if the server obeys, that client's streams end (the
    \* subscribers' closes may arrive before the monitor sees the publisher go)
    [] m.type \in {"kick", "unpresent"} -> [s EXCEPT !.ending = @ \cup {id \in DOMAIN s.live : s.live[id].owner = m.id}]
    \* the driver saw (in the server's statistics) that every track of the publication has arrived and the fan-out is over
    [] m.type = "complete" -> IF Has(s.live, m.id) THEN [s EXCEPT !.live = Put(@, m.id, [@[m.id] EXCEPT !.complete = TRUE])] ELSE s
    [] OTHER -> s
MGone(s, c) == Depart([s EXCEPT !.cur = [c |-> c, type |-> "gone"]], c)

\* m: [type, kind, id, source, username, label, tracks, group]
MRecv(s, c, m) ==
  CASE m.type = "joined" ->
         IF m.kind = "join" THEN [s EXCEPT !.grp = Put(@, c, m.group), !.usr = Put(@, c, m.username)]
         ELSE IF m.kind \in {"leave", "fail"} THEN Depart(s, c) ELSE s
    \* the server accepted (answer) or refused (abort) a publication
    [] m.type = "answer" /\ Has(s.pend, <<c, m.id>>) ->
         LET p == s.pend[<<c, m.id>>]
             s1 == [s EXCEPT !.pend = Del(@, {<<c, m.id>>}),
                             !.live = Put(IF p.replace # "" THEN Del(@, {p.replace}) ELSE @, m.id,
                                          [owner |-> c, label |-> p.label, tracks |-> p.tracks, complete |-> FALSE])]
         IN s1
    [] m.type = "abort" /\ Has(s.pend, <<c, m.id>>) -> [s EXCEPT !.pend = Del(@, {<<c, m.id>>})]
    \* the server tells a publisher that its stream is over (it lost the right to present)
    [] m.type = "abort" /\ Has(s.live, m.id) /\ s.live[m.id].owner = c -> [s EXCEPT !.live = Del(@, {m.id})]
    [] m.type = "offer" ->
         LET id == m.id
             known == Has(s.live, id)
             o == IF known THEN s.live[id].owner ELSE ""
             v == FirstBad(<<
               IF ~s.pipe /\ Grp(s, c) = "" THEN "C07_O1_stream_offered_to_a_client_that_has_not_joined" ELSE "ok",
               IF ~known THEN "C07_O1_offer_for_a_stream_that_is_not_being_published" ELSE "ok",
               IF ~s.pipe /\ known /\ Grp(s, c) # Grp(s, o) THEN "C07_O1_stream_offered_to_a_member_of_another_group" ELSE "ok",
               IF known /\ (m.source # o \/ m.username # Get(s.usr, o, "")) THEN "C07_O2_offer_not_labelled_with_the_publishers_id_and_username" ELSE "ok",
               IF known /\ m.label # s.live[id].label THEN "C07_O2_offer_carries_another_label" ELSE "ok",
               IF ~s.pipe /\ known /\ Want(s, c, id) = <<>> THEN "C07_O3_stream_offered_although_not_requested" ELSE "ok",
               IF ~s.pipe /\ known /\ ~OfferOK(s, c, id, m.tracks) THEN "C07_O3_offered_tracks_differ_from_the_requested_kinds" ELSE "ok",
               IF ~s.pipe /\ OwnBusiness(s, c) THEN "C07_X2_anothers_abort_or_request_changed_this_clients_downstream" ELSE "ok">>)
         \* an offer that replaces another stream takes the place of that downstream (no separate close is sent for it)
         IN Flag([s EXCEPT !.held = Put(IF m.replace # "" THEN Del(@, {<<c, m.replace>>}) ELSE @, <<c, id>>, m.tracks),
                           !.aborted = @ \ {<<c, id>>}], v)
    [] m.type = "close" ->
         LET id == m.id IN
         IF Has(s.live, id) /\ s.live[id].owner = c
         THEN [s EXCEPT !.live = Del(@, {id})]       \* the server closed the publisher's own stream (unpresent, failure)
         ELSE LET legit == \/ ~Has(s.live, id)                               \* it ended (or never existed)
                           \/ id \in s.ending                                 \* its publisher is being kicked / silenced
                           \/ ~s.live[id].complete                            \* pushed before any requested track had arrived
                           \/ Want(s, c, id) = <<>>                          \* not / no longer requested
                           \/ <<c, id>> \in s.aborted \/ c \in s.noans       \* the subscriber's own abort, failed negotiation
                  v == FirstBad(<<
                    IF ~s.pipe /\ ~legit THEN "C07_X1_close_for_a_live_requested_stream" ELSE "ok",
                    IF ~s.pipe /\ OwnBusiness(s, c) THEN "C07_X2_anothers_abort_or_request_changed_this_clients_downstream" ELSE "ok">>)
              IN Flag([s EXCEPT !.held = Del(@, {<<c, id>>}), !.sreq = Del(@, {<<c, id>>})], v)
    [] OTHER -> s

\* quiescence: offered <=> requested, with exactly the requested tracks; nothing is held of a stream that ended
MSettle(s) ==
  LET missing == \E id \in DOMAIN s.live : \E c \in DOMAIN s.grp :
                   /\ s.live[id].complete /\ Want(s, c, id) # <<>> /\ <<c, id>> \notin s.aborted /\ c \notin s.noans
                   /\ SetOf(Get(s.held, <<c, id>>, <<>>)) # SetOf(Want(s, c, id))
      stale == \E k \in DOMAIN s.held : ~Has(s.live, k[2])
      unwanted == \E k \in DOMAIN s.held : Has(s.live, k[2]) /\ s.live[k[2]].complete /\ Want(s, k[1], k[2]) = <<>>
  IN Flag([s EXCEPT !.cur = None, !.ending = {}], FirstBad(<<
       IF stale THEN "C07_T1_teardown_did_not_reach_a_subscriber" ELSE "ok",
       IF missing THEN "C07_O3_requested_stream_not_offered_with_the_requested_tracks" ELSE "ok",
       IF unwanted THEN "C07_O3_stream_still_offered_although_no_longer_requested" ELSE "ok">>))
=============================================================================
