----------------------------- MODULE Sim_Cache -----------------------------
(* Behaviour generator for the cache: Cache.tla with a history variable that  *)
(* is printed as JSON when SimDepth steps were taken (tlc -simulate).  Ops    *)
(* are [kind, a, b, c]: 0 arrive(off, kf, packets) 3 resize(cap)              *)
(* 4 resizeCond(cap) 5 stats(reset); replayed on the real packetcache.Cache   *)
(* with every recent packet looked up after every step.                       *)
EXTENDS Cache, Json

CONSTANTS SimDepth
VARIABLES hist, cap0, s0

SimInit == Init /\ hist = <<>> /\ cap0 = Cap(c) /\ s0 = CMod(q.sh + 1)

Rec(op) == hist' = Append(hist, op) /\ UNCHANGED <<cap0, s0>>

SimNext ==
  /\ bad = "ok"
  /\ \/ \E off \in (IF ~q.started THEN {1} ELSE Offs), kf \in KFs, pk \in 2..MaxPackets :
          Arrive(off, 1 + (Len(hist) % 2), kf, pk) /\ Rec(<<0, off, IF kf THEN 1 ELSE 0, pk>>)
     \/ \E cap \in Caps :
          /\ c' = Resize(c, cap) /\ h' = CM!C05Resize(h, cap, cap # Cap(c))
          /\ bad' = C05All(c', h') /\ UNCHANGED q /\ Rec(<<3, cap, 0, 0>>)
     \/ \E cap \in Caps : LET r == ResizeCond(c, cap) IN
          /\ c' = r.c /\ h' = CM!C05Resize(h, cap, r.ok /\ cap # Cap(c))
          /\ bad' = C05All(c', h') /\ UNCHANGED q /\ Rec(<<4, cap, 0, 0>>)
     \/ \E reset \in BOOLEAN : LET r == GetStats(c, reset)  j == CM!C06Stats(q, r.st) IN
          /\ c' = r.c /\ q' = j.q /\ bad' = j.v /\ UNCHANGED h /\ Rec(<<5, IF reset THEN 1 ELSE 0, 0, 0>>)

\* (printed for every successor TLC generates at that depth; the orchestrator keeps one
\* behaviour per distinct prefix)
Emit == Len(hist) = SimDepth
          => PrintT(<<"BEH", ToJson([start |-> s0, cap |-> cap0, ops |-> hist])>>)
=============================================================================
