----------------------------- MODULE Signalling -----------------------------
(***************************************************************************)
(* The websocket signalling state machine of rtpconn/webclient.go          *)
(* (handleClientMessage, handleAction) together with group membership, as  *)
(* one atomic action per handled client message, emitting the messages the *)
(* server sends.  The emitted event sequence of every step is folded       *)
(* through SigMonitor (Layer P of C08, C11, C14, C15 and the signalling    *)
(* part of C12), which is the same monitor that judges the real traces.    *)
(*                                                                         *)
(* Abstractions: passwords are right/wrong; a user's role determines its   *)
(* permissions (Auth.tla's table); chat values are drawn from a small set; *)
(* media (offer/answer) is modelled in Streams.tla; the detached change    *)
(* broadcasts are delivered in order (the sequential driver cannot see     *)
(* them reordered; see DESIGN.md F15).                                     *)
(* Switches (TRUE = the repaired code in /repo):                           *)
(*   Fixed_F2  a refused join leaves no permissions behind                 *)
(*   Fixed_F10 permission edits do not alias the role table                *)
(*   Fixed_F11 edittoken reaches only tokens of the member's own group     *)
(***************************************************************************)
EXTENDS Integers, Sequences, FiniteSets, TLC

CONSTANTS Clients, Groups, AllowRec, Unrestricted,
          Fixed_F2, Fixed_F10, Fixed_F11,
          MaxSteps

SM == INSTANCE SigMonitor

Users == {"op", "pr", "ms", "ob"}          \* configured users, named after their role
RolePerms(u) ==
  CASE u = "op" -> {"op", "present", "message", "caption", "token"} \cup (IF AllowRec THEN {"record"} ELSE {})
    [] u = "pr" -> {"present", "message"} \cup (IF Unrestricted THEN {"token"} ELSE {})
    [] u = "ms" -> {"message"}
    [] u = "ob" -> {}
    [] OTHER -> {"present", "message"} \cup (IF Unrestricted THEN {"token"} ELSE {})   \* wildcard user
ToSeq(S) == CHOOSE sq \in [1..Cardinality(S) -> S] : {sq[i] : i \in 1..Cardinality(S)} = S
ExpTable == [g \in Groups |-> [u \in Users \cup {"*"} |-> ToSeq(RolePerms(u))]]

VARIABLES st, grp, usr, perm, locked, toks, roleop, hist, steps, mon, bad
vars == <<st, grp, usr, perm, locked, toks, roleop, hist, steps, mon, bad>>

NoTok == [g |-> "", perms |-> <<>>, exp |-> 0, sub |-> 0, user |-> ""]
Msg(t, k) == [type |-> t, kind |-> k, id |-> "", source |-> "", dest |-> "", username |-> "", hasuser |-> 0,
              privileged |-> 0, group |-> "", perms |-> <<>>, value |-> "", error |-> "", noecho |-> 0,
              label |-> "", replace |-> "", tracks |-> <<>>, data |-> "", request |-> "", tok |-> NoTok,
              clear |-> [user |-> "", id |-> ""], tgroups |-> <<>>, seqno |-> -1]
Sent(c, m) == [ev |-> "sent", c |-> c, m |-> m]
Recv(c, m) == [ev |-> "recv", c |-> c, m |-> m]
Closed(c) == [ev |-> "wsclosed", c |-> c]

Init == /\ st = [c \in Clients |-> "new"] /\ grp = [c \in Clients |-> ""] /\ usr = [c \in Clients |-> ""]
        /\ perm = [c \in Clients |-> {}] /\ locked = [g \in Groups |-> FALSE]
        /\ toks = {} /\ roleop = RolePerms("op") /\ steps = 0
        /\ hist = [g \in Groups |-> <<>>]     \* Group.history: broadcast chats, newest last, at most 50
        /\ mon = SM!InitSig(ExpTable) /\ bad = "ok"

Mem(g) == {c \in Clients : st[c] = "member" /\ grp[c] = g}
Err(c) == Recv(c, [Msg("usermessage", "error") EXCEPT !.privileged = 1])

\* fold a sequence of events through the monitor: [mon, v]
RECURSIVE Fold(_, _)
Fold(m, evs) ==
  IF evs = <<>> THEN [mon |-> m, v |-> "ok"]
  ELSE LET e == evs[1]
           r == CASE e.ev = "sent" -> [s |-> SM!OnSent(m, e.c, e.m), v |-> "ok"]
                  [] e.ev = "recv" -> SM!OnRecv(m, e.c, e.m)
                  [] e.ev = "wsclosed" -> SM!OnClosed(m, e.c)
                  [] e.ev = "closews" -> [s |-> SM!OnGone(m, e.c), v |-> "ok"]
       IN IF r.v # "ok" THEN [mon |-> r.s, v |-> r.v] ELSE Fold(r.s, Tail(evs))

\* (the driver settles after every stimulus)
Emit(evs) == LET r == Fold(mon, evs)
                 q == SM!OnSettled(r.mon)
             IN mon' = q.s /\ bad' = (IF r.v # "ok" THEN r.v ELSE q.v) /\ steps' = steps + 1

UserMsg(k, id, u, ps) == [Msg("user", k) EXCEPT !.id = id, !.username = u, !.hasuser = 1, !.perms = ToSeq(ps)]
SeqOfSet(S, f(_)) == LET sq == ToSeq(S) IN [i \in 1..Len(sq) |-> f(sq[i])]
Flat(ss) == IF ss = <<>> THEN <<>> ELSE LET RECURSIVE F(_) F(x) == IF x = <<>> THEN <<>> ELSE x[1] \o F(Tail(x)) IN F(ss)

\* ------------------------------------------------------------------ join / leave / disconnect
Join(c, g, u, good) ==
  /\ st[c] # "closed"
  /\ LET m == [Msg("join", "join") EXCEPT !.group = g, !.username = u, !.hasuser = 1]
         ps == IF u = "op" THEN roleop ELSE RolePerms(u)
         isop == "op" \in ps
     IN IF st[c] = "member"
        THEN \* "cannot join multiple groups": a protocol error closes the connection
             /\ st' = [st EXCEPT ![c] = "closed"] /\ perm' = [perm EXCEPT ![c] = {}]
             /\ Emit(<<Sent(c, m), Closed(c)>> \o
                     SeqOfSet(Mem(grp[c]) \ {c}, LAMBDA x : Recv(x, UserMsg("delete", c, usr[c], {}))))
             /\ UNCHANGED <<grp, usr, locked, toks, roleop, hist>>
        ELSE IF good /\ (isop \/ ~locked[g])
        THEN /\ st' = [st EXCEPT ![c] = "member"] /\ grp' = [grp EXCEPT ![c] = g]
             /\ usr' = [usr EXCEPT ![c] = u] /\ perm' = [perm EXCEPT ![c] = ps]
             /\ Emit(<<Sent(c, m),
                       Recv(c, [Msg("joined", "join") EXCEPT !.group = g, !.username = u, !.hasuser = 1, !.perms = ToSeq(ps)]),
                       Recv(c, UserMsg("add", c, u, ps))>>
                     \o [i \in 1..Len(hist[g]) |-> Recv(c, [Msg("chathistory", "") EXCEPT !.id = hist[g][i].id,
                                                              !.source = hist[g][i].src, !.value = hist[g][i].val])]
                     \o Flat(SeqOfSet(Mem(g), LAMBDA x : <<Recv(c, UserMsg("add", x, usr[x], perm[x])),
                                                         Recv(x, UserMsg("add", c, u, ps))>>)))
             /\ UNCHANGED <<locked, toks, roleop, hist>>
        ELSE \* refused: wrong password, or locked.  The unrepaired code leaves the credentials'
             \* permissions on the connection
             /\ st' = [st EXCEPT ![c] = "refused"]
             /\ perm' = [perm EXCEPT ![c] = IF good /\ ~Fixed_F2 THEN ps ELSE {}]
             /\ usr' = [usr EXCEPT ![c] = IF good THEN u ELSE @]
             /\ Emit(<<Sent(c, m), Recv(c, [Msg("joined", "fail") EXCEPT !.group = g, !.hasuser = 1, !.username = usr'[c]])>>)
             /\ UNCHANGED <<grp, locked, toks, roleop, hist>>

Leave(c) ==
  /\ st[c] # "closed"
  /\ LET m == [Msg("join", "leave") EXCEPT !.group = grp[c]] IN
     IF st[c] = "member"
     THEN /\ st' = [st EXCEPT ![c] = "left"] /\ perm' = [perm EXCEPT ![c] = {}]
          /\ Emit(<<Sent(c, m), Recv(c, [Msg("joined", "leave") EXCEPT !.group = grp[c], !.hasuser = 1, !.username = usr[c]])>>
                  \o SeqOfSet(Mem(grp[c]) \ {c}, LAMBDA x : Recv(x, UserMsg("delete", c, usr[c], {}))))
          /\ UNCHANGED <<grp, usr, locked, toks, roleop, hist>>
     ELSE /\ Emit(<<Sent(c, [m EXCEPT !.group = "g"]), Err(c)>>) /\ UNCHANGED <<st, grp, usr, perm, locked, toks, roleop, hist>>

Disconnect(c) ==
  /\ st[c] # "closed"
  /\ st' = [st EXCEPT ![c] = "closed"] /\ perm' = [perm EXCEPT ![c] = {}]
  /\ Emit(<<[ev |-> "closews", c |-> c]>> \o
          (IF st[c] = "member" THEN SeqOfSet(Mem(grp[c]) \ {c}, LAMBDA x : Recv(x, UserMsg("delete", c, usr[c], {}))) ELSE <<>>))
  /\ UNCHANGED <<grp, usr, locked, toks, roleop, hist>>

\* a client whose connection was closed connects again (same id, a new connection)
Reconnect(c) ==
  /\ st[c] = "closed"
  /\ st' = [st EXCEPT ![c] = "new"] /\ usr' = [usr EXCEPT ![c] = ""] /\ grp' = [grp EXCEPT ![c] = ""]
  /\ steps' = steps + 1
  /\ UNCHANGED <<perm, locked, toks, roleop, hist, mon, bad>>

\* ------------------------------------------------------------------ chat
\* claimS / claimU: "own", "other", "none"
Chat(c, t, k, d, claimS, claimU, ne, val) ==
  /\ st[c] # "closed"
  /\ LET other == CHOOSE x \in Clients : x # c
         m == [Msg(t, k) EXCEPT !.dest = d, !.value = val, !.noecho = IF ne THEN 1 ELSE 0,
                  !.source = IF claimS = "own" THEN c ELSE IF claimS = "other" THEN other ELSE "",
                  !.hasuser = IF claimU = "none" THEN 0 ELSE 1,
                  !.username = IF claimU = "own" THEN usr[c] ELSE IF claimU = "other" THEN "mallory" ELSE ""]
         spoof == claimS = "other" \/ claimU = "other"
         need == IF t = "chat" /\ k = "caption" THEN "caption" ELSE "message"
         out == [m EXCEPT !.privileged = IF "op" \in perm[c] THEN 1 ELSE 0]
     IN IF spoof
        THEN /\ st' = [st EXCEPT ![c] = "closed"] /\ perm' = [perm EXCEPT ![c] = {}]
             /\ Emit(<<Sent(c, m), Closed(c)>> \o
                     (IF st[c] = "member" THEN SeqOfSet(Mem(grp[c]) \ {c}, LAMBDA x : Recv(x, UserMsg("delete", c, usr[c], {}))) ELSE <<>>))
             /\ UNCHANGED <<grp, usr, locked, toks, roleop, hist>>
        ELSE /\ UNCHANGED <<st, grp, usr, perm, locked, toks, roleop>>
             /\ IF st[c] # "member" \/ need \notin perm[c] THEN Emit(<<Sent(c, m), Err(c)>>) /\ UNCHANGED hist
                ELSE IF d = ""
                THEN /\ Emit(<<Sent(c, m)>> \o SeqOfSet(Mem(grp[c]) \ (IF ne THEN {c} ELSE {}), LAMBDA x : Recv(x, out)))
                     /\ hist' = IF t = "chat"
                                THEN [hist EXCEPT ![grp[c]] = SM!LastN(Append(@, [id |-> m.id, src |-> m.source, val |-> m.value]), SM!HistMax)]
                                ELSE hist
                ELSE IF d \in Mem(grp[c]) THEN Emit(<<Sent(c, m), Recv(d, out)>>) /\ UNCHANGED hist
                ELSE Emit(<<Sent(c, m), Err(c)>>) /\ UNCHANGED hist

\* ------------------------------------------------------------------ moderation
Edit(ps, k) ==
  CASE k = "op" -> ps \cup {"op"} \cup (IF AllowRec THEN {"record"} ELSE {})
    [] k = "unop" -> ps \ {"op", "record"}
    [] k = "present" -> ps \cup {"present"}
    [] k = "unpresent" -> ps \ {"present"}
    [] k = "shutup" -> ps \ {"message"}
    [] k = "unshutup" -> ps \cup {"message"}

UserAction(c, k, d) ==
  /\ st[c] # "closed"
  /\ LET m == [Msg("useraction", k) EXCEPT !.dest = d] IN
     IF st[c] # "member" \/ "op" \notin perm[c] \/ d \notin Mem(grp[c])
     THEN Emit(<<Sent(c, m), Err(c)>>) /\ UNCHANGED <<st, grp, usr, perm, locked, toks, roleop, hist>>
     ELSE IF k = "kick"
     THEN /\ st' = [st EXCEPT ![d] = "closed"] /\ perm' = [perm EXCEPT ![d] = {}]
          /\ Emit(<<Sent(c, m), Recv(d, [Msg("usermessage", "kicked") EXCEPT !.privileged = 1]), Closed(d)>>
                  \o SeqOfSet(Mem(grp[c]) \ {d}, LAMBDA x : Recv(x, UserMsg("delete", d, usr[d], {}))))
          /\ UNCHANGED <<grp, usr, locked, toks, roleop, hist>>
     ELSE IF k = "identify"
     THEN Emit(<<Sent(c, m), Recv(c, [Msg("usermessage", "userinfo") EXCEPT !.privileged = 1])>>)
          /\ UNCHANGED <<st, grp, usr, perm, locked, toks, roleop, hist>>
     ELSE LET np == Edit(perm[d], k)
              \* the unrepaired code edits the shared role table of "op" in place
              alias == ~Fixed_F10 /\ usr[d] = "op" /\ k \in {"unop", "unpresent", "shutup"}
          IN /\ perm' = [x \in Clients |-> IF x = d THEN np
                                           ELSE IF alias /\ usr[x] = "op" /\ st[x] = "member" THEN Edit(perm[x], k) ELSE perm[x]]
             /\ roleop' = IF alias THEN Edit(roleop, k) ELSE roleop
             /\ Emit(<<Sent(c, m), Recv(d, [Msg("joined", "change") EXCEPT !.group = grp[d], !.username = usr[d], !.hasuser = 1, !.perms = ToSeq(np)])>>
                     \o SeqOfSet(Mem(grp[c]), LAMBDA x : Recv(x, UserMsg("change", d, usr[d], np))))
             /\ UNCHANGED <<st, grp, usr, locked, toks, hist>>

GroupAction(c, k) ==
  /\ st[c] # "closed"
  /\ LET m == Msg("groupaction", k) IN
     IF st[c] # "member" \/ "op" \notin perm[c]
     THEN Emit(<<Sent(c, m), Err(c)>>) /\ UNCHANGED <<st, grp, usr, perm, locked, toks, roleop, hist>>
     ELSE IF k \in {"lock", "unlock"}
     THEN /\ locked' = [locked EXCEPT ![grp[c]] = (k = "lock")]
          /\ Emit(<<Sent(c, m)>> \o SeqOfSet(Mem(grp[c]), LAMBDA x :
                    Recv(x, [Msg("joined", "change") EXCEPT !.group = grp[x], !.username = usr[x], !.hasuser = 1, !.perms = ToSeq(perm[x])])))
          /\ UNCHANGED <<st, grp, usr, perm, toks, roleop, hist>>
     ELSE IF k = "clearchat"
     THEN Emit(<<Sent(c, m)>> \o SeqOfSet(Mem(grp[c]), LAMBDA x : Recv(x, [Msg("usermessage", "clearchat") EXCEPT !.privileged = 1])))
          /\ hist' = [hist EXCEPT ![grp[c]] = <<>>]
          /\ UNCHANGED <<st, grp, usr, perm, locked, toks, roleop>>
     ELSE \* subgroups
          Emit(<<Sent(c, m), Recv(c, [Msg("chat", "") EXCEPT !.dest = c, !.username = "Server", !.hasuser = 1])>>)
          /\ UNCHANGED <<st, grp, usr, perm, locked, toks, roleop, hist>>

\* ------------------------------------------------------------------ tokens
MakeToken(c, tg, ps, ex, sub, tu) ==
  /\ st[c] # "closed"
  /\ LET tk == [g |-> tg, perms |-> ToSeq(ps), exp |-> IF ex THEN 1 ELSE 0, sub |-> IF sub THEN 1 ELSE 0, user |-> tu]
         m == [Msg("groupaction", "maketoken") EXCEPT !.tok = tk]
         \* (the parser of the request ignores includeSubgroups: the created token never covers subgroups)
         rep(e) == Recv(c, [Msg("usermessage", "token") EXCEPT !.privileged = 1, !.error = e,
                                                              !.tok = IF e = "" THEN [tk EXCEPT !.sub = 0] ELSE NoTok,
                                                              !.tgroups = IF e = "" THEN <<tg>> ELSE <<>>])
     IN IF st[c] # "member" THEN Emit(<<Sent(c, m), Err(c)>>) /\ UNCHANGED toks
        ELSE IF "token" \notin perm[c] THEN Emit(<<Sent(c, m), rep("not-authorised")>>) /\ UNCHANGED toks
        ELSE IF tg # grp[c] \/ ~ex \/ tu \in Users THEN Emit(<<Sent(c, m), rep("error")>>) /\ UNCHANGED toks
        ELSE IF ~(ps \subseteq perm[c]) THEN Emit(<<Sent(c, m), rep("not-authorised")>>) /\ UNCHANGED toks
        ELSE Emit(<<Sent(c, m), rep("")>>) /\ toks' = toks \cup {[g |-> tg, by |-> c]}
  /\ UNCHANGED <<st, grp, usr, perm, locked, roleop, hist>>

Next ==
  /\ bad = "ok" /\ steps < MaxSteps
  /\ \/ \E c \in Clients, g \in Groups, u \in Users \cup {"guest"}, good \in BOOLEAN : Join(c, g, u, good)
     \/ \E c \in Clients : Leave(c) \/ Disconnect(c) \/ Reconnect(c)
     \/ \E c \in Clients, t \in {"chat", "usermessage"}, k \in {"", "caption"}, d \in {""} \cup Clients,
           cs \in {"own", "other", "none"}, cu \in {"own", "other", "none"}, ne \in BOOLEAN :
           Chat(c, t, k, d, cs, cu, ne, "v")
     \/ \E c \in Clients, k \in {"op", "unop", "present", "unpresent", "shutup", "unshutup", "kick", "identify"},
           d \in Clients : UserAction(c, k, d)
     \/ \E c \in Clients, k \in {"lock", "unlock", "clearchat", "subgroups"} : GroupAction(c, k)
     \/ \E c \in Clients, tg \in Groups, ps \in {{}, {"present"}, {"op"}, {"present", "message"}, {"message", "op"}},
           ex \in BOOLEAN, sub \in BOOLEAN, tu \in {"", "op", "newname"} : MakeToken(c, tg, ps, ex, sub, tu)

Spec == Init /\ [][Next]_vars
PropertyHolds == bad = "ok"
\* Layer I agrees with what the monitor has been told by the server's own messages
Consistent == \A c \in Clients : st[c] = "member" => (SM!IsMember(mon, c) /\ SM!Told(mon, c) = perm[c])
=============================================================================
