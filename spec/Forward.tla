------------------------------ MODULE Forward ------------------------------
(***************************************************************************)
(* C02, C03, C04 (and C01 in composition): the forwarding path of one      *)
(* receiver.  Layer I = ForwardOps (Write / adjustLayer / replaceTracks /  *)
(* gotNACK over the real interval table of SeqMapOps).  Layer P =          *)
(* SeqMonitor + FwdMonitor, fed with the outcome of each step.             *)
(*                                                                         *)
(* Environment: a publisher sending frames of one or two packets with any  *)
(* (tid, sid, keyframe, up-switch, non-reference) pattern; packets arrive  *)
(* in order or as late copies of one of the last W packets; at any moment  *)
(* the receiver's feedback may call adjustLayer (either direction), the    *)
(* request may set/clear limitSid, and the receiver may NACK any outgoing  *)
(* number, which the publisher's cache may or may not still hold.          *)
(***************************************************************************)
EXTENDS Integers, Sequences, FiniteSets, TLC

CONSTANTS M, W, MaxEntries, PM, Fixed_F9, Fixed_F12, PidM, Fixed_F1,
          MaxT, MaxS,     \* highest temporal / spatial layer the publisher uses
          TwoPkt,         \* frames may have two packets
          LateOK,         \* late copies of recent packets may arrive
          NackOK,         \* the receiver may send NACKs
          Known_F17,      \* exempt the known finding F17 (see known_findings.json)
          MaxHi           \* state constraint: stream positions explored (bounded configs only)

INSTANCE ForwardOps
Mon == INSTANCE SeqMonitor WITH PruneAt <- 0
FM  == INSTANCE FwdMonitor

VARIABLES L, m,          \* Layer I
          g, p,          \* ghosts of C01 and of C02's picture-id clause
          gmt, gms,      \* highest tid / sid fed so far
          hist,          \* ground truth + first transmission of the last W positions
          mid,           \* frame whose second packet is still to come, or "none"
          npid,          \* picture id of the next frame
          bad

vars == <<L, m, g, p, gmt, gms, hist, mid, npid, bad>>

None == [none |-> TRUE]
Bool2 == {FALSE, TRUE}

\* hist[k], k \in 1..W: position hi-W+k.  f = ground truth with seq; first = None or
\* [out, mk, pid, sidAt] of the first transmission; wh = withheld
EmptySlot == [f |-> None, first |-> None, wh |-> FALSE]

Init == /\ L = InitLayer /\ m = InitMap
        /\ g = Mon!InitGhost(0) /\ p = FM!InitPid
        /\ gmt = 0 /\ gms = 0
        /\ hist = [k \in 1..W |-> EmptySlot]
        /\ mid = None /\ npid = 0 /\ bad = "ok"

First(vs) == IF vs = <<>> THEN "ok"
             ELSE LET b == SelectSeq(vs, LAMBDA x : x # "ok") IN IF b = <<>> THEN "ok" ELSE b[1]

\* a fresh in-order packet with ground truth ff (without seq)
Fresh(ff, dir) ==
  LET f   == [ff EXCEPT !.seq = g.tn]
      r   == WriteOp(L, m, f, dir, PidM)
      ob  == Mon!Observe(g, 1, r.res, r.out)
      gt  == IF f.tid > gmt THEN f.tid ELSE gmt
      gs  == IF f.sid > gms THEN f.sid ELSE gms
      pc  == FM!C02Pid(p, f, r.res, r.pid, TRUE, PidM)
      chg == (IF r.res = "F" /\ r.out # f.seq THEN {"seq"} ELSE {})
             \cup (IF r.res = "F" /\ r.marker # f.marker THEN {"marker"} ELSE {})
             \cup (IF r.res = "F" /\ PidM # 0 /\ r.pid # f.pid THEN {"pid"} ELSE {})
      slot == [f |-> f, wh |-> r.res = "D",
               first |-> IF r.res = "F" THEN [out |-> r.out, mk |-> r.marker, pid |-> r.pid, sidAt |-> r.L.sid]
                         ELSE None]
  IN /\ L' = r.L /\ m' = r.m /\ g' = ob.g /\ p' = pc.p /\ gmt' = gt /\ gms' = gs
     /\ hist' = [k \in 1..W |-> IF k = W THEN slot ELSE hist[k + 1]]
     /\ bad' = First(<< ob.v,
                        FM!C04Packet(L, r.L, f, r.res, g.started, gt, gs),
                        IF r.res = "F" THEN FM!C02Fields(chg, f, r.L, r.marker, FALSE, PidM) ELSE "ok",
                        pc.v >>)

\* Without spatial layers (VP8-like) the marker is on the last packet of a frame and there are
\* no non-reference flags; with spatial layers (VP9-like) the source marker is only on the last
\* packet of the top layer, if at all.
Frames == { [seq |-> 0, pid |-> 0, tid |-> t, sid |-> s, start |-> TRUE, end |-> TRUE,
             kf |-> k, tidup |-> u \/ k, nonref |-> n, marker |-> mk] :
            t \in 0..MaxT, s \in 0..MaxS, k \in Bool2, u \in Bool2,
            n \in (IF MaxS = 0 THEN {FALSE} ELSE Bool2),
            mk \in (IF MaxS = 0 THEN {TRUE} ELSE Bool2) }

\* the publisher sends the next packet (marker: only ever on the last packet of a frame)
Send ==
  /\ bad = "ok"
  /\ \E dir \in {"up", "down", "none"} :
     IF mid # None
     THEN /\ Fresh([mid EXCEPT !.start = FALSE, !.kf = FALSE, !.tidup = FALSE, !.end = TRUE], dir)
          /\ mid' = None /\ UNCHANGED npid
     ELSE \E fr \in Frames, two \in (IF TwoPkt THEN Bool2 ELSE {FALSE}) :
          LET f0 == [fr EXCEPT !.pid = npid] IN
          /\ npid' = IF PidM = 0 THEN 0 ELSE (npid + 1) % PidM
          /\ IF two
             THEN /\ Fresh([f0 EXCEPT !.end = FALSE, !.marker = FALSE], dir) /\ mid' = f0
             ELSE /\ Fresh(f0, dir) /\ mid' = None

\* a late copy of one of the last W packets
Late ==
  /\ bad = "ok" /\ LateOK
  /\ \E k \in 1..W, dir \in {"up", "down", "none"} :
     /\ hist[k].f # None
     /\ LET f   == hist[k].f
            off == k - W
            r   == WriteOp(L, m, f, dir, PidM)
            ob  == Mon!Observe(g, off, r.res, r.out)
            pc  == FM!C02Pid(p, f, r.res, r.pid, FALSE, PidM)
        IN /\ L' = r.L /\ m' = r.m /\ g' = ob.g /\ p' = pc.p
           /\ hist' = [hist EXCEPT ![k].first =
                         IF @ = None /\ r.res = "F"
                         THEN [out |-> r.out, mk |-> r.marker, pid |-> r.pid, sidAt |-> r.L.sid] ELSE @]
           /\ bad' = First(<< ob.v, FM!C04Packet(L, r.L, f, r.res, FALSE, gmt, gms) >>)
  /\ UNCHANGED <<gmt, gms, mid, npid>>

Adjust == /\ bad = "ok"
          /\ \E dir \in {"up", "down"} :
             /\ L' = AdjustOp(L, dir)
             /\ bad' = FM!C04Feedback(L, L')
          /\ UNCHANGED <<m, g, p, gmt, gms, hist, mid, npid>>

Limit == /\ bad = "ok"
         /\ \E lim \in Bool2 :
            /\ L' = LimitOp(L, lim)
            /\ bad' = FM!C04Feedback(L, L')
         /\ UNCHANGED <<m, g, p, gmt, gms, hist, mid, npid>>

\* gotNACK for outgoing number o: Reverse, fetch from the publisher's cache (which holds
\* the last W packets, or has lost the one asked for), re-run Write on it
Nack ==
  /\ bad = "ok" /\ NackOK
  /\ \E o \in 0..(M - 1) :
     LET rv == ReverseOp(m, o) IN
     /\ rv.ok
     /\ \E k \in 1..W :
        /\ hist[k].f # None /\ hist[k].f.seq = rv.out
        /\ LET f  == hist[k].f
               r  == WriteOp(L, m, f, "none", PidM)
               fi == hist[k].first
               kn == fi # None
               v  == IF r.res # "F" THEN "ok"
                     ELSE FM!C03Answer(o, r.out, r.marker, r.pid, hist[k].wh, kn,
                                       IF kn THEN fi.out ELSE 0, IF kn THEN fi.mk ELSE FALSE,
                                       IF kn THEN fi.pid ELSE 0, TRUE)
               f17 == Known_F17 /\ v = "C03_marker_differs_from_first_transmission"
                      /\ kn /\ f.end /\ ~f.marker /\ fi.sidAt # r.L.sid
           IN /\ L' = r.L /\ m' = r.m
              /\ bad' = IF f17 THEN "ok" ELSE v
  /\ UNCHANGED <<g, p, gmt, gms, hist, mid, npid>>

Next == Send \/ Late \/ Adjust \/ Limit \/ Nack

Spec == Init /\ [][Next]_vars

PropertyHolds == bad = "ok"
Bounded == g.hi < MaxHi

LayerTypeOK == /\ L.sid \in 0..MaxS /\ L.wantedSid \in 0..MaxS /\ L.maxSid \in 0..MaxS
               /\ L.tid \in 0..MaxT /\ L.wantedTid \in 0..MaxT /\ L.maxTid \in 0..MaxT
               /\ L.sid <= L.maxSid /\ L.tid <= L.maxTid
               /\ L.wantedSid <= L.maxSid /\ L.wantedTid <= L.maxTid

View == <<L, m, Mon!GView(g), p, gmt, gms, hist, mid, npid, bad>>
\* when neither late copies nor NACKs are enabled the record of recent packets is never read
ViewNoHist == <<L, m, Mon!GView(g), p, gmt, gms, mid, npid, bad>>
=============================================================================
