--------------------------- MODULE Sim_Signalling ---------------------------
(* Behaviour generator: Signalling.tla with the abstract stimuli as a history,  *)
(* printed as JSON (with the C08 oracle table of the configuration) at SimDepth. *)
(* The orchestrator turns each abstract stimulus into concrete websocket         *)
(* messages for the real server (checks/sig.py).                                 *)
EXTENDS Signalling, Json
CONSTANTS SimDepth
VARIABLES beh
B(x) == IF x THEN 1 ELSE 0
SimInit == Init /\ beh = <<>>
R(op) == beh' = Append(beh, op)
SimNext ==
  /\ bad = "ok"
  /\ \/ \E c \in Clients, g \in Groups, u \in Users \cup {"guest"}, good \in BOOLEAN :
          Join(c, g, u, good) /\ R(<<"join", c, g, u, B(good)>>)
     \/ \E c \in Clients, g \in Groups, u \in Users \cup {"guest"} : Join(c, g, u, TRUE) /\ R(<<"join", c, g, u, 1>>)
     \/ \E c \in Clients : (Leave(c) /\ R(<<"leave", c>>)) \/ (st[c] = "member" /\ Disconnect(c) /\ R(<<"disc", c>>))
     \/ \E c \in Clients : Reconnect(c) /\ R(<<"reconnect", c>>)
     \/ \E c \in Clients, t \in {"chat", "usermessage"}, k \in {"", "caption"}, d \in {""} \cup Clients,
           cl \in {<<"other", "own">>, <<"own", "other">>, <<"none", "other">>, <<"none", "none">>, <<"own", "none">>, <<"none", "own">>}, ne \in BOOLEAN :
           Chat(c, t, k, d, cl[1], cl[2], ne, "v") /\ R(<<"chat", c, t, k, d, cl[1], cl[2], B(ne)>>)
     \/ \E c \in Clients, t \in {"chat", "usermessage"}, d \in {"", "A"}, ne \in BOOLEAN :
           Chat(c, t, "", d, "own", "own", ne, "v") /\ R(<<"chat", c, t, "", d, "own", "own", B(ne)>>)
     \/ \E c \in Clients, k \in {"op", "unop", "present", "unpresent", "shutup", "unshutup", "kick", "identify"},
           d \in Clients : UserAction(c, k, d) /\ R(<<"ua", c, k, d>>)
     \/ \E c \in Clients, k \in {"lock", "unlock", "clearchat", "subgroups"} : GroupAction(c, k) /\ R(<<"ga", c, k>>)
     \/ \E c \in Clients, tg \in Groups, ps \in {{}, {"present"}, {"op"}, {"present", "message"}, {"message", "op"}},
           ex \in BOOLEAN, sub \in BOOLEAN, tu \in {"", "op", "newname"} :
           MakeToken(c, tg, ps, ex, sub, tu) /\ R(<<"mt", c, tg, ToSeq(ps), B(ex), B(sub), tu>>)
\* (printed for one kind of last step only: TLC evaluates this on every successor it generates)
Emit2 == (Len(beh) = SimDepth /\ beh[SimDepth][1] = "leave") => PrintT(<<"BEH", ToJson([ops |-> beh, expect |-> ExpTable,
                                                         allowrec |-> B(AllowRec), unrestricted |-> B(Unrestricted)])>>)
=============================================================================
