SPECIFICATION Spec
CONSTANTS
  Fixed_F16 = TRUE
  MaxPkts = 5
INVARIANTS PropertyHolds
CHECK_DEADLOCK FALSE
