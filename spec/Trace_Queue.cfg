CONSTANTS
  TraceFile = "trace_queue.ndjson"
INIT Init
NEXT Next
CHECK_DEADLOCK FALSE
