--------------------------- MODULE CacheMonitor ---------------------------
(***************************************************************************)
(* Layer P of C05 and C06: judgements over what the public API of the      *)
(* packet cache returned, given what the environment stored.               *)
(***************************************************************************)
EXTENDS Integers, Sequences, FiniteSets

CONSTANTS M, NackHorizon   \* NackHorizon: 24 + 4 + 17 in the code's constants

LOCAL HMod(x) == x % M

---------------------------------------------------------------------------
(* C05.  h = [stored  set of <<seqno, id>> ever stored,                     *)
(*            recent  sequence of the last <= cap stores [s, id, idx, gen], *)
(*            guar    how many of the most recent stores must be           *)
(*                    retrievable, cap, gen (resize generation)]           *)

InitC05(cap) == [stored |-> {}, recent |-> <<>>, guar |-> 0, cap |-> cap, gen |-> 0]

LastN(sq, n) == IF Len(sq) <= n THEN sq ELSE SubSeq(sq, Len(sq) - n + 1, Len(sq))

C05Store(h, s, id, idx) ==
  [h EXCEPT !.stored = @ \cup {<<s, id>>},
            !.recent = LastN(Append(@, [s |-> s, id |-> id, idx |-> idx, gen |-> h.gen]), h.cap),
            !.guar = IF @ + 1 > h.cap THEN h.cap ELSE @ + 1]

C05Resize(h, cap, happened) ==
  IF ~happened THEN h
  ELSE [h EXCEPT !.cap = cap, !.gen = @ + 1,
                 !.guar = IF @ > cap THEN cap ELSE @,
                 !.recent = LastN(@, cap)]

Guaranteed(h) == LastN(h.recent, h.guar)

\* rid: id returned by Get(s): 0 nothing, -1 bytes that match no stored packet
C05Get(h, s, rid) ==
  IF rid = -1 THEN "C05_lookup_returned_corrupt_or_mixed_bytes"
  ELSE IF rid # 0 /\ <<s, rid>> \notin h.stored THEN "C05_lookup_returned_packet_of_another_seqno"
  ELSE IF rid = 0 /\ \E k \in 1..Len(Guaranteed(h)) : Guaranteed(h)[k].s = s
       THEN "C05_recently_stored_packet_not_retrievable"
  ELSE "ok"

\* GetAt(s, idx): must be the packet whose Store returned idx, while no resize happened
\* since and it is among the last `guar` stores (fewer than cap stores followed)
C05GetAt(h, s, idx, rid) ==
  LET gq == Guaranteed(h)
      ks == {k \in 1..Len(gq) : gq[k].idx = idx /\ gq[k].gen = h.gen}
  IN
  IF rid = -1 THEN "C05_lookup_returned_corrupt_or_mixed_bytes"
  ELSE IF rid # 0 /\ <<s, rid>> \notin h.stored THEN "C05_lookup_returned_packet_of_another_seqno"
  ELSE IF ks # {} /\ LET k == CHOOSE x \in ks : \A y \in ks : x >= y IN
                     gq[k].s = s /\ rid # gq[k].id
       THEN "C05_slot_lookup_missed_the_packet_stored_there"
  ELSE "ok"

---------------------------------------------------------------------------
(* C06.  q = [hi    highest position stored in this epoch (-1: none),       *)
(*            sh    its seqno,                                              *)
(*            arr   positions stored in this epoch (pruned),               *)
(*            rep   positions already requested by the receive loop,       *)
(*            holes positions skipped in a steady stream and not yet       *)
(*                  requested, steady, jumped, es (last ESeqno sampled)]   *)

InitC06 == [started |-> FALSE, hi |-> -1, sh |-> 0, arr |-> {}, rep |-> {}, holes |-> {}, steady |-> TRUE,
            jumped |-> FALSE, es |-> -1]

\* a packet at position hi+off with seqno s was stored (first packet: off = 1)
C06Store(q, off, s, lateT) ==
  IF q.started /\ off < 0 - lateT
  THEN \* backward jump beyond the late threshold: the cache restarts its accounting
       [q |-> [started |-> TRUE, hi |-> q.hi + off, sh |-> s, arr |-> {q.hi + off}, rep |-> {}, holes |-> {},
               steady |-> FALSE, jumped |-> TRUE, es |-> q.es],
        v |-> "ok"]
  ELSE LET p == q.hi + off
           lo == (IF off >= 1 THEN p ELSE q.hi) - 3 * lateT
           keep(S) == {x \in S : x >= lo}
           nh == IF off >= 1 THEN p ELSE q.hi
           overdue == {k \in q.holes : k + NackHorizon <= nh}
       IN [q |-> [q EXCEPT !.started = TRUE, !.hi = nh, !.sh = IF off >= 1 THEN s ELSE @,
                           !.arr = keep(@ \cup {p}),
                           !.rep = keep(@),
                           !.holes = IF off = 2 /\ q.steady THEN (@ \cup {q.hi + 1}) \ {p}
                                     ELSE @ \ {p},
                           !.steady = @ /\ off \in {1, 2}],
           v |-> IF q.steady /\ off \in {1, 2} /\ overdue # {}
                 THEN "C06_N4_hole_in_steady_stream_never_requested" ELSE "ok"]

\* the receive loop asked BitmapGet(next) and got `seqs` (sequence of seqnos it will NACK)
C06Nack(q, next, seqs) ==
  LET pos(s) == q.hi - HMod(q.sh - s)
      ps == {pos(seqs[i]) : i \in 1..Len(seqs)}
  IN [q |-> [q EXCEPT !.rep = @ \cup ps, !.holes = @ \ ps],
      v |-> IF \E i \in 1..Len(seqs) : pos(seqs[i]) \in q.arr
            THEN "C06_N1_requested_a_packet_that_arrived"
            ELSE IF \E i \in 1..Len(seqs) : seqs[i] = q.sh \/ HMod(q.sh - seqs[i]) >= M \div 2
            THEN "C06_N2_requested_newest_or_future_packet"
            ELSE IF \E i \in 1..Len(seqs) : HMod(next - seqs[i]) = 0 \/ HMod(next - seqs[i]) >= M \div 2
            THEN "C06_N2_requested_packet_not_before_bound"
            ELSE IF Cardinality(ps) # Len(seqs) \/ ps \cap q.rep # {}
            THEN "C06_N3_packet_requested_twice"
            ELSE "ok"]

\* a statistics sample as sendUpRTCP computes it
C06Stats(q, st) ==
  LET lost == IF st.expected > st.received THEN st.expected - st.received ELSE 0
      frac0 == IF st.expected > 0 THEN (lost * 256) \div st.expected ELSE 0
      frac == IF frac0 >= 255 THEN 255 ELSE frac0
  IN [q |-> [q EXCEPT !.es = st.eseqno, !.jumped = FALSE],
      v |-> IF st.received > st.expected \/ st.totalReceived > st.totalExpected
            THEN "C06_S1_received_exceeds_expected"
            ELSE IF frac < 0 \/ frac > 255 THEN "C06_S2_fraction_out_of_range"
            ELSE IF st.eseqno < q.es /\ ~q.jumped THEN "C06_S3_extended_seqno_decreased"
            ELSE "ok"]

\* ToBitmap(input) = (first, bits as set of offsets 0..15, remain)
C06ToBitmap(input, first, bits, remain) ==
  LET covered == <<first>> \o [k \in 1..Cardinality(bits) |->
                     HMod(first + 1 + (CHOOSE b \in bits : Cardinality({x \in bits : x < b}) = k - 1))]
  IN IF covered \o remain # input THEN "C06_T_bitmap_does_not_cover_a_prefix_exactly" ELSE "ok"
=============================================================================
