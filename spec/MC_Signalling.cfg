\* C08/C11/C14/C15: 3 clients, 2 groups, every stimulus in every membership state, sequences up to 4 steps
CONSTANTS
  Clients = {"A", "B", "C"}
  Groups = {"g", "h"}
  AllowRec = TRUE
  Unrestricted = FALSE
  Fixed_F2 = TRUE
  Fixed_F10 = TRUE
  Fixed_F11 = TRUE
  MaxSteps = 3
INIT Init
NEXT Next
INVARIANTS PropertyHolds Consistent
CHECK_DEADLOCK FALSE
