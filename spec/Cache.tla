------------------------------- MODULE Cache -------------------------------
(***************************************************************************)
(* C05 and C06: the publisher-side packet cache.                           *)
(* Layer I = CacheOps (packetcache.Cache field by field).                  *)
(* Layer P = CacheMonitor.                                                 *)
(* Environment: packets of a stream arrive at positions relative to the    *)
(* highest one so far (loss = skipped positions, late packets, duplicates, *)
(* restarts = backward jumps beyond the late threshold); after every       *)
(* arrival the receive loop of rtpconn/rtpreader.go decides whether to ask *)
(* the loss bitmap for packets to NACK (ReadLoopStep transcribes that      *)
(* arithmetic; `packets`, 2..MaxPackets, stands for the rate-dependent     *)
(* threshold); the cache may be resized, looked up and sampled anywhere.   *)
(***************************************************************************)
EXTENDS Integers, Sequences, FiniteSets, TLC

CONSTANTS M, BitmapW, GetW, LateT, NackHorizon, Fixed_F20, Fixed_F26,
          Caps,        \* capacities explored
          Ids,         \* packet content ids
          Offs,        \* arrival offsets from the highest position (first arrival: 1)
          MaxPackets,  \* upper bound of the receive loop's lateness threshold (24)
          Unnacked,    \* how many newest packets are never NACKed by the loop (4)
          KFs,         \* keyframe flags explored
          MaxHi,       \* state constraint: stream length
          Starts

INSTANCE CacheOps
CM == INSTANCE CacheMonitor

VARIABLES c, h, q, bad
vars == <<c, h, q, bad>>

Init == /\ \E cap \in Caps : c = NewCache(cap) /\ h = CM!InitC05(cap)
        /\ \E s \in Starts : q = [CM!InitC06 EXCEPT !.sh = CMod(s - 1)]
        /\ bad = "ok"

First(vs) == LET b == SelectSeq(vs, LAMBDA x : x # "ok") IN IF b = <<>> THEN "ok" ELSE b[1]

\* C05 judged over EVERY lookup the API offers, in the state after each step
C05All(cc, hh) ==
  LET seqs == {hh.recent[k].s : k \in 1..Len(hh.recent)} \cup {e[1] : e \in hh.stored}
      vg == {CM!C05Get(hh, s, Get(cc, s)) : s \in seqs}
      va == {CM!C05GetAt(hh, s, i, GetAt(cc, s, i)) : s \in seqs, i \in 0..(Cap(cc))}
      bads == (vg \cup va) \ {"ok"}
  IN IF bads = {} THEN "ok" ELSE CHOOSE b \in bads : TRUE

\* the NACK decision of readLoop after a Store that returned `first`
\* result [c, asked, next, seqs]
ReadLoopStep(cc, s, first, packets) ==
  LET d0 == CMod(s - first)
      delta == IF d0 >= CHalf THEN 0 ELSE d0
      un == IF Unnacked > packets THEN packets ELSE Unnacked
  IN IF delta > packets
     THEN LET r == BmGet(cc, CMod(s - un))
              bs == r.bits
              sq == IF r.found
                    THEN <<r.first>> \o [k \in 1..Cardinality(bs) |->
                           CMod(r.first + (CHOOSE b \in bs : Cardinality({x \in bs : x < b}) = k - 1))]
                    ELSE <<>>
          IN [c |-> IF r.found THEN Expect(r.c, Len(sq)) ELSE r.c, asked |-> TRUE,
              next |-> CMod(s - un), seqs |-> sq]
     ELSE [c |-> cc, asked |-> FALSE, next |-> 0, seqs |-> <<>>]

Arrive(off, id, kf, packets) ==
  LET s  == CMod(q.sh + off)
      st == Store(c, s, id, kf)
      rl == ReadLoopStep(st.c, s, st.first, packets)
      h1 == CM!C05Store(h, s, id, st.index)
      q1 == CM!C06Store(q, off, s, LateT)
      q2 == IF rl.asked THEN CM!C06Nack(q1.q, rl.next, rl.seqs) ELSE [q |-> q1.q, v |-> "ok"]
  IN /\ c' = rl.c /\ h' = h1 /\ q' = q2.q
     /\ bad' = First(<<q1.v, q2.v, C05All(rl.c, h1)>>)

Next ==
  /\ bad = "ok"
  /\ \/ \E off \in (IF ~q.started THEN {1} ELSE Offs), id \in Ids, kf \in KFs,
          pk \in 2..MaxPackets : Arrive(off, id, kf, pk)
     \/ \E cap \in Caps :
          /\ c' = Resize(c, cap) /\ h' = CM!C05Resize(h, cap, cap # Cap(c))
          /\ bad' = C05All(c', h') /\ UNCHANGED q
     \/ \E cap \in Caps : LET r == ResizeCond(c, cap) IN
          /\ c' = r.c /\ h' = CM!C05Resize(h, cap, r.ok /\ cap # Cap(c))
          /\ bad' = C05All(c', h') /\ UNCHANGED q
     \/ \E reset \in BOOLEAN : LET r == GetStats(c, reset)  j == CM!C06Stats(q, r.st) IN
          /\ c' = r.c /\ q' = j.q /\ bad' = j.v /\ UNCHANGED h

Spec == Init /\ [][Next]_vars
PropertyHolds == bad = "ok"
Bounded == q.hi < MaxHi
CountersConsistent == c.received <= c.expected
\* counters and the sampled ESeqno grow without bound; everything the future depends on is kept
View == <<[c EXCEPT !.expected = c.expected - c.received, !.received = 0,
                    !.totalExpected = c.totalExpected - c.totalReceived, !.totalReceived = 0,
                    !.cycle = 0],
          [h EXCEPT !.gen = 0, !.recent = [k \in 1..Len(h.recent) |-> [h.recent[k] EXCEPT !.gen = h.gen - @]]],
          [q EXCEPT !.hi = 0, !.arr = {x - q.hi : x \in q.arr}, !.rep = {x - q.hi : x \in q.rep},
                    !.holes = {x - q.hi : x \in q.holes}, !.es = q.es - (c.cycle * M + c.last)],
          bad>>
\* C05 only: the ring and its monitor do not depend on the accounting part at all
ViewRing == <<c.tail, c.ents,
              [h EXCEPT !.gen = 0,
                        !.recent = [k \in 1..Len(h.recent) |->
                                      [h.recent[k] EXCEPT !.gen = IF h.gen = @ THEN 0 ELSE 1]]],
              bad>>
=============================================================================
