-------------------------------- MODULE Paths --------------------------------
(***************************************************************************)
(* C19: names supplied by clients never reach files outside their          *)
(* directory.  A name is a sequence of components (the string is their     *)
(* join with "/"; a leading empty component = an absolute name).           *)
(* Layer I (implementation-shaped):                                        *)
(*   Clean          path.Clean("/" + name)                                 *)
(*   ValidImpl      group.validGroupName: no backslash, Clean is a fixpoint*)
(*   ParseImpl      webserver.parseGroupName after the prefix              *)
(*   FileOf         getDescriptionFile: Directory + Clean(name) + ".json"  *)
(*   DeleteTarget   the recordings delete action                           *)
(* Layer P (what the property says):                                       *)
(*   ValidClosed    non-empty, not absolute, no backslash, no empty, "."   *)
(*                  or ".." component                                      *)
(*   Inside         a resolved path never climbs above its root            *)
(* TLC enumerates every name of up to 3 components over the alphabet and   *)
(* checks that the layers agree (the table is also printed for the         *)
(* conformance harness).  Fixed_F22 = FALSE: parseGroupName before the     *)
(* repair let a backslash through on systems whose separator is "/".       *)
(***************************************************************************)
EXTENDS Integers, Sequences, FiniteSets, TLC, Json
CONSTANTS Fixed_F22

Comp == {"a", "b", ".", "..", "", "x\\y", ".h"}
HasBs(c) == c = "x\\y"
Names == UNION {[1..n -> Comp] : n \in 1..3}

RECURSIVE JoinFrom(_, _)
JoinFrom(cs, i) == IF i > Len(cs) THEN "" ELSE IF i = Len(cs) THEN cs[i] ELSE cs[i] \o "/" \o JoinFrom(cs, i + 1)
Join(cs) == JoinFrom(cs, 1)

\* path.Clean of the rooted name: the stack of components that remain
RECURSIVE CleanFrom(_, _, _)
CleanFrom(cs, i, st) ==
  IF i > Len(cs) THEN st
  ELSE LET c == cs[i] IN
       CleanFrom(cs, i + 1, IF c \in {"", "."} THEN st
                            ELSE IF c = ".." THEN (IF st = <<>> THEN st ELSE SubSeq(st, 1, Len(st) - 1))
                            ELSE Append(st, c))
Clean(cs) == CleanFrom(cs, 1, <<>>)

ValidImpl(cs) == /\ \A i \in 1..Len(cs) : ~HasBs(cs[i])
                 /\ Clean(cs) # <<>>
                 /\ Clean(cs) = cs
ValidClosed(cs) == cs # <<>> /\ \A i \in 1..Len(cs) : cs[i] \notin {"", ".", ".."} /\ ~HasBs(cs[i])
ValidUserImpl(cs) == Join(cs) = "" \/ ValidImpl(cs)
ValidUserClosed(cs) == Join(cs) = "" \/ ValidClosed(cs)

\* parseGroupName(prefix, prefix + name): <<>> = "not a group"
ParseImpl(cs) ==
  IF Join(cs) = "" THEN <<>>
  ELSE IF cs[1] \in {".", "..", ".h"} THEN <<>>
  ELSE IF Fixed_F22 /\ \E i \in 1..Len(cs) : HasBs(cs[i]) THEN <<>>
  ELSE Clean(cs)

\* getDescriptionFile: the components below Directory of the file that is opened (any name, validated or not)
FileOf(cs) == Clean(cs)
\* resolving components below a root: depth never negative = never above the root
RECURSIVE DepthOK(_, _, _)
DepthOK(cs, i, d) == IF i > Len(cs) THEN TRUE
                     ELSE IF cs[i] = ".." THEN (d > 0 /\ DepthOK(cs, i + 1, d - 1))
                     ELSE IF cs[i] \in {"", "."} THEN DepthOK(cs, i + 1, d)
                     ELSE DepthOK(cs, i + 1, d + 1)
Inside(cs) == DepthOK(cs, 1, 0)

\* the delete action: a filename with a "/" is refused; else group directory + Clean(filename)
DeleteTarget(group, fcs) == IF Len(fcs) > 1 THEN <<"refused">> ELSE group \o Clean(fcs)

VARIABLE n
Init == n \in Names
Next == UNCHANGED n
Emit == PrintT(<<"CASE", ToJson([comps |-> n, name |-> Join(n), valid |-> ValidImpl(n), user |-> ValidUserImpl(n),
                                 parse |-> Join(ParseImpl(n)), file |-> Join(FileOf(n))])>>)

P1 == ValidImpl(n) <=> ValidClosed(n)
P1u == ValidUserImpl(n) <=> ValidUserClosed(n)
P2 == ParseImpl(n) = <<>> \/ ValidClosed(ParseImpl(n))
P3 == Inside(FileOf(n)) /\ \A i \in 1..Len(FileOf(n)) : FileOf(n)[i] \notin {"", ".", ".."}
P4 == \A g \in {<<"a">>, <<"a", "b">>} : LET t == DeleteTarget(g, n) IN
         t = <<"refused">> \/ (Inside(t) /\ Len(t) >= Len(g) /\ SubSeq(t, 1, Len(g)) = g)
=============================================================================
