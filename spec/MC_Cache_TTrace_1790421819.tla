---- MODULE MC_Cache_TTrace_1790421819 ----
EXTENDS Sequences, TLCExt, Toolbox, Naturals, TLC, MC_Cache

_expression ==
    LET MC_Cache_TEExpression == INSTANCE MC_Cache_TEExpression
    IN MC_Cache_TEExpression!expression
----

_trace ==
    LET MC_Cache_TETrace == INSTANCE MC_Cache_TETrace
    IN MC_Cache_TETrace!trace
----

_inv ==
    ~(
        TLCGet("level") = Len(_TETrace)
        /\
        q = ([sh |-> 16, started |-> TRUE, hi |-> -13, arr |-> {-20, -16, -13}, rep |-> {-25, -24, -23, -19, -18, -17, -16}, holes |-> {}, es |-> -1, steady |-> FALSE, jumped |-> TRUE])
        /\
        c = ([kf |-> 0, received |-> 5, expected |-> 16, totalExpected |-> 0, totalReceived |-> 0, cycle |-> 0, last |-> 16, tail |-> 0, ents |-> <<[id |-> 1, seq |-> 9], [id |-> 1, seq |-> 16]>>, lastValid |-> TRUE, kfValid |-> FALSE, bmValid |-> TRUE, bmFirst |-> 14, bmBits |-> {2}])
        /\
        bad = ("C06_N1_requested_a_packet_that_arrived")
        /\
        h = ([cap |-> 2, recent |-> <<[s |-> 9, id |-> 1, gen |-> 0, idx |-> 0], [s |-> 16, id |-> 1, gen |-> 0, idx |-> 1]>>, stored |-> {<<9, 1>>, <<13, 1>>, <<16, 1>>, <<18, 1>>, <<24, 1>>, <<29, 1>>}, gen |-> 0, guar |-> 2])
    )
----

_init ==
    /\ bad = _TETrace[1].bad
    /\ c = _TETrace[1].c
    /\ h = _TETrace[1].h
    /\ q = _TETrace[1].q
----

_next ==
    /\ \E i,j \in DOMAIN _TETrace:
        /\ \/ /\ j = i + 1
              /\ i = TLCGet("level")
        /\ bad  = _TETrace[i].bad
        /\ bad' = _TETrace[j].bad
        /\ c  = _TETrace[i].c
        /\ c' = _TETrace[j].c
        /\ h  = _TETrace[i].h
        /\ h' = _TETrace[j].h
        /\ q  = _TETrace[i].q
        /\ q' = _TETrace[j].q

\* Uncomment the ASSUME below to write the states of the error trace
\* to the given file in Json format. Note that you can pass any tuple
\* to `JsonSerialize`. For example, a sub-sequence of _TETrace.
    \* ASSUME
    \*     LET J == INSTANCE Json
    \*         IN J!JsonSerialize("MC_Cache_TTrace_1790421819.json", _TETrace)

=============================================================================

 Note that you can extract this module `MC_Cache_TEExpression`
  to a dedicated file to reuse `expression` (the module in the 
  dedicated `MC_Cache_TEExpression.tla` file takes precedence 
  over the module `MC_Cache_TEExpression` below).

---- MODULE MC_Cache_TEExpression ----
EXTENDS Sequences, TLCExt, Toolbox, Naturals, TLC, MC_Cache

expression == 
    [
        \* To hide variables of the `MC_Cache` spec from the error trace,
        \* remove the variables below.  The trace will be written in the order
        \* of the fields of this record.
        bad |-> bad
        ,c |-> c
        ,h |-> h
        ,q |-> q
        
        \* Put additional constant-, state-, and action-level expressions here:
        \* ,_stateNumber |-> _TEPosition
        \* ,_badUnchanged |-> bad = bad'
        
        \* Format the `bad` variable as Json value.
        \* ,_badJson |->
        \*     LET J == INSTANCE Json
        \*     IN J!ToJson(bad)
        
        \* Lastly, you may build expressions over arbitrary sets of states by
        \* leveraging the _TETrace operator.  For example, this is how to
        \* count the number of times a spec variable changed up to the current
        \* state in the trace.
        \* ,_badModCount |->
        \*     LET F[s \in DOMAIN _TETrace] ==
        \*         IF s = 1 THEN 0
        \*         ELSE IF _TETrace[s].bad # _TETrace[s-1].bad
        \*             THEN 1 + F[s-1] ELSE F[s-1]
        \*     IN F[_TEPosition - 1]
    ]

=============================================================================



Parsing and semantic processing can take forever if the trace below is long.
 In this case, it is advised to uncomment the module below to deserialize the
 trace from a generated binary file.

\*
\*---- MODULE MC_Cache_TETrace ----
\*EXTENDS IOUtils, TLC, MC_Cache
\*
\*trace == IODeserialize("MC_Cache_TTrace_1790421819.bin", TRUE)
\*
\*=============================================================================
\*

---- MODULE MC_Cache_TETrace ----
EXTENDS TLC, MC_Cache

trace == 
    <<
    ([q |-> [sh |-> 28, started |-> FALSE, hi |-> -1, arr |-> {}, rep |-> {}, holes |-> {}, es |-> -1, steady |-> TRUE, jumped |-> FALSE],c |-> [kf |-> 0, received |-> 0, expected |-> 0, totalExpected |-> 0, totalReceived |-> 0, cycle |-> 0, last |-> 0, tail |-> 0, ents |-> <<[id |-> 0, seq |-> -1], [id |-> 0, seq |-> -1]>>, lastValid |-> FALSE, kfValid |-> FALSE, bmValid |-> FALSE, bmFirst |-> 0, bmBits |-> {}],bad |-> "ok",h |-> [cap |-> 2, recent |-> <<>>, stored |-> {}, gen |-> 0, guar |-> 0]]),
    ([q |-> [sh |-> 29, started |-> TRUE, hi |-> 0, arr |-> {0}, rep |-> {}, holes |-> {}, es |-> -1, steady |-> TRUE, jumped |-> FALSE],c |-> [kf |-> 0, received |-> 1, expected |-> 1, totalExpected |-> 0, totalReceived |-> 0, cycle |-> 0, last |-> 29, tail |-> 1, ents |-> <<[id |-> 1, seq |-> 29], [id |-> 0, seq |-> -1]>>, lastValid |-> TRUE, kfValid |-> FALSE, bmValid |-> TRUE, bmFirst |-> 29, bmBits |-> {0}],bad |-> "ok",h |-> [cap |-> 2, recent |-> <<[s |-> 29, id |-> 1, gen |-> 0, idx |-> 0]>>, stored |-> {<<29, 1>>}, gen |-> 0, guar |-> 1]]),
    ([q |-> [sh |-> 24, started |-> TRUE, hi |-> -5, arr |-> {-5}, rep |-> {}, holes |-> {}, es |-> -1, steady |-> FALSE, jumped |-> TRUE],c |-> [kf |-> 0, received |-> 2, expected |-> 2, totalExpected |-> 0, totalReceived |-> 0, cycle |-> 0, last |-> 24, tail |-> 0, ents |-> <<[id |-> 1, seq |-> 29], [id |-> 1, seq |-> 24]>>, lastValid |-> TRUE, kfValid |-> FALSE, bmValid |-> TRUE, bmFirst |-> 29, bmBits |-> {0}],bad |-> "ok",h |-> [cap |-> 2, recent |-> <<[s |-> 29, id |-> 1, gen |-> 0, idx |-> 0], [s |-> 24, id |-> 1, gen |-> 0, idx |-> 1]>>, stored |-> {<<24, 1>>, <<29, 1>>}, gen |-> 0, guar |-> 2]]),
    ([q |-> [sh |-> 18, started |-> TRUE, hi |-> -11, arr |-> {-11}, rep |-> {}, holes |-> {}, es |-> -1, steady |-> FALSE, jumped |-> TRUE],c |-> [kf |-> 0, received |-> 3, expected |-> 3, totalExpected |-> 0, totalReceived |-> 0, cycle |-> 0, last |-> 18, tail |-> 1, ents |-> <<[id |-> 1, seq |-> 18], [id |-> 1, seq |-> 24]>>, lastValid |-> TRUE, kfValid |-> FALSE, bmValid |-> TRUE, bmFirst |-> 29, bmBits |-> {0}],bad |-> "ok",h |-> [cap |-> 2, recent |-> <<[s |-> 24, id |-> 1, gen |-> 0, idx |-> 1], [s |-> 18, id |-> 1, gen |-> 0, idx |-> 0]>>, stored |-> {<<18, 1>>, <<24, 1>>, <<29, 1>>}, gen |-> 0, guar |-> 2]]),
    ([q |-> [sh |-> 13, started |-> TRUE, hi |-> -16, arr |-> {-16}, rep |-> {}, holes |-> {}, es |-> -1, steady |-> FALSE, jumped |-> TRUE],c |-> [kf |-> 0, received |-> 4, expected |-> 4, totalExpected |-> 0, totalReceived |-> 0, cycle |-> 0, last |-> 13, tail |-> 0, ents |-> <<[id |-> 1, seq |-> 18], [id |-> 1, seq |-> 13]>>, lastValid |-> TRUE, kfValid |-> FALSE, bmValid |-> TRUE, bmFirst |-> 29, bmBits |-> {0}],bad |-> "ok",h |-> [cap |-> 2, recent |-> <<[s |-> 18, id |-> 1, gen |-> 0, idx |-> 0], [s |-> 13, id |-> 1, gen |-> 0, idx |-> 1]>>, stored |-> {<<13, 1>>, <<18, 1>>, <<24, 1>>, <<29, 1>>}, gen |-> 0, guar |-> 2]]),
    ([q |-> [sh |-> 13, started |-> TRUE, hi |-> -16, arr |-> {-20, -16}, rep |-> {-27, -26, -25, -24, -23}, holes |-> {}, es |-> -1, steady |-> FALSE, jumped |-> TRUE],c |-> [kf |-> 0, received |-> 4, expected |-> 9, totalExpected |-> 0, totalReceived |-> 0, cycle |-> 0, last |-> 13, tail |-> 1, ents |-> <<[id |-> 1, seq |-> 9], [id |-> 1, seq |-> 13]>>, lastValid |-> TRUE, kfValid |-> FALSE, bmValid |-> TRUE, bmFirst |-> 7, bmBits |-> {2}],bad |-> "ok",h |-> [cap |-> 2, recent |-> <<[s |-> 13, id |-> 1, gen |-> 0, idx |-> 1], [s |-> 9, id |-> 1, gen |-> 0, idx |-> 0]>>, stored |-> {<<9, 1>>, <<13, 1>>, <<18, 1>>, <<24, 1>>, <<29, 1>>}, gen |-> 0, guar |-> 2]]),
    ([q |-> [sh |-> 16, started |-> TRUE, hi |-> -13, arr |-> {-20, -16, -13}, rep |-> {-25, -24, -23, -19, -18, -17, -16}, holes |-> {}, es |-> -1, steady |-> FALSE, jumped |-> TRUE],c |-> [kf |-> 0, received |-> 5, expected |-> 16, totalExpected |-> 0, totalReceived |-> 0, cycle |-> 0, last |-> 16, tail |-> 0, ents |-> <<[id |-> 1, seq |-> 9], [id |-> 1, seq |-> 16]>>, lastValid |-> TRUE, kfValid |-> FALSE, bmValid |-> TRUE, bmFirst |-> 14, bmBits |-> {2}],bad |-> "C06_N1_requested_a_packet_that_arrived",h |-> [cap |-> 2, recent |-> <<[s |-> 9, id |-> 1, gen |-> 0, idx |-> 0], [s |-> 16, id |-> 1, gen |-> 0, idx |-> 1]>>, stored |-> {<<9, 1>>, <<13, 1>>, <<16, 1>>, <<18, 1>>, <<24, 1>>, <<29, 1>>}, gen |-> 0, guar |-> 2]])
    >>
----


=============================================================================

---- CONFIG MC_Cache_TTrace_1790421819 ----
CONSTANTS
    M = 32
    BitmapW = 8
    GetW = 5
    LateT = 4
    Fixed_F20 = FALSE
    Fixed_F26 = TRUE
    NackHorizon = 10
    Caps = { 2 }
    Ids = { 1 }
    Offs <- OffsLoss
    KFs = { FALSE }
    MaxPackets = 3
    Unnacked = 2
    MaxHi = 6
    Starts = { 29 }

INVARIANT
    _inv

CHECK_DEADLOCK
    \* CHECK_DEADLOCK off because of PROPERTY or INVARIANT above.
    FALSE

INIT
    _init

NEXT
    _next

CONSTANT
    _TETrace <- _trace

ALIAS
    _expression
=============================================================================
\* Generated on Sat Sep 26 11:23:41 UTC 2026