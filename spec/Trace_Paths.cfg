CONSTANTS
  TraceFile = "trace_paths.ndjson"
INIT Init
NEXT Next
CHECK_DEADLOCK FALSE
