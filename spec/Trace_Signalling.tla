------------------------- MODULE Trace_Signalling -------------------------
(***************************************************************************)
(* Validates black-box executions of the REAL server (child process, real  *)
(* websockets, real HTTP) against SigMonitor.  Events (one per line):      *)
(*  New{name,expect} sent{c,m} recv{c,m} wsclosed{c} closews{c} settled    *)
(*  dead{panic,frame} restarted http{...} files{...} End                   *)
(***************************************************************************)
EXTENDS Integers, Sequences, FiniteSets, TLC, Json

CONSTANTS TraceFile
SM == INSTANCE SigMonitor
Trace == ndJsonDeserialize(TraceFile)

VARIABLES l, s, nbeh, nbad, skip, done
vars == <<l, s, nbeh, nbad, skip, done>>
Init == l = 1 /\ s = SM!InitSig(<<>>) /\ nbeh = 0 /\ nbad = 0 /\ skip = FALSE /\ done = FALSE
Ev == Trace[l]

\* (no skipping after a failure: a later failure of another property in the same behaviour --
\*  e.g. the server dying -- must still be seen; at most 40 failures are reported per behaviour)
Verdict(v) == /\ skip' = (v # "ok" /\ nbad >= 40 * nbeh) /\ nbad' = IF v # "ok" THEN nbad + 1 ELSE nbad
              /\ (v # "ok" => PrintT(<<"TRACE-BAD", l, nbeh, v>>))

TNew == /\ Ev.ev = "New" /\ s' = [SM!InitSig(Ev.expect) EXCEPT !.pipe = (Ev.pipelined = 1), !.maxage = IF "maxage" \in DOMAIN Ev THEN Ev.maxage ELSE <<>>] /\ nbeh' = nbeh + 1 /\ skip' = FALSE /\ UNCHANGED nbad
TSent == /\ Ev.ev = "sent" /\ s' = SM!OnSent(s, Ev.c, Ev.m) /\ Verdict("ok") /\ UNCHANGED nbeh
TRecv == /\ Ev.ev = "recv"
         /\ LET r == SM!OnRecv(s, Ev.c, Ev.m) IN s' = r.s /\ Verdict(r.v)
         /\ UNCHANGED nbeh
TClosed == /\ Ev.ev = "wsclosed"
           /\ LET r == SM!OnClosed(s, Ev.c) IN s' = r.s /\ Verdict(r.v)
           /\ UNCHANGED nbeh
TGone == /\ Ev.ev = "closews" /\ s' = SM!OnGone(s, Ev.c) /\ Verdict("ok") /\ UNCHANGED nbeh
TDead == /\ Ev.ev \in {"dead", "startfail"}
         /\ Verdict("C12_R1_server_process_died") /\ UNCHANGED <<s, nbeh>>
THttp == /\ Ev.ev = "http"
         /\ Verdict(IF Ev.status = -1 THEN "C12_R2_http_request_got_no_response"
                    ELSE IF Ev.name = "stats" /\ Ev.status = 200
                    THEN SM!OnStats(s, {<<Ev.members[i][1], Ev.members[i][2]>> : i \in 1..Len(Ev.members)})
                    ELSE "ok")
         /\ UNCHANGED <<s, nbeh>>
TEnd == /\ Ev.ev = "End" /\ Verdict(SM!AtEnd(s)) /\ UNCHANGED <<s, nbeh>>
TSettled == /\ Ev.ev = "settled"
            /\ LET r == SM!OnSettled(s) IN s' = r.s /\ Verdict(r.v)
            /\ UNCHANGED nbeh
TOpen == /\ Ev.ev = "wsopen" /\ s' = SM!OnOpen(s, Ev.c) /\ Verdict("ok") /\ UNCHANGED nbeh
TSentRaw == /\ Ev.ev = "sentraw" /\ s' = SM!OnSentRaw(s, Ev.c) /\ Verdict("ok") /\ UNCHANGED nbeh
\* events of other tiers of the same driver (stream completion, scripted RTP, NACK hooks, WHIP, racing HTTP) carry nothing for this monitor
TOther == /\ Ev.ev \notin {"New", "sent", "recv", "wsclosed", "closews", "dead", "startfail", "http", "End", "settled", "wsopen", "sentraw"}
          /\ s' = s /\ Verdict("ok") /\ UNCHANGED nbeh
TSkip == skip /\ Ev.ev # "New" /\ UNCHANGED <<s, nbeh, nbad, skip>>

Step == /\ l <= Len(Trace)
        /\ (TNew \/ TSkip \/ (~skip /\ (TSent \/ TRecv \/ TClosed \/ TGone \/ TDead \/ THttp \/ TEnd \/ TSettled \/ TSentRaw \/ TOpen \/ TOther)))
        /\ l' = l + 1 /\ UNCHANGED done
Finish == /\ l = Len(Trace) + 1 /\ ~done /\ done' = TRUE
          /\ PrintT(<<"TRACE-DONE", l - 1, nbeh, 0, nbad>>)
          /\ UNCHANGED <<l, s, nbeh, nbad, skip>>
Next == Step \/ Finish
Spec == Init /\ [][Next]_vars
=============================================================================
