\* the repaired code: every pair and triple of lifecycle operations
CONSTANTS
  Running = {"AddClient", "AddClient2", "DelClient", "WhipClose", "SetLocked", "Shutdown", "GetDescription", "Stats", "Reload", "History", "HistoryReplay", "OpLeaves"}
  MaxConc = 2
  Fixed_F4 = TRUE
  Fixed_F5 = TRUE
  Fixed_F8 = TRUE
  Fixed_F18 = TRUE
  WhipConnected = TRUE
  Async_Autokick = TRUE
  History_Copy = FALSE
SPECIFICATION Spec
INVARIANTS NoRace WellFormed
